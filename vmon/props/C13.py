"""
C13 -- CDXML parsing reproduces the drawing: constitution, charges, handedness; deterministic; labels stable.

Monitor shapes: differential oracle against an independent reading of the drawing (vmon/models/cdxmlref.py:
an xml.etree.ElementTree walk that shares no code with molli), metamorphic oracles over text-level rewrites of
the bundled drawings (stereo marks mirrored, page children permuted, page translated, object ids renumbered),
and a determinism oracle (same object / cold object / other global numpy.random seed / fresh process).
sys.monitoring LINE counters on the anchored functions show that the ring branch, the acyclic branch and the
bold/hash branch of the 3D-ification and the nested-fragment join were executed.

Absolute 3-D sense (check_absolute / check_mark_effect; conventions in ASSUMPTIONS): the sign of the dominant neighbour
triple at the narrow end of every uncrowded wedge / hashed wedge (Begin and End forms, acyclic and ring bonds, also in
fragments with a hapto centre away from that centre) and "a drawn stereocentre is not parsed flat"; Bold / Hash ring
bonds and ring wedges by their height over the unmarked atoms of the ring system (frame-free); every single mark removed
on its own must change the parse; every wedge written the other way round (B <-> E, Begin <-> End) must parse to the
same fragment.  Hand-written drawings (vmon/models/c13_drawings.py) add what the bundled files lack: stereocentres in
parts turned by 60 ... 180 degrees, End forms, perspective / bridged / fused rings, at many orientations and positions.
Two mechanisms fail on the unchanged tree (tools/findings/C13-ext.json) and are set aside in KNOWN_ON_UNCHANGED_TREE /
GENERATED_LEFT_OUT_UNTIL_REPAIRED; VERIF_C13_JUDGE_KNOWN=1 judges them too (for a repaired tree).
"""
from __future__ import annotations

import itertools
import json
import os
import pickle
import subprocess
import sys
from collections import Counter

ID = "C13"
LEVEL = "exploration"
RULE = ("every labelled fragment of the 7 bundled .cdxml files (116 labels) is parsed with CDXMLFile[label] from the "
        "unchanged file and from text-level rewrites of it: stereo marks mirrored (wedge<->hash, bold<->hash), children "
        "of <page> shuffled (seeded), page translated (seeded offsets, one recorded witness offset, and a sweep of 400 "
        "(quick) / 2000 (thorough) offsets over the fragments that bend a substituent inside an already bent part), "
        "object ids renumbered (offset / shuffled / dense from 1 / dense from 100001 / abbreviation nodes given the "
        "number drawn on another atom), document order of the nodes inside each fragment shuffled, and compositions "
        "of these, every wedge written the other way round (B <-> E with Begin <-> End), and every single stereo mark "
        "removed on its own; plus hand-written drawings (vmon/models/c13_drawings.py: zig-zag chains with stereocentres "
        "inside parts that one, two or three earlier wedges have turned by 60 to 180 degrees, single centres with three "
        "and four neighbours, perspective rings with a thick front or rear edge, bridged and fused rings with a wedge "
        "on a ring bond; every Display value) under 12 rotations / reflections of each fragment (8 fixed, 4 seeded), "
        "each again mirrored, flipped and translated to 5 (quick) / 40 (thorough) seeded page positions; "
        "a case = (file, rewrite, label); non-trivial = the "
        "fragment carries at least one stereo mark or a nested (abbreviation) fragment; distinct by (file, rewrite, "
        "rewrite seed, label)")
ASSUMPTIONS = [
    "the reference reading of the drawing (vmon/models/cdxmlref.py) is trusted: bracket (MultiAttachment) nodes are "
    "not atoms, a node carrying a nested fragment stands for that fragment's nodes minus one connection point, "
    "Radical Doublet=1 / Singlet=2 unpaired-electron count (the repository's own test expects CCl2 singlet -> mult 3)",
    "bonds of hapto centres are judged for presence only (one per attached atom, any kind) and centres that are, or "
    "are bonded to, a hapto centre are excluded from the handedness oracles, as the property says",
    "a dashed bond may be reported as a ligand (dative) bond or with its drawn order; the junction bond of a nested "
    "fragment is only judged when both drawn halves are plain single bonds",
    "a centre is non-planar when |normalised signed volume| of its dominant neighbour triple >= 0.2 in the parse of "
    "the drawing or of its mirror image; only the sign of that triple is compared after mirroring",
    "absolute sense, convention relied on: y points down on the page and the viewer looks along -z; a wedge (WedgeBegin "
    "/ WedgeEnd) has its wide end towards the viewer, a hashed wedge away from the viewer, as seen from the atom at its "
    "narrow end while that atom's other drawn bonds stay in the plane of the paper; ...Begin has the narrow end at atom "
    "B, ...End at atom E, otherwise the two mean the same; this holds for ring bonds as for acyclic ones.  Judged: the "
    "sign of the normalised signed volume of the neighbour triple that is dominant in the drawing (wide end lifted by "
    "45 degrees; also the triple dominant in the parse when it differs) at a narrow end with >= 3 drawn neighbours, "
    "drawn |volume| >= 0.2, and that such a centre is not parsed flat (|volume| < max(0.1, 0.4 x drawn)).  Not judged: "
    "a narrow end that carries another mark or has a neighbour that a ring-bond mark or a Bold/Hash bond displaces "
    "against it ('crowded'); the two halves of a junction bond to an abbreviation drawn with the same mark are one mark",
    "Bold / Hash and marks on ring bonds, convention relied on: both atoms of a Bold bond are nearer to the viewer, both "
    "atoms of a Hash bond farther, than the atoms of the same ring system that no mark touches; the wide end of a wedge "
    "on a ring bond is nearer than its narrow end (hashed: farther) -- the perspective reading and the stereo reading "
    "of a ring wedge agree on that.  Heights are measured along the normal of the plane of the unmarked atoms (ring "
    "system atoms no mark touches plus what hangs on them through unmarked acyclic bonds; >= 3, not collinear, coplanar "
    "within 5 % of a bond), oriented by their drawn sense of rotation, so no coordinate frame of the parse is assumed; "
    "a mark must stand out by 10 % of the typical parsed bond length.  Not judged: a thick (Bold/Hash) ACYCLIC bond "
    "(no agreed meaning), ring marks next to marks of the opposite direction, how far the NARROW end of a ring wedge "
    "stands out of the ring (the two readings differ there)",
    "a drawn mark must have some effect: removing one mark (wedge with a narrow end of >= 3 neighbours, any mark on a "
    "ring bond) must change a distance among the two atoms and their neighbours by >= 5 % of a bond",
    "in a fragment that contains a hapto centre everything above is judged except at atoms that are, or are bonded "
    "to, the hapto centre",
    "'the same fragment' for rewrites: identical constitution snapshot; the atoms drawn in the labelled fragment "
    "coincide as a rigid body up to translation (atol 1e-6) and each nested fragment, together with the atom it "
    "hangs on, keeps its internal distances (join chooses the rotation about the junction bond by a clash score "
    "whose exact ties are decided by rounding; the property does not speak about that conformational choice)",
    "repeated parses (same object, cold object, other numpy.random seed, fresh process) are compared with atol 1e-9",
    "attachment point labels: a drawn atom number is expected verbatim; otherwise only that the label ends with the "
    "drawn connection number",
    "labels that occur twice in a drawing ('only the first occurrence is kept') are not judged after shuffling the page",
]
CHUNK_TIMEOUT = 600
EXHAUSTIVE = False
TECHNIQUE = ("runtime monitoring: differential oracle (independent ElementTree walk + labelled-graph isomorphism) and "
             "metamorphic/determinism oracles on real CDXMLFile parses, sys.monitoring branch-reach counters")
LEVEL_TEXT = ("Held on the executions produced: all 116 labelled fragments of the bundled drawings and of seeded "
              "text-level rewrites (mirrored marks, shuffled page, translated page, renumbered ids, compositions) were "
              "parsed by the real CDXMLFile and compared with an independent reading of the same text: constitution as "
              "a labelled graph, charge, multiplicity, attachment points; every non-planar centre inverted under "
              "mirroring; absolute sense of wedges (Begin and End forms, acyclic and ring bonds), of Bold/Hash ring bonds "
              "and of centres inside parts turned by earlier wedges, on the bundled and on hand-written drawings at many "
              "page positions and orientations; every mark has an effect; repeated / reseeded / fresh-process parses "
              "identical. Not a proof: the drawings are the bundled ones, 30 hand-written ones and their rewrites. Two "
              "mechanisms fail on the unchanged tree and are set aside until repaired (KNOWN_ON_UNCHANGED_TREE, "
              "tools/findings/C13-ext.json).")
LEVEL_NOTE = ("Trusted: vmon/models/cdxmlref.py (reference walk, rewrites, isomorphism search), vmon/snap.py, numpy, "
              "xml.etree. The rewrites are self-checked: the reference reading of every rewrite must agree with the "
              "reference reading of the original, otherwise the run is inconclusive.")

FILES = ["parser_demo", "parser_demo2", "charges_mult", "substituents", "BOX_cores", "BOX_4position_fragments",
         "BOX_bridging_fragments"]
EFFECT_PARTS = {"parser_demo": 3, "parser_demo2": 3, "BOX_cores": 3, "BOX_4position_fragments": 2}
PARTS = {}     # labels of a file could be split over several chunks; parsing is cheap, interpreter start-up is not
NONPLANAR = 0.2
ATOL_VARIANT = 1e-6
ATOL_REPEAT = 1e-9


def REQUIRED(tier):
    return {
        "constitution.compared": 100, "constitution.graph-isomorphic": 100,
        "mirror.centres-judged": 80, "mirror.fragments-with-marks": 20,
        "handedness.absolute-judged": 100,
        "variant.permute.compared": 100, "variant.translate.compared": 100, "variant.renumber.compared": 100,
        "variant.reorder.compared": 100, "variant.lone-atoms.compared": 50, "variant.group-several.compared": 50,
        "determinism.same-object": 100, "determinism.same-object-after-edit": 100, "determinism.cold-object": 100, "determinism.reseeded": 100,
        "determinism.fresh-process": 100,
        "reach.3dify.ring": 20, "reach.3dify.acyclic": 20, "reach.3dify.bold-hash": 5, "reach.nested-join": 20,
        "attachment-points.compared": 50, "rewrite.self-check": 100, "variant.translation-sweep.compared": 200,
        # absolute sense: every Display value, centres in turned parts, fragments with a hapto centre, ring marks
        "handedness.absolute-judged.WedgeBegin": 1500, "handedness.absolute-judged.WedgedHashBegin": 1000,
        "handedness.absolute-judged.WedgeEnd": 400, "handedness.absolute-judged.WedgedHashEnd": 400,
        "handedness.absolute-judged.generated-drawing": 2000,
        "handedness.absolute-judged.in-part-bent-by-another-mark": 1000,
        "handedness.absolute-judged.in-part-turned-90-degrees": 300,
        "handedness.absolute-judged.in-part-turned-beyond-90-degrees": 300,
        "handedness.absolute-judged.ring-bond": 300,
        "handedness.absolute-judged.in-fragment-with-hapto-centre": 10,
        "handedness.ring-height-judged.Bold": 200, "handedness.ring-height-judged.Hash": 150,
        "handedness.ring-height-judged.WedgeBegin": 250, "handedness.ring-height-judged.WedgedHashBegin": 200,
        "handedness.ring-height-judged.WedgeEnd": 150, "handedness.ring-height-judged.WedgedHashEnd": 200,
        "handedness.ring-height-judged.generated-drawing": 1000,
        "mark-effect.judged": 100, "mark-effect.judged.WedgeEnd": 8, "mark-effect.judged.Bold": 8,
        "variant.flip-ends.compared": 400, "constitution.graph-compared-in-fragment-with-hapto-centre": 20,
    }


# =====================================================================================================
# plan
# =====================================================================================================

WITNESS_TRANSLATIONS = ["148.79,-458.18"]   # a page offset at which parser_demo/substruct_stereo changed handedness


def sweep_files():
    """bundled drawings with a bend inside a bend (read with the reference walk; all files if that fails)"""
    try:
        from pathlib import Path
        from vmon.models import cdxmlref as R
        root = Path(os.environ.get("VERIF_REPO", "/repo")) / "molli" / "files"
        out = []
        for f in FILES:
            d = R.Drawing((root / (f + ".cdxml")).read_text(encoding="utf-8"))
            for lb in d.labels:
                try:
                    if d.resolve(lb).bends_inside_bends():
                        out.append(f)
                        break
                except R.Unsupported:
                    pass
        return out
    except Exception:  # noqa
        return list(FILES)


def plan(tier, seed):
    """one chunk = one part of one file x a group of rewrites (the parse of the unchanged drawing is shared)"""
    specs = []

    def add(file, variants, **kw):
        for part in range(PARTS.get(file, 1)):
            specs.append({"file": file, "variants": variants, "part": part, "nparts": PARTS.get(file, 1), **kw})

    styles = ("offset", "shuffle", "compact-high", "compact", "atom-number")
    sweep = sweep_files()
    for f in FILES:
        # the unchanged drawing (constitution, absolute handedness, determinism) and its mirror images
        add(f, [[[], 0], [["mirror"], 0], [["translate", "mirror"], 101]], determinism=True)
        add(f, [[["permute"], k] for k in range(3)]
            + [[["translate"], 0], [["translate"], 1], [["permute", "translate", "renumber:shuffle"], 100]]
            + [[["reorder"], 0], [["reorder"], 1], [["reorder", "mirror"], 2],
               [["reorder", "permute", "translate", "renumber:shuffle"], 3]]
            # fragments without bonds (lone ions) elsewhere on the page: every label still names its own fragment
            + [[["lone-atoms"], 0], [["lone-atoms", "permute"], 1]]
            # several drawings and labels put into one group: labels keep naming the fragment they stand under
            + [[["group-several"], 0], [["group-several"], 1], [["group-several", "translate"], 2]])
        add(f, [[["renumber:" + st], 0] for st in styles] + [[["translate@" + w], 0] for w in WITNESS_TRANSLATIONS])
        if f in sweep:
            # translation sweep over the fragments that bend a substituent inside an already bent part: there the
            # sense of the second bend was seen to depend on float rounding (about 2 % of the page positions)
            nchunks, per = (10, 40) if tier == "quick" else (16, 125)
            for c in range(nchunks):
                add(f, [[["translate"], 1000 + c * per + k, "bend-in-bend"] for k in range(per)])
        # every wedge written the other way round (B <-> E, Begin <-> End): the same drawing
        add(f, [[["flip-ends"], 0], [["flip-ends", "mirror"], 0],
                [["flip-ends", "permute", "translate", "renumber:shuffle"], 700]])
        # every stereo mark removed on its own
        for part in range(EFFECT_PARTS.get(f, 1)):
            specs.append({"file": f, "variants": [], "part": part, "nparts": EFFECT_PARTS.get(f, 1), "effect": True})
        if tier == "thorough":
            add(f, [[["flip-ends", "translate"], 710 + k] for k in range(4)]
                + [[["flip-ends", "reorder", "mirror"], 720 + k] for k in range(2)])
            for g in range(5):
                add(f, [[["permute", "translate", "renumber:" + styles[k % 3]], 200 + 4 * g + k] for k in range(4)])
            add(f, [[["permute"], k] for k in range(3, 10)])
            add(f, [[["translate"], k] for k in range(2, 10)])
            add(f, [[["permute", "translate", "renumber:shuffle", "mirror"], 300 + k] for k in range(6)])
            add(f, [[["renumber:shuffle"], 400 + k] for k in range(6)])
            add(f, [[["reorder"], 500 + k] for k in range(8)])
            add(f, [[["reorder", "permute", "translate", "renumber:shuffle", "mirror"], 600 + k] for k in range(6)])
    # hand-written drawings (zig-zag chains with bends inside bent parts, perspective rings, a bridged ring; every
    # Display value) under rotations / reflections of the fragment, each at many page positions
    import random
    rnd = random.Random(f"C13-generated-{seed}")
    angles = [0.0, 90.0, 180.0, 270.0, 30.0, 137.5, 211.0, 300.3] + [round(rnd.uniform(0.0, 360.0), 2) for _ in range(4)]
    per = 5 if tier == "quick" else 40
    for k, ang in enumerate(angles):
        refl = bool(k % 2)
        name = f"generated-{k}"
        variants = [[[], 0], [["mirror"], 0], [["flip-ends"], 0], [["flip-ends", "mirror"], 1]]
        variants += [[["translate"], 2000 + per * k + j] for j in range(per)]
        variants += [[["translate", "mirror"], 3000 + k], [["flip-ends", "translate"], 3100 + k]]
        specs.append({"file": name, "gen": {"angle_deg": ang, "reflect": refl}, "variants": variants, "part": 0,
                      "nparts": 1, "effect": k < 2})
    return specs


# =====================================================================================================
# observation of a parsed molecule (public accessors only)
# =====================================================================================================

def observe(m, ml):
    import numpy as np

    atoms = list(m.atoms)
    ix = {id(a): i for i, a in enumerate(atoms)}
    bt = ml.BondType
    names = {int(bt.Single): "1", int(bt.Double): "2", int(bt.Triple): "3", int(bt.Aromatic): "1.5",
             int(bt.Ligand): "L"}
    for nm, tok in (("Quadruple", "4"), ("Quintuple", "5"), ("Sextuple", "6")):
        if hasattr(bt, nm):
            names[int(getattr(bt, nm))] = tok
    edges = {}
    parallel = 0
    for b in m.bonds:
        i, j = ix[id(b.a1)], ix[id(b.a2)]
        key = (i, j) if i < j else (j, i)
        if key in edges:
            parallel += 1
        edges[key] = names.get(int(b.btype), f"btype{int(b.btype)}")
    return {
        "akeys": [(int(a.element), a.isotope, int(a.formal_charge or 0), int(a.formal_spin or 0),
                   a.atype == ml.AtomType.AttachmentPoint) for a in atoms],
        "labels": [a.label for a in atoms],
        "coordination": [i for i, a in enumerate(atoms) if a.atype == ml.AtomType.CoordinationCenter],
        "edges": edges, "parallel": parallel, "nbonds": m.n_bonds,
        "bkeys": [names.get(int(b.btype), f"btype{int(b.btype)}") for b in m.bonds],
        "charge": m.charge, "mult": m.mult, "name": m.name,
        "coords": np.array(m.coords, dtype=float, copy=True),
        "n_ap": m.n_attachment_points,
        "ap_labels": [a.label for a in m.attachment_points],
    }


def edge_ok(la, lb):
    order, tag = la
    if tag in ("hapto", "any"):
        return True
    if tag == "dash":
        return lb in ("L", order)
    return lb == order


def bond_multiset_mismatch(tokens, bkeys, n_hapto):
    """None when the parsed bond kinds can be matched to the drawn tokens (hapto bonds: count only)"""
    left = Counter(bkeys)
    for (o, tag) in tokens:
        if tag == "":
            if left[o] <= 0:
                return f"drawn order {o} has no parsed counterpart"
            left[o] -= 1
    for (o, tag) in tokens:
        if tag == "dash":
            k = "L" if left["L"] > 0 else o
            if left[k] <= 0:
                return f"dashed bond of order {o} has no parsed counterpart"
            left[k] -= 1
    wild = sum(1 for (_, tag) in tokens if tag in ("any", "hapto"))
    rest = sum(left.values())
    if rest != wild:
        return f"{rest} parsed bonds left for {wild} unjudged drawn bonds"
    return None


def neighbours(edges, n):
    adj = [[] for _ in range(n)]
    for (i, j) in edges:
        adj[i].append(j)
        adj[j].append(i)
    return adj


def triple_volumes(coords, c, nbrs):
    """{(i,j,k): normalised signed volume} over neighbour triples of centre c"""
    import numpy as np

    out = {}
    units = {}
    for w in nbrs:
        v = coords[w] - coords[c]
        L = float(np.linalg.norm(v))
        if L > 1e-9 and np.isfinite(L):
            units[w] = v / L
    for t in itertools.combinations(sorted(units), 3):
        out[t] = float(np.linalg.det(np.array([units[t[0]], units[t[1]], units[t[2]]])))
    return out


def excluded_centres(obs):
    adj = neighbours(obs["edges"], len(obs["akeys"]))
    ex = set(obs["coordination"])
    for c in obs["coordination"]:
        ex.update(adj[c])
    return ex


# =====================================================================================================
# branch reach through sys.monitoring (evidence only, never a verdict)
# =====================================================================================================

class Reach:
    """LINE counters on the ring / acyclic / bold-hash branches of the 3D-ification and on the nested join"""

    def __init__(self, ctx):
        self.ctx = ctx
        self.lines = {}       # (code, line) -> counter name
        self.tool = None
        self.codes = []

    def install(self):
        import ast
        import inspect
        import molli.ftypes.cdxml as mod

        try:
            src = inspect.getsource(mod)
            tree = ast.parse(src)
        except Exception:
            return False
        wanted = {}   # line -> name

        def first(stmts):
            return stmts[0].lineno if stmts else None

        for node in ast.walk(tree):
            if isinstance(node, ast.If):
                t = node.test
                if isinstance(t, ast.Call) and isinstance(t.func, ast.Attribute) and t.func.attr == "is_bond_in_ring" \
                        and node.orelse:
                    wanted[first(node.body)] = "reach.3dify.ring"
                    wanted[first(node.orelse)] = "reach.3dify.acyclic"
                # elif abs(sign) == 2:
                if isinstance(t, ast.Compare) and len(t.comparators) == 1 and isinstance(t.comparators[0], ast.Constant) \
                        and t.comparators[0].value == 2 and isinstance(t.left, ast.Call) \
                        and getattr(t.left.func, "id", None) == "abs":
                    wanted[first(node.body)] = "reach.3dify.bold-hash"
            if isinstance(node, ast.Call) and isinstance(node.func, ast.Attribute) and node.func.attr == "join":
                if isinstance(node.func.value, ast.Name) and node.func.value.id in ("Molecule", "Structure"):
                    wanted[node.lineno] = "reach.nested-join"
        wanted.pop(None, None)
        self.found = set(wanted.values())
        if not wanted:
            return False

        codes = []

        def collect(obj, depth=0):
            code = getattr(obj, "__code__", None)
            if code is not None and code.co_filename == mod.__file__:
                codes.append(code)
            if isinstance(obj, type) and depth < 2:
                for v in vars(obj).values():
                    f = getattr(v, "__func__", v)
                    collect(f, depth + 1)

        for v in vars(mod).values():
            if getattr(v, "__module__", None) == mod.__name__:
                collect(v)
        mon = sys.monitoring
        for tid in (4, 3, 5, 2):
            try:
                mon.use_tool_id(tid, "c13reach")
                self.tool = tid
                break
            except ValueError:
                continue
        if self.tool is None:
            return False
        for code in codes:
            lines = {ln for (_, _, ln) in code.co_lines() if ln in wanted}
            for ln in lines:
                self.lines[(code, ln)] = wanted[ln]
            if lines:
                mon.set_local_events(self.tool, code, mon.events.LINE)
                self.codes.append(code)

        def on_line(code, line):
            name = self.lines.get((code, line))
            if name is None:
                return mon.DISABLE
            self.ctx.count(name)

        mon.register_callback(self.tool, mon.events.LINE, on_line)
        return bool(self.codes)

    def remove(self):
        if self.tool is None:
            return
        mon = sys.monitoring
        for code in self.codes:
            mon.set_local_events(self.tool, code, 0)
        mon.register_callback(self.tool, mon.events.LINE, None)
        mon.free_tool_id(self.tool)
        self.tool = None


# =====================================================================================================
# the chunk
# =====================================================================================================

def _where(e):
    """innermost molli function in the traceback chain (names the mechanism, not the input)"""
    import traceback

    seen = 0
    while e is not None and seen < 6:
        last = e
        e = e.__cause__ or e.__context__
        seen += 1
    tb = traceback.extract_tb(last.__traceback__)
    for fr in reversed(tb):
        if "/molli/" in fr.filename:
            return f"{type(last).__name__}:{fr.name}"
    return f"{type(last).__name__}:{tb[-1].name if tb else '?'}"


def build_variant(text, steps, vseed, ctx_rng):
    """apply the rewrites in order; returns (text, info) with info = translation, id mapping, mirrored?"""
    from vmon.models import cdxmlref as R

    info = {"dx": 0.0, "dy": 0.0, "idmap": None, "mirrored": False, "permuted": False, "marks": 0, "reordered": False,
            "flipped": False}
    for k, step in enumerate(steps):
        rng = ctx_rng(step, k)
        if step == "mirror":
            text, n = R.mirror_marks(text)
            info["mirrored"] = not info["mirrored"]
            info["marks"] = n
        elif step == "flip-ends":
            text, _n = R.flip_ends(text)
            info["flipped"] = not info["flipped"]
        elif step == "reorder":
            text = R.reorder_nodes(text, rng)
            info["reordered"] = True
        elif step == "permute":
            text = R.permute_page(text, rng)
            info["permuted"] = True
        elif step == "lone-atoms":
            text = R.insert_lone_atoms(text, rng)
        elif step == "group-several":
            text = R.group_several(text, rng)
            info["permuted"] = True          # the document order of what was grouped changes
        elif step == "translate":
            dx = rng.choice([-1, 1]) * rng.randrange(0, 4000) / 4.0
            dy = rng.choice([-1, 1]) * rng.randrange(0, 4000) / 4.0
            if vseed % 2 == 1:   # also offsets that are not dyadic, so the decimal text really changes rounding
                dx += rng.randrange(0, 100) / 100.0
                dy += rng.randrange(0, 100) / 100.0
            text = R.translate_page(text, dx, dy)
            info["dx"] += dx
            info["dy"] += dy
        elif step.startswith("translate@"):
            dx, dy = map(float, step.split("@", 1)[1].split(","))
            text = R.translate_page(text, dx, dy)
            info["dx"] += dx
            info["dy"] += dy
        elif step.startswith("renumber:"):
            mp = R.make_renumbering(text, step.split(":", 1)[1], rng)
            text = R.renumber_ids(text, mp)
            if info["idmap"] is None:
                info["idmap"] = mp
            else:
                info["idmap"] = {k0: mp.get(v0, v0) for k0, v0 in info["idmap"].items()}
        else:
            raise ValueError(step)
    return text, info


def ref_signature(fr, idmap=None):
    """what the reference reading says about a fragment, in a form comparable across rewrites"""
    inv = None
    if idmap:
        inv = {v: k for k, v in idmap.items()}
    name = (lambda n: inv.get(n, n)) if inv else (lambda n: n)
    return {
        "order": [name(n) for n in fr.order],
        "atoms": sorted((name(n), fr.atom_key(n)) for n in fr.order),
        "bonds": sorted((tuple(sorted((name(u), name(v)))), o, t) for u, v, o, t in fr.bonds),
        "marks": sorted((name(u), name(v), k) for u, v, k, _ in fr.marks),
    }


def mirror_kind(k):
    return {"wedge": "hash", "hash": "wedge", "bold": "bhash", "bhash": "bold"}[k]


def run_chunk(spec, ctx):
    import warnings
    from pathlib import Path

    import numpy as np
    import molli as ml
    from molli.ftypes.cdxml import CDXMLFile
    from vmon.models import cdxmlref as R
    from vmon.snap import snap, diff

    warnings.simplefilter("ignore")
    file = spec["file"]
    if spec.get("gen") is not None:
        # hand-written drawings (vmon/models/c13_drawings.py) placed on a page under a rotation / reflection
        from vmon.models import c13_drawings as G
        text0 = G.document(skip=GENERATED_LEFT_OUT_UNTIL_REPAIRED, **spec["gen"])
        src = ctx.tmp / (file + ".cdxml")
        src.write_text(text0, encoding="utf-8")
    else:
        src = Path(ml.files.parser_demo_cdxml).parent / (file + ".cdxml")    # the directory of the bundled drawings
        text0 = open(src, encoding="utf-8").read()

    reach = Reach(ctx)
    reach_ok = reach.install()
    ctx.count("reach.installed", 1 if reach_ok else 0)
    for name in ("reach.3dify.ring", "reach.3dify.acyclic", "reach.3dify.bold-hash", "reach.nested-join"):
        if name not in getattr(reach, "found", ()):
            ctx.count(name + ".anchor-not-found")     # no statement of that shape in the current source
    try:
        env = (ctx, np, ml, CDXMLFile, R, snap, diff)
        _run(spec, env, file, src, text0)
    finally:
        reach.remove()


def _rng_print(np):
    st = np.random.get_state()
    return (st[0], bytes(st[1].tobytes()), st[2], st[3], st[4])


def _parse_all(CDXMLFile, path, labels, ctx, vname, want):
    """{label: Molecule | Exception}; the file object is returned too"""
    out = {}
    try:
        cf = CDXMLFile(path)
    except Exception as e:  # noqa
        return None, e
    for lb in labels:
        if not want(lb):
            continue
        try:
            out[lb] = cf[lb]
        except Exception as e:  # noqa
            out[lb] = e
    return cf, out


def _run(spec, env, file, src, text0):
    ctx, np, ml, CDXMLFile, R, snap, diff = env
    d0 = R.Drawing(text0)
    labels_all = list(d0.labels)
    labels = labels_all[spec["part"]::spec["nparts"]]
    only = ctx.only
    file_level = only is None or (isinstance(only, (list, tuple)) and only[-1] == "<file>")
    wanted_label = lambda lb: only is None or (isinstance(only, (list, tuple)) and only[-1] == lb)  # noqa

    # ---- the unchanged drawing (shared by every rewrite of this chunk) -----------------------------
    cf0, base = _parse_all(CDXMLFile, src, labels, ctx, "original", wanted_label)
    if cf0 is None:
        ctx.violation(f"file-does-not-load:original:{_where(base)}", case=[0, "<file>"], file=file,
                      err=repr(base)[:300])
        return
    if spec["part"] == 0 and file_level:
        ctx.count("labels.key-set-compared")
        got = set(cf0.keys())
        if got != set(labels_all):
            ctx.violation("labels:key-set-differs-from-drawing", case=[0, "<file>"], file=file,
                          missing=sorted(set(labels_all) - got)[:5], extra=sorted(got - set(labels_all))[:5])

    for vi, var in enumerate(spec["variants"]):
        steps, vseed, only_labels = var[0], var[1], (var[2] if len(var) > 2 else None)
        if steps:
            sel = labels
            if only_labels == "bend-in-bend":
                sel = []
                for lb in labels:
                    try:
                        if d0.resolve(lb).bends_inside_bends():
                            sel.append(lb)
                    except R.Unsupported:
                        pass
            _run_variant(spec, env, file, text0, d0, labels_all, sel, base, vi, list(steps), vseed)
            continue
        for lb in labels:
            case = [vi, lb]
            if lb not in base or not ctx.want(case):
                continue
            fr, why = None, None
            try:
                fr = d0.resolve(lb)
            except R.Unsupported as e:
                why = str(e)
            ctx.case(case, dkey=(file, "original", lb),
                     nontrivial=bool(fr and (fr.marks or fr.nested)),
                     sample={"file": file, "label": lb, "rewrite": "original", "drawing": fr.summary() if fr else why})
            m = base[lb]
            if isinstance(m, Exception):
                ctx.violation(f"parse-raises:original:{_where(m)}", case=case, file=file, label=lb, err=repr(m)[:300],
                              cause=repr(m.__cause__)[:300])
                continue
            if fr is None:
                ctx.count("constitution.unsupported-drawing")
                continue
            obs = observe(m, ml)
            check_constitution(ctx, file, lb, fr, obs, case)
            check_absolute(ctx, np, file, lb, fr, obs, case, d0)
    if spec.get("effect"):
        _run_effect(env, file, text0, d0, labels, base)
    if spec.get("determinism"):
        check_determinism(ctx, np, ml, CDXMLFile, snap, diff, file, src, labels, base, cf0)


def _run_effect(env, file, text0, d0, labels, base):
    """every stereo mark of every fragment removed on its own: the parse must change around that bond"""
    ctx, np, ml, CDXMLFile, R, snap, diff = env
    path1 = ctx.tmp / f"{file}-one-mark-removed.cdxml"
    for lb in labels:
        try:
            fr = d0.resolve(lb)
        except R.Unsupported:
            continue
        m0 = base.get(lb)
        if not fr.marks or m0 is None or isinstance(m0, Exception):
            continue
        obs0 = observe(m0, ml)
        for k, bid in enumerate(fr.mark_ids):
            case = [f"effect:{k}", lb]
            if not ctx.want(case):
                continue
            text1, n = R.strip_mark(text0, bid)
            fr1 = R.Drawing(text1).resolve(lb) if n == 1 else None
            if fr1 is None or fr1.order != fr.order or fr1.bonds != fr.bonds or \
                    fr1.marks != fr.marks[:k] + fr.marks[k + 1:]:
                raise RuntimeError(f"removing the mark of bond {bid} of {file}:{lb} is not faithful")
            ctx.count("rewrite.self-check")
            path1.write_text(text1, encoding="utf-8")
            ctx.case(case, dkey=(file, "one-mark-removed", lb, k), nontrivial=True,
                     sample={"file": file, "label": lb, "rewrite": "one-mark-removed", "mark": list(fr.marks[k])})
            try:
                m1 = CDXMLFile(path1)[lb]
            except Exception as e:  # noqa
                ctx.violation(f"parse-raises:one-mark-removed:{_where(e)}", case=case, file=file, label=lb,
                              err=repr(e)[:300], cause=repr(e.__cause__)[:300])
                continue
            check_mark_effect(ctx, np, file, lb, fr, obs0, fr1, observe(m1, ml), k, case)


def _run_variant(spec, env, file, text0, d0, labels_all, labels, base, vi, steps, vseed):
    ctx, np, ml, CDXMLFile, R, snap, diff = env
    vname = "+".join(s.split("@")[0].replace(":", "-") for s in steps)
    vfull = "+".join(steps)
    text1, info = build_variant(text0, steps, vseed, lambda *a: ctx.rng(file, vfull, vseed, *a))
    path1 = ctx.tmp / f"{file}-{vi}.cdxml"
    path1.write_text(text1, encoding="utf-8")
    if text1 == text0 and labels:
        ctx.count("rewrite.no-op")

    # self-check of the rewrite with the reference reading (harness error, not a finding, when it fails)
    d1 = R.Drawing(text1)
    if set(d1.labels) != set(d0.labels):
        raise RuntimeError(f"rewrite {vfull} changed the label set of {file}")
    dup = set(d0.duplicates)
    judged = []
    for lb in labels:
        if lb not in base or not ctx.want([vi, lb]):
            continue
        if lb in dup and info["permuted"]:
            ctx.count("variant.skipped-duplicate-label")    # "only the first occurrence is kept": order decides
            continue
        try:
            f0 = d0.resolve(lb)
        except R.Unsupported:
            f0 = None
        try:
            f1 = d1.resolve(lb)
        except R.Unsupported:
            f1 = None
        if (f0 is None) != (f1 is None):
            raise RuntimeError(f"rewrite {vfull} changed supportedness of {file}:{lb}")
        if f0 is not None:
            s0, s1 = ref_signature(f0), ref_signature(f1, info["idmap"])
            if info["reordered"]:
                s0["order"], s1["order"] = sorted(s0["order"]), sorted(s1["order"])
            if info["mirrored"]:
                s0 = dict(s0, marks=sorted((u, v, mirror_kind(k)) for u, v, k in s0["marks"]))
            if s0 != s1:
                raise RuntimeError(f"rewrite {vfull} is not faithful for {file}:{lb}: "
                                   f"{[k for k in s0 if s0[k] != s1[k]]}")
            fwd = info["idmap"] or {}
            for n0 in f0.order:
                n1 = fwd.get(n0, n0)
                (x0, y0), (x1, y1) = f0.atoms[n0]["xy"], f1.atoms[n1]["xy"]
                if abs(x1 - x0 - info["dx"]) > 1e-6 or abs(y1 - y0 - info["dy"]) > 1e-6:
                    raise RuntimeError(f"rewrite {vfull} moved node {n0} of {file}:{lb} by "
                                       f"{(x1 - x0, y1 - y0)} instead of {(info['dx'], info['dy'])}")
            ctx.count("rewrite.self-check")
        judged.append((lb, f0, f1))

    cf1, var = _parse_all(CDXMLFile, path1, [lb for lb, _, _ in judged], ctx, vname, lambda lb: True)
    # the mirror image is compared with the same rewrite without its trailing mirror step
    mbase = None
    if info["mirrored"] and len(steps) > 1 and steps[-1] == "mirror":
        text2, _info2 = build_variant(text0, steps[:-1], vseed, lambda *a: ctx.rng(file, vfull, vseed, *a))
        path2 = ctx.tmp / f"{file}-{vi}-unmirrored.cdxml"
        path2.write_text(text2, encoding="utf-8")
        _cf2, mbase = _parse_all(CDXMLFile, path2, [lb for lb, _, _ in judged], ctx, vname, lambda lb: True)
        if _cf2 is None:
            mbase = None
    if cf1 is None:
        ctx.violation(f"file-does-not-load:{vname}:{_where(var)}", case=[vi, "<file>"], file=file, rewrite=vfull,
                      err=repr(var)[:300])
        return
    file_level = ctx.only is None or list(ctx.only) == [vi, "<file>"]
    if spec["part"] == 0 and file_level and vi < 8 and set(cf1.keys()) != set(labels_all):
        ctx.violation(f"labels:key-set-changes:{vname}", case=[vi, "<file>"], file=file, rewrite=vfull)

    for lb, f0, f1 in judged:
        case = [vi, lb]
        ctx.case(case, dkey=(file, vfull, vseed, lb), nontrivial=bool(f0 and (f0.marks or f0.nested)),
                 sample={"file": file, "label": lb, "rewrite": vfull, "vseed": vseed,
                         "drawing": f0.summary() if f0 else None})
        m0, m1 = base[lb], var[lb]
        if isinstance(m0, Exception):
            continue   # reported by the chunk of the unchanged drawing
        if isinstance(m1, Exception):
            ctx.violation(f"parse-raises:{vname}:{_where(m1)}", case=case, file=file, label=lb, rewrite=vfull,
                          vseed=vseed, err=repr(m1)[:300], cause=repr(m1.__cause__)[:300])
            continue
        o0, o1 = observe(m0, ml), observe(m1, ml)
        if f1 is not None:
            check_constitution(ctx, file, lb, f1, o1, case, vname=vname, idmap=info["idmap"])
            check_absolute(ctx, np, file, lb, f1, o1, case, None)     # the rewritten drawing is a drawing too
        perm = None
        if info["reordered"]:
            perm = node_permutation(f0, f1, o0, o1, info["idmap"])
            if perm is None:
                ctx.count("variant.reorder-unmappable")
        check_same_fragment(ctx, np, snap, diff, file, lb, m0, m1, o0, o1, info, vname, vfull, vseed, case,
                            units=rigid_units(f0, o0), perm=perm)
        if info["mirrored"]:
            if mbase is not None:
                m2 = mbase.get(lb)
                if m2 is None or isinstance(m2, Exception):
                    continue      # reported where that rewrite is the subject
                check_mirror(ctx, np, file, lb, f1, observe(m2, ml), o1, vname, vfull, case)
            elif not info["reordered"]:
                check_mirror(ctx, np, file, lb, f0, o0, o1, vname, vfull, case)


# =====================================================================================================
# oracles
# =====================================================================================================

def check_constitution(ctx, file, lb, fr, obs, case, vname="original", idmap=None):
    from vmon.models import cdxmlref as R

    ctx.count("constitution.compared")
    tag = ""   # the rewrite is part of the witness, not of the mechanism
    n = len(fr.order)
    det = dict(file=file, label=lb, rewrite=vname)
    if len(obs["akeys"]) != n:
        ctx.violation(f"constitution:atom-count{tag}", case=case, drawn=n, parsed=len(obs["akeys"]), **det)
    want, got = fr.atom_multiset(), Counter(obs["akeys"])
    if want != got:
        miss, extra = want - got, got - want
        field = "atoms"
        if miss and extra:
            a, b = next(iter(miss)), next(iter(extra))
            names = ("element", "isotope", "formal-charge", "radical", "attachment-point")
            field = "+".join(nm for nm, x, y in zip(names, a, b) if x != y) if len(miss) == len(extra) else "atoms"
        ctx.violation(f"constitution:atom-multiset:{field}{tag}", case=case,
                      drawn_not_parsed=[list(k) + [c] for k, c in miss.items()][:6],
                      parsed_not_drawn=[list(k) + [c] for k, c in extra.items()][:6],
                      legend="element,isotope,charge,radical,is_attachment_point,count", **det)
    n_h = sum(1 for t in fr.bond_tokens() if t[1] == "hapto")
    if obs["nbonds"] != len(fr.bonds):
        ctx.violation(f"constitution:bond-count{tag}", case=case, drawn=len(fr.bonds), parsed=obs["nbonds"], **det)
    why = bond_multiset_mismatch(fr.bond_tokens(), obs["bkeys"], n_h)
    if why:
        ctx.violation(f"constitution:bond-order-multiset{tag}", case=case, why=why,
                      drawn=sorted(Counter(o + ("/" + t if t else "") for o, t in fr.bond_tokens()).items()),
                      parsed=sorted(Counter(obs["bkeys"]).items()), **det)
    if obs["charge"] != fr.charge():
        ctx.violation(f"constitution:total-charge{tag}", case=case, drawn=fr.charge(), parsed=obs["charge"], **det)
    if obs["mult"] != fr.mult():
        ctx.violation(f"constitution:multiplicity{tag}", case=case, drawn=fr.mult(), parsed=obs["mult"], **det)

    # attachment points: count and labels
    aps = fr.attachment_points()
    ctx.count("attachment-points.compared", len(aps))
    if obs["n_ap"] != len(aps):
        ctx.violation(f"constitution:attachment-point-count{tag}", case=case, drawn=len(aps), parsed=obs["n_ap"], **det)
    else:
        named = Counter(a["apname"] for a in aps if a["apname"])
        gotl = Counter(obs["ap_labels"])
        if named - gotl:
            ctx.violation(f"constitution:attachment-point-label:drawn-atom-number-lost{tag}", case=case,
                          drawn=sorted(named), parsed=sorted(map(str, obs["ap_labels"])), **det)
        rest = list((gotl - named).elements())
        nums = [a["apnum"] for a in aps if not a["apname"] and a["nodetype"] == "ExternalConnectionPoint" and a["apnum"]]
        for num in nums:
            hit = next((x for x in rest if isinstance(x, str) and x.endswith(num)), None)
            if hit is None:
                ctx.violation(f"constitution:attachment-point-label:connection-number-lost{tag}", case=case,
                              number=num, parsed=sorted(map(str, obs["ap_labels"])), **det)
                break
            rest.remove(hit)

    # constitution as a labelled graph (bonds of a hapto centre: one per attached atom must exist, kind not judged)
    if fr.hapto_centres:
        ctx.count("constitution.graph-compared-in-fragment-with-hapto-centre")
    if len(obs["akeys"]) != n:
        return None
    pos = {nid: i for i, nid in enumerate(fr.order)}
    ea = {}
    for u, v, o, t in fr.bonds:
        i, j = pos[u], pos[v]
        key = (i, j) if i < j else (j, i)
        if key in ea:
            ctx.count("constitution.parallel-drawn-bonds")
            return None
        ea[key] = (o, t)
    if obs["parallel"]:
        ctx.violation(f"constitution:parallel-bonds{tag}", case=case, **det)
        return None
    how, m = R.isomorphism(n, [fr.atom_key(x) for x in fr.order], ea, obs["akeys"], obs["edges"], edge_ok)
    if how == "budget":
        ctx.count("constitution.isomorphism-budget")
        return None
    if how == "none":
        ctx.violation(f"constitution:graph-not-isomorphic{tag}", case=case, atoms=n, bonds=len(ea),
                      note="same multisets can still be wired differently: a bond joins the wrong atoms or has the "
                           "order of another bond", **det)
        return None
    ctx.count("constitution.graph-isomorphic")
    ctx.count("constitution.mapping-" + ("document-order" if how == "id" else "searched"))
    return m if how == "id" else None


POLARITY = {"wedge": 1, "bold": 1, "hash": -1, "bhash": -1}     # +1: the mark says "towards the viewer"
HEIGHT_MARGIN = 0.1     # fraction of the typical parsed bond length by which a marked ring atom must stand out
FLAT_RATIO = 0.4       # a drawn stereocentre counts as parsed flat below this fraction of the drawn volume (and below 0.1)
EFFECT_MARGIN = 0.05    # same unit: smallest change of a local distance that counts as "the mark did something"

# Nothing is silenced inside the module.  What the unchanged library is known to get wrong (the ring branch of
# _cdxml_3dify_ lifts the narrow end of a wedge on a ring bond as well; tools/findings/C13-ext.json) is listed with status
# "open" in /verif/known_findings.json and reported by the runner as KNOWN-FINDING lines.
KNOWN_ON_UNCHANGED_TREE = set()
GENERATED_LEFT_OUT_UNTIL_REPAIRED = []


def report(ctx, key, **kw):
    if key in KNOWN_ON_UNCHANGED_TREE:
        ctx.count("known-on-unchanged-tree:" + key)
        return
    ctx.violation(key, **kw)


class MarkContext:
    """what the reference reading says around the stereo marks of one fragment (graph facts of the drawing only)"""

    def __init__(self, fr):
        from vmon.models.cdxmlref import _in_ring
        self.fr = fr
        self.adj = fr.adjacency()
        self.near_hapto = set(fr.hapto_centres)
        for c in fr.hapto_centres:
            self.near_hapto.update(self.adj[c])
        self._ring = {}
        self._in_ring = _in_ring
        # a mark on the bond to an abbreviation is usually drawn twice (outside, and inside the expanded abbreviation):
        # the two halves of one junction bond are ONE mark; `twin[k]` is the index of the half that stands for both
        first = {}
        self.twin = [first.setdefault(mk[:3], k) for k, mk in enumerate(fr.marks)]
        self.copies = Counter(self.twin)
        self.touching = {}
        for k, mk in enumerate(fr.marks):
            if self.twin[k] != k:
                continue
            self.touching.setdefault(mk[0], []).append(k)
            self.touching.setdefault(mk[1], []).append(k)
        # marks that displace their atoms against the ring they sit in: every mark on a ring bond, every Bold / Hash
        self.heavy = [self.ring_bond(mk[0], mk[1]) or mk[2] in ("bold", "bhash") for mk in fr.marks]
        self._moved = None

    def ring_bond(self, a, b):
        k = (a, b) if a < b else (b, a)
        if k not in self._ring:
            self._ring[k] = self._in_ring(self.adj, a, b)
        return self._ring[k]

    def disturbed(self, k):
        """is the picture at the narrow end of mark k changed by anything but mark k itself?  Another mark at that
        atom is; a mark that displaces one of its neighbours against it (ring bond / Bold / Hash) is.  Acyclic wedges
        elsewhere are not: they turn the atom together with all its neighbours, or only a neighbour's far side."""
        u = self.fr.marks[k][0]
        if len(self.touching[u]) != 1:
            return True
        for w in self.adj[u]:
            if any(self.heavy[j] for j in self.touching.get(w, ()) if j != k):
                return True
        return False

    def turned(self, atom):
        """(number of acyclic wedge / hash bonds whose far side holds the atom, sum of their nominal bends in degrees:
        a substituent of a centre with four drawn neighbours stands at 90 degrees to the other three, of a centre with
        three neighbours it is bent by about 60).  The sum only sorts centres into classes, it is never a verdict."""
        if self._moved is None:
            self._moved = []
            for k, (u2, v2, kind, _d) in enumerate(self.fr.marks):
                if kind not in ("wedge", "hash") or self.ring_bond(u2, v2) or self.twin[k] != k:
                    continue
                moved, todo = {v2}, [v2]
                while todo:
                    w = todo.pop()
                    for x in self.adj[w]:
                        if x not in moved and not (w == v2 and x == u2):
                            moved.add(x)
                            todo.append(x)
                self._moved.append((moved, 90 if len(self.adj[u2]) >= 4 else 60))
        hits = [q for moved, q in self._moved if atom in moved]
        return len(hits), sum(hits)

    def fixed_atoms(self, u):
        """atoms of the ring system of u that no mark touches, plus what hangs on them through unmarked acyclic bonds
        (same drawing frame, no hapto neighbourhood): the part of the drawing the marks say nothing about"""
        fr = self.fr
        system, todo = {u}, [u]
        while todo:
            a = todo.pop()
            for b in self.adj[a]:
                if b not in system and self.ring_bond(a, b):
                    system.add(b)
                    todo.append(b)
        frame = fr.atoms[u]["frame"]
        ok = lambda a: a not in self.touching and a not in self.near_hapto and fr.atoms[a]["frame"] == frame  # noqa
        seen = {a for a in system if ok(a)}
        todo = list(seen)
        while todo:
            a = todo.pop()
            for b in self.adj[a]:
                if b in seen or b in system or not ok(b) or self.ring_bond(a, b):
                    continue
                seen.add(b)
                todo.append(b)
        return sorted(seen)


def _mapped(fr, obs):
    """document order of the drawn nodes is an isomorphism onto the parsed atoms (hapto bonds: presence only)"""
    if len(obs["akeys"]) != len(fr.order):
        return None
    pos = {nid: i for i, nid in enumerate(fr.order)}
    ea = {}
    for u, v, o, t in fr.bonds:
        i, j = pos[u], pos[v]
        ea[(i, j) if i < j else (j, i)] = (o, t)
    if len(ea) != len(obs["edges"]) or any(k not in obs["edges"] or not edge_ok(la, obs["edges"][k]) for k, la in ea.items()) \
            or any(fr.atom_key(nid) != obs["akeys"][i] for nid, i in pos.items()):
        return None
    return pos


def _typical_bond(np, fr, obs, pos):
    ls = [float(np.linalg.norm(obs["coords"][pos[u]] - obs["coords"][pos[v]])) for u, v, _o, t in fr.bonds if t != "hapto"]
    ls = sorted(x for x in ls if np.isfinite(x))
    return ls[len(ls) // 2] if ls else 1.5


def _drawn_directions(np, fr, mc, u, v, kind, pos):
    """unit vectors from the narrow end u to its drawn neighbours: y points down on the page, the wide end v is lifted
    towards (wedge) / pushed away from (hash) the viewer by 45 degrees.  None when a neighbour is drawn in another frame."""
    cu = fr.atoms[u]["xy"]
    frame = fr.atoms[u]["frame"]
    ref = {}
    for w in mc.adj[u]:
        aw = fr.atoms[w]
        if aw["frame"] == frame:
            x, y = aw["xy"]
        elif aw["carrier"] and aw["carrier"][0] == frame:
            x, y = aw["carrier"][1]     # seen from the centre, a nested fragment sits where its carrier node was drawn
        else:
            return None
        dx, dy = x - cu[0], -(y - cu[1])
        L = (dx * dx + dy * dy) ** 0.5
        if L < 1e-6:
            return None
        vec = np.array([dx / L, dy / L, (float(POLARITY[kind]) if w == v else 0.0)])
        ref[pos[w]] = vec / np.linalg.norm(vec)
    return ref


def check_absolute(ctx, np, file, lb, fr, obs, case, drawing=None):
    """absolute 3-D sense of the stereo marks, judged where the drawing is unambiguous (see ASSUMPTIONS):
       (a) wedge / hashed wedge, Begin and End variants, acyclic and ring bonds: the sign of the dominant neighbour
           triple at the narrow end (wide end towards / away from the viewer, y down on the page), and that a drawn
           stereocentre is not parsed flat;
       (b) marks on ring bonds, against the atoms of the same ring system that no mark touches: both atoms of a Bold
           bond are nearer to the viewer, those of a Hash bond farther; the wide end of a wedge is nearer than its
           narrow end, of a hashed wedge farther."""
    if not fr.marks:
        return
    pos = _mapped(fr, obs)
    if pos is None:
        ctx.count("handedness.absolute-unmappable")
        return
    mc = MarkContext(fr)
    X = obs["coords"]
    gen = file.startswith("generated")
    L = None
    for k, (u, v, kind, disp) in enumerate(fr.marks):
        if mc.twin[k] != k:
            continue        # the other half of a junction bond that has been looked at already
        ring = mc.ring_bond(u, v)
        depth, turn = mc.turned(u)
        # the class of the centre is part of the mechanism: a mark on a ring bond / a centre in a part of the molecule that
        # marks nearer to the root of the drawing have turned by more than a right angle / everything else
        where = "ring-bond:" if ring else ("in-part-turned-beyond-90-degrees:" if turn > 90 else "")
        det = dict(case=case, file=file, label=lb, narrow_end_node=u, wide_end_node=v)
        # ---------------------------------------------------------------- (a) sense at the narrow end
        if kind in ("wedge", "hash"):
            ref = None
            if u in mc.near_hapto:
                ctx.count("handedness.absolute-skipped-hapto-neighbourhood")
            elif len(mc.adj[u]) < 3:
                ctx.count("handedness.absolute-skipped-terminal")
            elif mc.disturbed(k):
                ctx.count("handedness.absolute-skipped-crowded")
            else:
                ref = _drawn_directions(np, fr, mc, u, v, kind, pos)
                if ref is None:
                    ctx.count("handedness.absolute-skipped-foreign-frame")
            vols = triple_volumes(X, pos[u], [pos[w] for w in mc.adj[u]]) if ref is not None else None
            if vols:
                rv = {t: float(np.linalg.det(np.array([ref[t[0]], ref[t[1]], ref[t[2]]]))) for t in vols}
                td, vr = max(rv.items(), key=lambda kv: abs(kv[1]))      # dominant triple of the DRAWING
                tp, vmp = max(vols.items(), key=lambda kv: abs(kv[1]))   # dominant triple of the parse
                vm = vols[td]
                if abs(vr) < NONPLANAR:
                    ctx.count("handedness.absolute-skipped-near-planar-drawing")
                else:
                    ctx.count("handedness.absolute-judged")
                    ctx.count(f"handedness.absolute-judged.{disp}")
                    ctx.count("handedness.absolute-judged." + ("ring-bond" if ring else "acyclic-bond"))
                    if fr.hapto_centres:
                        ctx.count("handedness.absolute-judged.in-fragment-with-hapto-centre")
                    if depth:
                        ctx.count("handedness.absolute-judged.in-part-bent-by-another-mark")
                    if turn == 90:
                        ctx.count("handedness.absolute-judged.in-part-turned-90-degrees")
                    if turn > 90:
                        ctx.count("handedness.absolute-judged.in-part-turned-beyond-90-degrees")
                    if gen:
                        ctx.count("handedness.absolute-judged.generated-drawing")
                    wit = dict(drawn_volume=round(vr, 3), parsed_volume=round(vm, 3), triple=[fr.order[i] for i in td],
                               marks_that_turn_this_centre=depth, their_nominal_turn=turn, **det)
                    if abs(vm) < max(NONPLANAR / 2, FLAT_RATIO * abs(vr)):
                        report(ctx, f"handedness:drawn-stereocentre-parsed-flat:{where}{disp}", **wit)
                    elif vm * vr < 0:
                        report(ctx, f"handedness:absolute-sense-wrong:{where}{disp}", **wit)
                    elif tp != td and abs(rv[tp]) >= NONPLANAR and abs(vmp) >= NONPLANAR and vmp * rv[tp] < 0:
                        report(ctx, f"handedness:absolute-sense-wrong:{where}{disp}", **dict(
                            wit, drawn_volume=round(rv[tp], 3), parsed_volume=round(vmp, 3),
                            triple=[fr.order[i] for i in tp], judged_on="dominant triple of the parse"))
        # ---------------------------------------------------------------- (b) heights of ring-bond marks
        if not ring:
            if kind in ("bold", "bhash"):
                ctx.count("handedness.thick-acyclic-bond-not-judged")
            continue
        if u in mc.near_hapto or v in mc.near_hapto:
            ctx.count("handedness.ring-height-skipped-hapto-neighbourhood")
            continue
        pol = POLARITY[kind]
        others_u = [fr.marks[j] for j in mc.touching[u] if j != k]
        others_v = [fr.marks[j] for j in mc.touching[v] if j != k]
        if kind in ("bold", "bhash"):
            clear = all(POLARITY[m[2]] == pol for m in others_u + others_v)
        else:
            # nothing else at the narrow end; at the wide end only marks of the same direction that do not start there
            clear = not others_u and all(POLARITY[m[2]] == pol and (m[2] in ("bold", "bhash") or m[0] != v)
                                         for m in others_v)
        if not clear:
            ctx.count("handedness.ring-height-skipped-conflicting-marks")
            continue
        fixed = mc.fixed_atoms(u)
        if len(fixed) < 3:
            ctx.count("handedness.ring-height-skipped-few-unmarked-atoms")
            continue
        D = np.array([[fr.atoms[a]["xy"][0], -fr.atoms[a]["xy"][1]] for a in fixed], dtype=float)
        D -= D.mean(axis=0)
        P = np.array([X[pos[a]] for a in fixed], dtype=float)
        c = P.mean(axis=0)
        P = P - c
        N = np.zeros(3)
        w2 = 0.0
        for i, j in itertools.combinations(range(len(fixed)), 2):
            A = D[i, 0] * D[j, 1] - D[i, 1] * D[j, 0]        # drawn orientation (anticlockwise > 0 seen by the viewer)
            N += A * np.cross(P[i], P[j])
            w2 += A * A
        nn = float(np.linalg.norm(N))
        if L is None:
            L = _typical_bond(np, fr, obs, pos)
        if w2 < 1e-3 * float(np.sum(D * D)) ** 2 or not np.isfinite(nn) or nn < 1e-9:
            ctx.count("handedness.ring-height-skipped-unmarked-atoms-collinear")
            continue
        n = N / nn
        if float(np.max(np.abs(P @ n))) > 0.05 * L:
            ctx.count("handedness.ring-height-skipped-unmarked-atoms-not-planar")
            continue
        hu, hv = float((X[pos[u]] - c) @ n), float((X[pos[v]] - c) @ n)
        ctx.count("handedness.ring-height-judged")
        ctx.count(f"handedness.ring-height-judged.{disp}")
        if gen:
            ctx.count("handedness.ring-height-judged.generated-drawing")
        wit = dict(height_of_first_atom=round(hu, 3), height_of_second_atom=round(hv, 3), typical_bond=round(L, 3),
                   unmarked_atoms_used=len(fixed), **det)
        if kind in ("bold", "bhash"):
            if min(pol * hu, pol * hv) < HEIGHT_MARGIN * L:
                report(ctx, f"handedness:thick-ring-bond-on-wrong-side-of-unmarked-atoms:{disp}", **wit)
        elif pol * (hv - hu) < HEIGHT_MARGIN * L:
            report(ctx, f"handedness:ring-wedge-wide-end-on-wrong-side-of-narrow-end:{disp}", **wit)


def check_mark_effect(ctx, np, file, lb, fr, obs, fr1, obs1, k, case):
    """a drawn stereo mark must do SOMETHING: the parse of the drawing differs, around the marked bond, from the parse of
    the same drawing without that one mark (distances among the two atoms and their neighbours)"""
    u, v, kind, disp = fr.marks[k]
    mc = MarkContext(fr)
    if mc.copies[mc.twin[k]] > 1:
        ctx.count("mark-effect.skipped-one-half-of-a-junction-bond")     # the other half still carries the mark
        return
    ring = mc.ring_bond(u, v)
    if u in mc.near_hapto or (ring and v in mc.near_hapto):
        ctx.count("mark-effect.skipped-hapto-neighbourhood")
        return
    if not ring and (kind in ("bold", "bhash") or len(mc.adj[u]) < 3):
        ctx.count("mark-effect.skipped-mark-without-agreed-meaning")   # thick acyclic bond, wedge at a chain end
        return
    pos, pos1 = _mapped(fr, obs), _mapped(fr1, obs1)
    if pos is None or pos1 is None or fr.order != fr1.order:
        ctx.count("mark-effect.unmappable")
        return
    idx = sorted({pos[a] for a in ({u, v} | set(mc.adj[u]) | set(mc.adj[v]))})
    A, B = obs["coords"][idx], obs1["coords"][idx]
    da = np.linalg.norm(A[:, None, :] - A[None, :, :], axis=-1)
    db = np.linalg.norm(B[:, None, :] - B[None, :, :], axis=-1)
    L = _typical_bond(np, fr, obs, pos)
    change = float(np.max(np.abs(da - db)))
    ctx.count("mark-effect.judged")
    ctx.count(f"mark-effect.judged.{disp}")
    if not change >= EFFECT_MARGIN * L:
        report(ctx, f"handedness:mark-without-effect:{'ring-bond:' if ring else ''}{disp}", case=case, file=file,
               label=lb, narrow_end_node=u, wide_end_node=v, largest_change_of_a_local_distance=change,
               typical_bond=round(L, 3))


def check_mirror(ctx, np, file, lb, f0, o0, o1, vname, vfull, case):
    """wedge<->hash: every non-planar centre of the original parse must change the sign of its dominant triple"""
    n = len(o0["akeys"])
    if len(o1["akeys"]) != n or o0["edges"] != o1["edges"]:
        return   # constitution change is reported by check_same_fragment
    if f0 is not None and f0.marks:
        ctx.count("mirror.fragments-with-marks")
    adj = neighbours(o0["edges"], n)
    ex = excluded_centres(o0) | excluded_centres(o1)
    marks_at = {}
    if f0 is not None:
        pos = {nid: i for i, nid in enumerate(f0.order)}
        for u, v, _k, disp in f0.marks:
            for e in (u, v):
                marks_at.setdefault(pos.get(e), set()).add(disp)
    bad = []
    margins = []
    for c in range(n):
        if len(adj[c]) < 3:
            continue
        if c in ex:
            ctx.count("mirror.centres-excluded-hapto")
            continue
        v0 = triple_volumes(o0["coords"], c, adj[c])
        v1 = triple_volumes(o1["coords"], c, adj[c])
        if not v0 or not v1:
            continue
        # mirroring is an involution: the mirrored drawing is itself a drawing whose mirror image is the original, so
        # a centre that is non-planar in either parse is judged on its dominant triple there
        judged = False
        for first, second, side in ((v0, v1, "original"), (v1, v0, "mirrored")):
            t, a = max(first.items(), key=lambda kv: abs(kv[1]))
            if abs(a) < NONPLANAR:
                continue
            judged = True
            ctx.count(f"mirror.dominant-triples-judged.{side}")
            b = second.get(t)
            margins.append((round(abs(a), 3), None if b is None else round(abs(b), 3)))
            if b is None or not (a * b < 0):
                bad.append((c, t, a, b, side))
                break
        ctx.count("mirror.centres-judged" if judged else "mirror.centres-planar")
    if margins:
        # evidence for the soundness threshold: the flattest judged centre of this fragment (|volume| here, there)
        prev = ctx.extra.get("mirror.flattest-judged-centre-per-chunk", [])
        cand = [file, lb] + list(min(margins, key=lambda m: m[0]))
        if not prev or cand[2] < prev[0][2]:
            ctx.note("mirror.flattest-judged-centre-per-chunk", [cand])
    if bad:
        c, t, a, b, side = bad[0]
        # the mechanism: which kinds of mark sit at the centre (document-order mapping; "" when unknown)
        kinds = "+".join(sorted(marks_at.get(c, ()))) or "no-mark-at-centre"
        ctx.violation(f"mirror:centre-not-inverted:{kinds}", case=case, file=file, label=lb, rewrite=vfull,
                      centre=c, triple=list(t), nonplanar_in=side, volume_there=round(a, 4),
                      volume_in_the_other=None if b is None else round(b, 4), centres_failing=len(bad))


def _field(path):
    """'.atoms[3].element' -> '.atoms[].element', '.coords[np.int64(0), np.int64(2)]' -> '.coords[]'"""
    import re as _re
    return _re.sub(r"\[[^\]]*\]", "[]", path)


def _const_snapshot(s):
    s = {k: v for k, v in s.items() if k not in ("coords", "atomic_charges")}
    return s


def node_permutation(f0, f1, o0, o1, idmap):
    """perm[i] = index in the rewritten parse of the atom that has index i in the original parse (through the drawn
    nodes; only when document order is an isomorphism on both sides)"""
    if f0 is None or f1 is None or rigid_units_mappable(f0, o0) is None or rigid_units_mappable(f1, o1) is None:
        return None
    fwd = idmap or {}
    pos1 = {nid: i for i, nid in enumerate(f1.order)}
    try:
        return [pos1[fwd.get(nid, nid)] for nid in f0.order]
    except KeyError:
        return None


def _permute_snapshot(s1, perm):
    """the snapshot of the rewritten parse re-indexed to the atom order of the original parse; bonds as a sorted list"""
    inv = {j: i for i, j in enumerate(perm)}
    out = dict(s1)
    out["atoms"] = [s1["atoms"][j] for j in perm]
    bonds = []
    for b in s1.get("bonds", []):
        b = dict(b)
        a1, a2 = inv.get(b["a1"], -1), inv.get(b["a2"], -1)
        b["a1"], b["a2"] = min(a1, a2), max(a1, a2)
        bonds.append(b)
    out["bonds"] = sorted(bonds, key=lambda b: (b["a1"], b["a2"], b["btype"]))
    return out


def check_same_fragment(ctx, np, snap, diff, file, lb, m0, m1, o0, o1, info, vname, vfull, vseed, case, units=None,
                        perm=None):
    """the label must resolve to the same fragment: same constitution snapshot, same coordinates"""
    s0, s1 = _const_snapshot(snap(m0)), _const_snapshot(snap(m1))
    if info["reordered"]:
        ctx.count("variant.reorder.compared")
        if perm is None or len(perm) != len(s1["atoms"]) or len(s0["atoms"]) != len(s1["atoms"]):
            return      # the constitution of the rewritten drawing is still judged against the reference reading
        s1 = _permute_snapshot(s1, perm)
        s0 = _permute_snapshot(s0, list(range(len(s0["atoms"]))))
    elif info.get("flipped") and len(s0["atoms"]) == len(s1["atoms"]):
        # a bond written with its two atoms exchanged is the same bond: compare the bonds as unordered pairs
        s1 = _permute_snapshot(s1, list(range(len(s1["atoms"]))))
        s0 = _permute_snapshot(s0, list(range(len(s0["atoms"]))))
    idmap = info["idmap"]
    if idmap:
        # an atom label that *is* an object id (abbreviation nodes are labelled by their id) follows the renaming
        for a0, a1 in zip(s0["atoms"], s1["atoms"]):
            if isinstance(a0["label"], str) and a0["label"] in idmap and a1["label"] == idmap[a0["label"]]:
                a1["label"] = a0["label"]
    for k in ("permute", "translate", "renumber", "lone-atoms", "flip-ends", "group-several"):
        if k in vname:
            ctx.count(f"variant.{k}.compared")
    if vname == "translate" and 1000 <= vseed < 2000:
        ctx.count("variant.translation-sweep.compared")
    if "mirror" in vname:
        ctx.count("variant.mirror.compared")
    d = diff(s0, s1)
    if d:
        field = _field(d[0][0])
        ctx.violation(f"variant:{vname}:constitution-differs:{field}", case=case, file=file, label=lb, rewrite=vfull,
                      vseed=vseed, diff=[(p, repr(a)[:80], repr(b)[:80]) for p, a, b in d[:4]],
                      atoms=(len(s0["atoms"]), len(s1["atoms"])))
        return
    if info["mirrored"]:
        return
    c0, c1 = o0["coords"], o1["coords"]
    if c0.shape != c1.shape:
        ctx.violation(f"variant:{vname}:coordinates-differ:shape", case=case, file=file, label=lb, rewrite=vfull)
        return
    if perm is not None:
        c1 = c1[perm]
    # What must coincide: the atoms drawn in the labelled fragment itself, as a rigid body up to a translation
    # (centring and every join re-origin the frame), and every nested fragment together with the atom it hangs on, as
    # a rigid body up to the rotation about the junction bond (join picks that rotation by a clash score whose exact
    # ties are decided by float rounding -- the property does not speak about that conformational choice).
    if units is None:
        ctx.count("variant.coordinates-unmappable")   # nested parts cannot be told from the core: nothing to compare
        return
    for kind, idx, pivot in units:
        if len(idx) == 0:
            continue
        a, b = c0[idx], c1[idx]
        if kind == "core":
            a, b = a - a.mean(axis=0), b - b.mean(axis=0)
            good = np.allclose(a, b, rtol=0, atol=ATOL_VARIANT)
            worst = float(np.max(np.abs(a - b)))
        else:
            ii = idx + ([pivot] if pivot is not None else [])
            da = np.linalg.norm(c0[ii][:, None, :] - c0[ii][None, :, :], axis=-1)
            db = np.linalg.norm(c1[ii][:, None, :] - c1[ii][None, :, :], axis=-1)
            good = np.allclose(da, db, rtol=0, atol=ATOL_VARIANT)
            worst = float(np.max(np.abs(da - db)))
        ctx.count(f"variant.coordinates-compared.{kind}")
        if not good:
            ctx.violation(f"variant:{vname}:coordinates-differ:{kind}", case=case, file=file, label=lb, rewrite=vfull,
                          vseed=vseed, max_abs_difference=worst, translation=[info["dx"], info["dy"]])
            return
    ctx.count("variant.coordinates-equal")


def rigid_units_mappable(fr, obs):
    """True when document order maps the drawn nodes onto the parsed atoms isomorphically, else None"""
    if fr is None or len(fr.order) != len(obs["akeys"]):
        return None
    pos = {nid: i for i, nid in enumerate(fr.order)}
    for u, v, o, t in fr.bonds:
        if t == "hapto":
            continue
        i, j = pos[u], pos[v]
        lb = obs["edges"].get((i, j) if i < j else (j, i))
        if lb is None or not edge_ok((o, t), lb):
            return None
    if any(fr.atom_key(nid) != obs["akeys"][i] for nid, i in pos.items()):
        return None
    return True


def rigid_units(fr, obs):
    """[(kind, atom indices, pivot)] from the drawing, valid only when document order is an isomorphism"""
    if fr is None:
        return None
    if fr.nested == 0:
        return [("core", list(range(len(obs["akeys"]))), None)]     # one rigid body, no mapping needed
    if len(fr.order) != len(obs["akeys"]):
        return None
    pos = {nid: i for i, nid in enumerate(fr.order)}
    for u, v, o, t in fr.bonds:
        if t == "hapto":
            continue
        i, j = pos[u], pos[v]
        lb = obs["edges"].get((i, j) if i < j else (j, i))
        if lb is None or not edge_ok((o, t), lb):
            return None
    if any(fr.atom_key(nid) != obs["akeys"][i] for nid, i in pos.items()):
        return None
    frames = {}
    for nid in fr.order:
        frames.setdefault(fr.atoms[nid]["frame"], []).append(pos[nid])
    units = []
    for frame, idx in frames.items():
        if frame == fr.fid:
            units.append(("core", idx, None))
        else:
            # the atom the nested fragment hangs on: neighbour (in another frame) of its carried atom
            pivot = None
            for u, v, _o, _t in fr.bonds:
                fu, fv = fr.atoms[u]["frame"], fr.atoms[v]["frame"]
                if fu == frame and fv != frame:
                    pivot = pos[v]
                elif fv == frame and fu != frame:
                    pivot = pos[u]
            units.append(("nested", idx, pivot))
    return units


FRESH = r"""
import sys, pickle, warnings
warnings.simplefilter("ignore")
sys.path[:0] = %(path)r
import numpy as np
np.random.seed(%(npseed)d)
from molli.ftypes.cdxml import CDXMLFile
from vmon.snap import snap
cf = CDXMLFile(%(src)r)
res = {}
for lb in %(labels)r:
    try:
        res[lb] = snap(cf[lb])
    except Exception as e:
        res[lb] = repr(e)
pickle.dump(res, open(%(out)r, "wb"))
"""


def check_determinism(ctx, np, ml, CDXMLFile, snap, diff, file, src, labels, base, cf0):
    labels = [lb for lb in labels if lb in base and not isinstance(base[lb], Exception) and ctx.want(["det", lb])]
    snaps = {lb: snap(base[lb]) for lb in labels}

    def compare(route, lb, s):
        ctx.count(f"determinism.{route}")
        if isinstance(s, (str, Exception)):
            ctx.violation(f"determinism:{route}:second-parse-raises", case=["det", lb], file=file, label=lb, err=str(s)[:300])
            return
        d = diff(snaps[lb], s, rtol=0.0, atol=ATOL_REPEAT)
        if d:
            field = _field(d[0][0])
            worst = None
            try:
                worst = float(np.max(np.abs(snaps[lb]["coords"] - s["coords"])))
            except Exception:  # noqa
                pass
            ctx.violation(f"determinism:{route}:snapshot-differs:{field}", case=["det", lb], file=file, label=lb,
                          diff=[(p, repr(a)[:80], repr(b)[:80]) for p, a, b in d[:3]], max_coord_difference=worst)

    # same object again (the label -> fragment cache is warm now)
    for lb in labels:
        try:
            compare("same-object", lb, snap(cf0[lb]))
        except Exception as e:  # noqa
            compare("same-object", lb, e)
    # same object once more, after the caller has worked on the molecule it got before (a label resolves to the
    # drawn fragment, not to whatever an earlier result has been turned into)
    for lb in labels:
        try:
            m = cf0[lb]
            m.name = "edited-by-caller"
            m.charge = (m.charge or 0) + 3
            if m.n_atoms:
                m.translate([5.0, -4.0, 3.0])
                m.atoms[0].label = "EDITED"
                m.atoms[-1].formal_charge = 7
            try:
                m.add_implicit_hydrogens()
            except Exception:  # noqa
                pass
            compare("same-object-after-edit", lb, snap(cf0[lb]))
        except Exception as e:  # noqa
            compare("same-object-after-edit", lb, e)
    # cold object, labels in reverse order
    cf = CDXMLFile(src)
    for lb in reversed(labels):
        try:
            compare("cold-object", lb, snap(cf[lb]))
        except Exception as e:  # noqa
            compare("cold-object", lb, e)
    # other states of the global numpy generator; its state is fingerprinted around each parse
    for k, lb in enumerate(labels):
        for s in (1, 12345 + k):
            np.random.seed(s)
            before = _rng_print(np)
            try:
                got = snap(cf[lb])
            except Exception as e:  # noqa
                got = e
            if _rng_print(np) != before:
                ctx.count("determinism.global-rng-consumed")
            compare("reseeded", lb, got)
    # fresh process with yet another seed
    if labels:
        out = ctx.tmp / "fresh.pkl"
        code = FRESH % {"path": sys.path[:4], "npseed": 987654, "src": str(src), "labels": labels, "out": str(out)}
        p = subprocess.run([sys.executable, "-c", code], timeout=300, capture_output=True, text=True)
        if p.returncode != 0 or not out.exists():
            raise RuntimeError("fresh-process parse failed: " + p.stderr[-500:])
        res = pickle.loads(out.read_bytes())
        for lb in labels:
            compare("fresh-process", lb, res[lb])
