"""
C03 -- a crash while appending never damages committed records or shows a torn one.

Monitor shape: fault (crash-point) enumeration with a recovery oracle.
  * the raw events (writes with their data, truncates) that reach the OS file during an append session are recorded by a
    recorder hooked under every way of opening a file from Python (builtins.open / io.open / pathlib / io.FileIO /
    os.open + os.write...); the recorder is checked for completeness on every session (replaying the recorded events on
    the file as it was before the session must give the file as it is afterwards -- otherwise the run is INCONCLUSIVE);
  * the raw-write monitor proves the stream is a contiguous ascending append, so "process dies at any byte" == "any prefix
    of the stream is on disk"; the file state after every raw event (truncates included) is a crash image as well;
  * every prefix (exhaustive; strided inside very large values in the quick tier) is materialised as a crash
    image, reopened through UKVFile and Collection (keys()+get(), items(), values(), []), judged, then taken through a
    recovery history (reopen 'a', re-put the lost keys and fresh ones, close, reopen 'r', independent raw scan), the same on
    ONE long-lived object in three orders (a-r-a-r / r-a-r / object mapped before the crash) and a second crash inside the
    recovery session;
  * real SIGKILLs of a child process -- after the n-th raw event (write or truncate), between two puts / before close,
    in sessions started on a torn file, in the second session of one process -- are judged by the same oracle; a child
    that was not really killed where planned makes the run INCONCLUSIVE.
"""
from __future__ import annotations

import io
import os
import signal
import subprocess
import sys

ID = "C03"
LEVEL = "fault_enumeration"
RULE = ("sessions of 1..6 puts (key sizes 0/1/17/255, value sizes 0/1/100/8191/8192/8193/70000, about a third of the values "
        "mostly or entirely zero bytes) through UKVFile('a') and "
        "through Collection.writing() with bufsize in {-1,0,4096,1e6}, on files with 0..3 committed records; crash points: "
        "every byte prefix of the session's byte stream (exhaustive; stride-with-edges inside values > 300 bytes in the "
        "quick tier), the file state after every recorded raw event (write / truncate), second crash inside the recovery "
        "session (edges + seeded offsets), real SIGKILL after the n-th raw event, between puts / before close, on a torn "
        "start file and in the second session of one process; recovery histories on fresh objects and on one long-lived "
        "object (a-r-a-r, r-a-r, mapped before the crash); non-trivial = the cut lands strictly inside a record; distinct "
        "by (session shape, record, region, offset class)")
ASSUMPTIONS = [
    "a process death leaves the file as it is after a prefix of the raw events handed to the OS (the last write possibly "
    "partial); the raw-write monitor checks on every session that the stream is a contiguous ascending append and that the "
    "recorded events reproduce the file (power loss / reordering by the storage stack is outside the claim)",
    "a record of the interrupted session may be absent even if all its bytes reached the disk (the statement allows "
    "'completely or not at all')",
]
REQUIRED = {"image.judged": 2000, "image.cut-in-header": 100, "image.cut-in-key": 100, "image.cut-in-key-inside-character": 50,
            "image.cut-in-value": 500,
            "recovery.judged": 1000, "second-crash.judged": 200, "rawwrite.sessions": 20, "sigkill.judged": 8,
            "image.via-collection": 500, "same-object.judged": 1000,
            # --- added after the gap review
            "image.alt-readers": 2000,                    # every image also read through items() / values() / []
            "rawwrite.writes": 60, "rawwrite.replay-matches-file": 20, "rawwrite.event-states": 60,
            "rawwrite.recovery-sessions-replayed": 100,
            "same-object.a-then-r": 300, "same-object.r-then-a": 300, "same-object.mapped-before-crash": 300,
            "session.zero-heavy-values": 8, "recovery.large-append": 100,
            "sigkill.really-killed": 12, "sigkill.killed-at-raw-event": 4, "sigkill.killed-between-puts": 3,
            "sigkill.torn-start-killed": 3, "sigkill.second-session-killed": 3, "sigkill.disk-matches-replay": 4}
CHUNK_TIMEOUT = 1200
TECHNIQUE = "runtime monitoring: crash-point enumeration over the recorded append byte stream + recovery oracle + real SIGKILL"
LEVEL_TEXT = ("Every byte prefix of the recorded byte stream of real append sessions (and the file state after every raw "
              "write / truncate) is turned into a crash image and the real "
              "readers/writers are run on it (reopen, recovery appends, second crash); additionally real SIGKILLed writer "
              "processes are judged. Exhaustive over the crash points of the sessions generated, not over all sessions.")
LEVEL_NOTE = ("Trusted: vmon/models/kvmap.py scanner; the prefix model of a crash, justified per session by the raw-write "
              "monitor (contiguous ascending appends; recorder complete: replay of its events == the file; predicted disk "
              "state == real disk state after real kills).")

KEYSIZES = [1, 17, 255]
VALSIZES = [0, 1, 100, 8191, 8192, 8193, 70000]


def plan(tier, seed):
    specs = []
    n = 40 if tier == "quick" else 128
    for i in range(n):
        # thorough: every byte offset of every record up to 8193-byte values; 70 kB values every byte in one chunk of 8
        specs.append({"kind": "prefix", "chunk": i, "via": ["ukv", "coll"][i % 2],
                      "bufsize": [-1, 0, 4096, 10**6][(i // 2) % 4],
                      "full": 0 if tier == "quick" else (70000 if i % 8 == 7 else 9000)})
    nk = 8 if tier == "quick" else 64
    for i in range(nk):
        specs.append({"kind": "sigkill", "chunk": i, "n": 4 if tier == "quick" else 8})
    return specs


def zero_heavy(size, salt, all_zero=False):
    """a value that is mostly zero bytes (an all-zero / sparse array): left-over bytes of it parse as record headers"""
    b = bytearray(size)
    if not all_zero:
        for j in range(salt % 89, size, 89):
            b[j] = 1 + (j * 7 + salt) % 250
    return bytes(b)


def make_session(rng, big_ok=True, count=None):
    """-> (committed records, session records); keys unique"""
    import random

    empty_key_at = rng.randrange(0, 14)        # in about half of the sessions one record has the (legal) empty key

    nonascii = rng.random() < 0.35             # keys are text: a crash may fall inside a multi-byte character

    def key(i, tag):
        if i == empty_key_at:
            return b""
        ks = rng.choice(KEYSIZES)
        if ks == 1:
            return bytes([(65 if tag == "p" else 97) + i])
        base = f"{tag}{i}-".encode()
        if nonascii:
            pool = "αβ−键üé→\U0001F600"
            out, j = base, 0
            while True:
                ch = pool[(i * 3 + j) % len(pool)].encode()
                if len(out) + len(ch) > ks:
                    return out
                out, j = out + ch, j + 1
        return (base + bytes(65 + (i * 7 + j) % 26 for j in range(ks)))[:ks]

    def val(size, salt):
        # self-describing, non-periodic content so that shifted / zero-padded data is visible
        return bytes(((j * 131 + salt * 17 + (j >> 8)) % 251) + 1 for j in range(size))

    ncommit = rng.randrange(0, 4)
    nsess = rng.randrange(1, 7)
    committed, sess = [], []
    used = set()
    salt = rng.randrange(1000)
    zr = random.Random(f"zero-heavy/{salt}/{ncommit}/{nsess}/{empty_key_at}")   # own stream: the shapes stay as they were
    bigs = 0
    for i in range(ncommit + nsess):
        tag = "p" if i < ncommit else "s"
        k = key(i, tag)
        used.add(k)
        size = rng.choice(VALSIZES if big_ok and bigs < 1 else VALSIZES[:-1])
        if k == b"" and rng.random() < 0.5:
            size = 0                            # ... and sometimes an empty value as well: a record of five zero bytes
        if size == 70000:
            bigs += 1
        z = zr.random()
        if size and z < 0.35:
            v = zero_heavy(size, salt + i, all_zero=z < 0.1)
            if count is not None:
                count("session.zero-heavy-values")
        else:
            v = val(size, salt + i)
        (committed if i < ncommit else sess).append((k, v))
    return committed, sess


# ----------------------------------------------------------------------------------------------------------------------
# raw-event recorder
# ----------------------------------------------------------------------------------------------------------------------

class RawRecorder:
    """records the raw events reaching the OS file of ONE path: ("w", offset, data) and ("t", new size).

    Hooked under every Python-level way of getting at the file: builtins.open, io.open (hence pathlib.Path.open,
    os.fdopen), io.FileIO, os.open + os.write / os.pwrite / os.writev / os.ftruncate, os.truncate.  Whatever still gets
    past it is found by the completeness test of the caller (replay(events) == file).
    `on_event(i)` is called after the i-th event has reached the file (used by the kill children)."""

    _OS_NAMES = ("open", "close", "write", "pwrite", "writev", "ftruncate", "truncate")

    def __init__(self, path):
        self.path = os.path.abspath(os.fspath(path))
        self.events = []
        self.on_event = None
        self.fds = {}             # fd -> append flag, for every writable descriptor known to be open on the path
        self._saved = None

    # -- bookkeeping
    @property
    def writes(self):
        return [(e[1], len(e[2])) for e in self.events if e[0] == "w"]

    @property
    def truncs(self):
        return [e[1] for e in self.events if e[0] == "t"]

    def _emit(self, ev):
        self.events.append(ev)
        if self.on_event is not None:
            self.on_event(len(self.events) - 1)

    def _is_path(self, file):
        try:
            if isinstance(file, int):
                return False
            p = os.fspath(file)
            if isinstance(p, bytes):
                p = os.fsdecode(p)
            return os.path.abspath(p) == self.path
        except Exception:  # noqa
            return False

    def _mine(self, file):
        if isinstance(file, int) and not isinstance(file, bool):
            return file in self.fds
        return self._is_path(file)

    def __enter__(self):
        import builtins
        import pathlib

        rec = self
        o = {n: getattr(os, n) for n in self._OS_NAMES if hasattr(os, n)}
        orig_open, orig_fileio, orig_pathopen = io.open, io.FileIO, pathlib.Path.open
        self._saved = (o, orig_open, builtins.open, orig_fileio, orig_pathopen)

        class RawIO(orig_fileio):
            _c03_tracked = False

            def __init__(self, file, mode="r", closefd=True, opener=None):
                super().__init__(file, mode, closefd, opener)
                if rec._mine(file) and self.writable():
                    self._c03_tracked = True
                    self._c03_append = "a" in mode
                    rec.fds[self.fileno()] = self._c03_append

            def write(self, b):
                if not self._c03_tracked:
                    return super().write(b)
                off = os.fstat(self.fileno()).st_size if self._c03_append else self.tell()
                n = super().write(b)
                n_ = len(b) if n is None else n
                rec._emit(("w", off, bytes(memoryview(b).cast("B")[:n_])))
                return n

            def truncate(self, size=None):
                if not self._c03_tracked:
                    return super().truncate(size)
                new = self.tell() if size is None else size
                r = super().truncate(size)
                rec._emit(("t", new))
                return r

            def close(self):
                if self._c03_tracked and not self.closed:
                    try:
                        rec.fds.pop(self.fileno(), None)
                    except Exception:  # noqa
                        pass
                return super().close()

        def tracked_open(file, mode, buffering, encoding, errors, newline, closefd, opener):
            # what io.open does, with the recording raw class underneath
            raw = RawIO(file, "".join(c for c in mode if c not in "bt"), closefd, opener)
            try:
                binary = "b" in mode
                line_buffering = buffering == 1
                if buffering < 0 or line_buffering:
                    buffering = getattr(raw, "_blksize", io.DEFAULT_BUFFER_SIZE)
                    if not isinstance(buffering, int) or buffering <= 1:
                        buffering = io.DEFAULT_BUFFER_SIZE
                if buffering == 0:
                    if binary:
                        return raw
                    raise ValueError("can't have unbuffered text I/O")
                if "+" in mode:
                    buf = io.BufferedRandom(raw, buffering)
                elif any(c in mode for c in "wax"):
                    buf = io.BufferedWriter(raw, buffering)
                else:
                    buf = io.BufferedReader(raw, buffering)
                if binary:
                    return buf
                text = io.TextIOWrapper(buf, encoding, errors, newline, line_buffering)
                text.mode = mode
                return text
            except BaseException:
                raw.close()
                raise

        def patched_open(file, mode="r", buffering=-1, encoding=None, errors=None, newline=None, closefd=True,
                         opener=None):
            if isinstance(mode, str) and any(c in mode for c in "wax+") and rec._mine(file):
                return tracked_open(file, mode, buffering, encoding, errors, newline, closefd, opener)
            return orig_open(file, mode, buffering, encoding, errors, newline, closefd, opener)

        def path_open(p, mode="r", buffering=-1, encoding=None, errors=None, newline=None):
            if "b" not in mode:
                encoding = io.text_encoding(encoding)
            return patched_open(p, mode, buffering, encoding, errors, newline)

        def os_open(path, flags, mode=0o777, *, dir_fd=None):
            fd = o["open"](path, flags, mode, dir_fd=dir_fd)
            if dir_fd is None and flags & (os.O_WRONLY | os.O_RDWR) and rec._is_path(path):
                rec.fds[fd] = bool(flags & os.O_APPEND)
                if flags & os.O_TRUNC:
                    rec._emit(("t", 0))
            else:
                rec.fds.pop(fd, None)
            return fd

        def os_close(fd):
            rec.fds.pop(fd, None)
            return o["close"](fd)

        def _pos(fd):
            return os.fstat(fd).st_size if rec.fds.get(fd) else os.lseek(fd, 0, os.SEEK_CUR)

        def os_write(fd, data):
            if fd not in rec.fds:
                return o["write"](fd, data)
            off = _pos(fd)
            n = o["write"](fd, data)
            rec._emit(("w", off, bytes(memoryview(data).cast("B")[:n])))
            return n

        def os_pwrite(fd, data, offset):
            n = o["pwrite"](fd, data, offset)
            if fd in rec.fds:
                rec._emit(("w", offset, bytes(memoryview(data).cast("B")[:n])))
            return n

        def os_writev(fd, buffers):
            if fd not in rec.fds:
                return o["writev"](fd, buffers)
            buffers = [bytes(b) for b in buffers]
            off = _pos(fd)
            n = o["writev"](fd, buffers)
            rec._emit(("w", off, b"".join(buffers)[:n]))
            return n

        def os_ftruncate(fd, length):
            r = o["ftruncate"](fd, length)
            if fd in rec.fds:
                rec._emit(("t", length))
            return r

        def os_truncate(path, length):
            r = o["truncate"](path, length)
            if rec._mine(path):
                rec._emit(("t", length))
            return r

        new_os = {"open": os_open, "close": os_close, "write": os_write, "pwrite": os_pwrite, "writev": os_writev,
                  "ftruncate": os_ftruncate, "truncate": os_truncate}
        for n in o:
            setattr(os, n, new_os[n])
        io.open = patched_open
        builtins.open = patched_open
        io.FileIO = RawIO
        pathlib.Path.open = path_open
        return self

    def __exit__(self, *a):
        import builtins
        import pathlib

        o, io_open, b_open, fileio, pathopen = self._saved
        for n, f in o.items():
            setattr(os, n, f)
        io.open, builtins.open, io.FileIO, pathlib.Path.open = io_open, b_open, fileio, pathopen
        self.fds.clear()


def replay(base, events, n=None):
    """the file after the first n recorded events, starting from `base`"""
    s = bytearray(base)
    for ev in events[:n]:
        _apply(s, ev)
    return bytes(s)


def _apply(s, ev, cut=None):
    if ev[0] == "t":
        size = ev[1]
        if size <= len(s):
            del s[size:]
        else:
            s.extend(bytes(size - len(s)))
    else:
        _, off, data = ev
        if cut is not None:
            data = data[:cut]
        if off > len(s):
            s.extend(bytes(off - len(s)))       # a hole reads back as zeros
        s[off:off + len(data)] = data


def event_states(base, events):
    """crash states the prefix enumeration may not contain: the file after every raw event; for a write that is not a
    plain append at the end of the file also three states inside it.  yields (event index, kind, image)"""
    s = bytearray(base)
    for i, ev in enumerate(events):
        if ev[0] == "t":
            _apply(s, ev)
            yield i, "after-truncate", bytes(s)
            continue
        off, data = ev[1], ev[2]
        if off != len(s) and len(data) > 1:
            for cut in sorted({1, len(data) // 2, len(data) - 1}):
                if 0 < cut < len(data):
                    t = bytearray(s)
                    _apply(t, ev, cut)
                    yield i, "inside-non-appending-write", bytes(t)
        _apply(s, ev)
        yield i, "after-write", bytes(s)


def write_session(path, sess, via, bufsize, after_put=None, split=0, on_split=None):
    """run the append session on the real code (records [:split] in a first, cleanly closed session of the same object)"""
    n = 0
    parts = [sess[:split], sess[split:]] if split else [sess]
    if via == "ukv":
        from molli.storage.ukvfile import UKVFile

        f = None
        for pi, part in enumerate(parts):
            if f is None:
                f = UKVFile(path, mode="a")
            else:
                f.open("a")
            for k, v in part:
                f.put(k, v)
                n += 1
                if after_put is not None:
                    after_put(n)
            f.close()
            if split and pi == 0 and on_split is not None:
                on_split()
    else:
        from molli.storage import Collection, UkvCollectionBackend

        c = Collection(path, UkvCollectionBackend, readonly=False, bufsize=bufsize)
        for pi, part in enumerate(parts):
            with c.writing():
                for k, v in part:
                    c[k.decode("utf-8")] = v
                    n += 1
                    if after_put is not None:
                        after_put(n)
            if split and pi == 0 and on_split is not None:
                on_split()


def run_chunk(spec, ctx):
    if spec["kind"] == "prefix":
        run_prefix(spec, ctx)
    else:
        run_sigkill(spec, ctx)


def offsets_for(before_len, sess, full):
    """crash offsets with their (record index, region) class"""
    out = []
    pos = before_len
    for i, (k, v) in enumerate(sess):
        hdr_end = pos + 5
        key_end = hdr_end + len(k)
        val_end = key_end + len(v)
        total = val_end - pos
        for off in range(pos, val_end + 1):
            w = off - pos
            if w == 0 or w == total:
                region = "boundary"
            elif w < 5:
                region = "header"
            elif w < 5 + len(k):
                region = "key"
                if (k[w - 5] & 0xC0) == 0x80:
                    region = "key-inside-character"     # the cut leaves a partial multi-byte character
            else:
                region = "value"
            if region == "value" and len(v) > max(300, full):
                rel = off - key_end
                if not (rel < 12 or len(v) - rel < 12 or rel % 211 == 0 or off % 8192 < 3 or off % 8192 > 8189):
                    continue
            out.append((off, i, region))
        pos = val_end
    # de-duplicate boundaries shared by neighbours
    seen, res = set(), []
    for o in out:
        if o[0] not in seen:
            seen.add(o[0])
            res.append(o)
    return res


class Shown(dict):
    """key -> value as shown by keys()+get(); .alt: what the other public readers show of the same image"""
    alt = None


class CountDiffers(Exception):
    pass


def pair_values(keys, values):
    """values() has no keys of its own: it is read against keys() position by position"""
    keys, values = list(keys), list(values)
    if len(keys) != len(values):
        raise CountDiffers(f"{len(values)} values for {len(keys)} keys")
    return list(zip(keys, values))


class Judge:
    def __init__(self, ctx, case, shape):
        self.ctx, self.case, self.shape = ctx, case, shape
        self.nv = 0

    def v(self, key, **detail):
        self.nv += 1
        self.ctx.violation(key, case=self.case, shape=self.shape, **detail)

    def read_image(self, path, via):
        """-> Shown (key->value as shown by the real reader), or None after reporting"""
        def attempt(fn):
            try:
                return fn()
            except Exception as e:  # noqa
                return e

        if via == "ukv":
            from molli.storage.ukvfile import UKVFile

            try:
                f = UKVFile(path, mode="r")
            except Exception as e:  # noqa
                self.v(f"reopen-r-raises:{type(e).__name__}", err=repr(e)[:200])
                return None
            try:
                shown = Shown()
                keys = list(f.keys())
                for k in keys:
                    try:
                        shown[k] = f.get(k)
                    except Exception as e:  # noqa
                        shown[k] = e
                self.ctx.count("image.alt-readers")
                shown.alt = {"items()": attempt(lambda: list(f.items())),
                             "values()": attempt(lambda: pair_values(f.keys(), f.values())),
                             "[]": attempt(lambda: [(k, f[k]) for k in f.keys()])}
                return shown
            finally:
                f.close()
        else:
            from molli.storage import Collection, UkvCollectionBackend

            self.ctx.count("image.via-collection")
            try:
                c = Collection(path, UkvCollectionBackend, readonly=True)
                shown = Shown()
                with c.reading():
                    for k in list(c.keys()):
                        try:
                            shown[k.encode("utf-8")] = c[k]
                        except Exception as e:  # noqa
                            shown[k.encode("utf-8")] = e
                    self.ctx.count("image.alt-readers")
                    shown.alt = {
                        "items()": attempt(lambda: [(k.encode("utf-8"), v) for k, v in c.items()]),
                        "values()": attempt(lambda: pair_values([k.encode("utf-8") for k in c.keys()], c.values())),
                    }
                return shown
            except Exception as e:  # noqa
                self.v(f"reopen-r-raises:{type(e).__name__}", err=repr(e)[:200])
                return None

    def judge(self, shown, committed, maybe, stage, where):
        """committed: dict that must be shown exactly; maybe: dict of records that are absent or exact.
        -> set of `maybe` keys that are present"""
        present = set()
        for k, v in committed.items():
            got = shown.get(k, None)
            if k not in shown:
                self.v(f"{stage}:committed-record-missing", where=where, klen=len(k))
            elif isinstance(got, Exception):
                self.v(f"{stage}:committed-record-unreadable:{type(got).__name__}", where=where, klen=len(k))
            elif got != v:
                self.v(f"{stage}:committed-record-altered", where=where, klen=len(k), got_len=len(got), want_len=len(v))
        for k, v in maybe.items():
            if k not in shown:
                continue
            got = shown[k]
            if isinstance(got, Exception):
                self.v(f"{stage}:torn-record-listed-unreadable:{type(got).__name__}", where=where, klen=len(k))
            elif got == v:
                present.add(k)
            elif len(got) < len(v) and v.startswith(got):
                self.v(f"{stage}:torn-record-truncated-value", where=where, got_len=len(got), want_len=len(v))
            elif len(got) == len(v) and got.rstrip(b"\0") != got and v.startswith(got.rstrip(b"\0")):
                self.v(f"{stage}:torn-record-zero-padded-value", where=where, want_len=len(v),
                       zeros=len(got) - len(got.rstrip(b"\0")))
            else:
                self.v(f"{stage}:interrupted-record-wrong-value", where=where, got_len=len(got), want_len=len(v))
        for k in shown:
            if k not in committed and k not in maybe:
                partial = any(mk.startswith(k) for mk in maybe)
                self.v(f"{stage}:{'partial-key' if partial else 'unknown-key'}-listed", where=where, klen=len(k))
        # ---- the other public readers of the same open image must show the same records
        alt = getattr(shown, "alt", None)
        if alt and not any(isinstance(x, Exception) for x in shown.values()):
            ref = sorted(shown.items())
            for name, res in alt.items():
                if isinstance(res, CountDiffers):
                    self.v(f"{stage}[{name}]:count-differs-from-keys()", where=where, err=str(res))
                    continue
                if isinstance(res, Exception):
                    self.v(f"{stage}[{name}]:raises:{type(res).__name__}", where=where, err=repr(res)[:200])
                    continue
                try:
                    same = sorted(res) == ref
                except Exception:  # noqa
                    same = False
                if same:
                    continue
                nv = self.nv
                try:
                    self.judge(dict(res), committed, maybe, f"{stage}[{name}]", where)
                except Exception:  # noqa
                    pass
                if self.nv == nv:
                    self.v(f"{stage}[{name}]:disagrees-with-keys()+get()", where=where, n=len(res), n_keys=len(ref))
        return present


def same_object_history(J, ctx, path, before, image, via, bufsize, cdict, sdict, present0, where, variant):
    """recovery through ONE long-lived UKVFile / Collection object that is reopened again and again:
    variant 0: reopen 'a' (no put), reopen 'r', reopen 'a' + put, reopen 'r'
    variant 1: reopen 'r' (look what survived), reopen 'a' + put, reopen 'r'
    variant 2: the object was opened and closed BEFORE the crash session of another program; then 'a' + put, 'r'
    afterwards a fresh reader and the independent raw scan look at the file."""
    from vmon.models.kvmap import scan, ScanError

    ctx.count("same-object.judged")
    ctx.count(["same-object.a-then-r", "same-object.r-then-a", "same-object.mapped-before-crash"][variant])
    n = where.get("offset", 0)
    if n % 4 == 3:
        fresh_k, fresh_v = b"same-object-fresh", zero_heavy(600, n)          # larger than many torn tails
    else:
        fresh_k, fresh_v = b"sof", b"S" * (n % 3)                            # shorter than most torn tails
    present = set(present0)
    try:
        if via == "ukv":
            from molli.storage.ukvfile import UKVFile

            def read(f):
                f.open("r")
                try:
                    return {k: f.get(k) for k in list(f.keys())}
                finally:
                    f.close()

            if variant == 2:
                path.write_bytes(before)
                f = UKVFile(path, mode="ra"[(n >> 1) & 1])
                if n & 4:
                    list(f.items())
                f.close()
                path.write_bytes(image)
            else:
                path.write_bytes(image)
                if variant == 0:
                    f = UKVFile(path, mode="a")
                    f.close()
                    shown = read(f)
                else:
                    f = UKVFile(path, mode="r")
                    shown = {k: f.get(k) for k in list(f.keys())}
                    f.close()
                present = J.judge(shown, cdict, sdict, "same-object-reopen", where)
            f.open("a")
            f.put(fresh_k, fresh_v)
            f.close()
            shown = read(f)
        else:
            from molli.storage import Collection, UkvCollectionBackend

            def read(c):
                with c.reading():
                    return {k.encode("utf-8"): c[k] for k in list(c.keys())}

            if variant == 2:
                path.write_bytes(before)
                c = Collection(path, UkvCollectionBackend, readonly=False, bufsize=bufsize)
                if (n >> 1) & 1:
                    with c.writing():
                        pass
                else:
                    read(c)
                path.write_bytes(image)
            else:
                path.write_bytes(image)
                c = Collection(path, UkvCollectionBackend, readonly=False, bufsize=bufsize)
                if variant == 0:
                    with c.writing():
                        pass
                shown = read(c)
                present = J.judge(shown, cdict, sdict, "same-object-reopen", where)
            with c.writing():
                c[fresh_k.decode()] = fresh_v
            shown = read(c)
    except Exception as e:  # noqa
        J.v(f"same-object-history:raises:{type(e).__name__}", where=where, variant=variant, err=repr(e)[:200])
        return
    must = dict(cdict)
    must.update({k: sdict[k] for k in present})
    must[fresh_k] = fresh_v
    J.judge(shown, must, {}, "same-object-after-recovery", where)
    # what everybody else sees of the file the long-lived object left behind
    other = J.read_image(path, via)
    if other is not None:
        J.judge(other, must, {}, "after-same-object-recovery", where)
    try:
        scan(path.read_bytes())
    except ScanError as e:
        J.v("after-same-object-recovery:file-not-a-clean-record-sequence", where=where, variant=variant, err=str(e))


def recover(path, via, bufsize, puts, rec=False):
    """recovery session on the real code; -> None or the exception (rec=True: -> (that, recorded raw events))"""
    if rec:
        with RawRecorder(path) as r:
            err = recover(path, via, bufsize, puts)
        return err, r.events
    try:
        write_session(path, puts, via, bufsize)
    except Exception as e:  # noqa
        return e
    return None


class CrashImageOracle:
    """reopen + recovery history + second crash for one crash image of one session"""

    def __init__(self, J, ctx, via, bufsize, before, committed, sess):
        self.J, self.ctx, self.via, self.bufsize, self.before = J, ctx, via, bufsize, before
        self.cdict, self.sdict, self.sess = dict(committed), dict(sess), sess
        self.img = ctx.tmp / "img.ukv"
        self.img2 = ctx.tmp / "img2.ukv"
        self.rec_sample = 0
        self.n = 0

    def run(self, image, where):
        from vmon.models.kvmap import scan, ScanError

        J, ctx, via, bufsize, img, cdict, sdict = self.J, self.ctx, self.via, self.bufsize, self.img, self.cdict, self.sdict
        idx = self.n
        self.n += 1
        img.write_bytes(image)
        shown = J.read_image(img, via)
        if shown is None:
            return
        present = J.judge(shown, cdict, sdict, "reopen", where)
        # a record whose bytes are not all on disk cannot be present
        # ---- recovery history: reopen 'a', re-put what was lost with a NEW value, add fresh records
        lost = [(k, b"again:" + v[:50]) for k, v in self.sess if k not in present]
        fresh = [(b"fresh-1", b"F" * 10), (b"fresh-2", b"")]
        if idx % 6 == 5:
            fresh.append((b"fresh-big", zero_heavy(9000, idx)))       # larger than the buffer and than most torn tails
            ctx.count("recovery.large-append")
        recorded = idx % 8 == 3
        if recorded:
            err, events = recover(img, via, bufsize, lost + fresh, rec=True)
        else:
            err, events = recover(img, via, bufsize, lost + fresh), None
        ctx.count("recovery.judged")
        if err is not None:
            J.v(f"recovery:append-after-crash-raises:{type(err).__name__}", where=where, err=repr(err)[:200])
            return
        rec_after = img.read_bytes()
        must = dict(cdict)
        must.update({k: sdict[k] for k in present})
        if events is not None:
            # the recorder must have seen the whole recovery session, truncation of the torn tail included
            if replay(image, events) != rec_after:
                ctx.inconclusive.append("raw-event recorder incomplete: the events recorded during a recovery session do not "
                                        f"reproduce the file ({len(events)} events, shape {self.J.shape})")
            else:
                ctx.count("rawwrite.recovery-sessions-replayed")
            # a death right after a raw truncate of the recovery session
            for i, kind, state in event_states(image, events):
                if kind != "after-truncate":
                    continue
                ctx.count("rawwrite.truncates-judged")
                img.write_bytes(state)
                shown_t = J.read_image(img, via)
                if shown_t is not None:
                    J.judge(shown_t, must, dict(lost + fresh), "second-crash-after-truncate", {**where, "event": i})
            img.write_bytes(rec_after)
        shown2 = J.read_image(img, via)
        if shown2 is None:
            return
        must_all = dict(must)
        must_all.update(dict(lost))
        must_all.update(dict(fresh))
        J.judge(shown2, must_all, {}, "after-recovery", where)
        try:
            scan(rec_after)
        except ScanError as e:
            J.v("after-recovery:file-not-a-clean-record-sequence", where=where, err=str(e))
        # ---- the same recovery through ONE long-lived object that is reopened again and again
        same_object_history(J, ctx, self.img2, self.before, image, via, bufsize, cdict, sdict, present, where, idx % 3)
        # ---- second crash inside the recovery session
        clean_end = len(rec_after) - sum(5 + len(k) + len(v) for k, v in lost + fresh)
        span = len(rec_after) - clean_end
        off = where.get("offset", len(image))
        picks = {clean_end + 1, clean_end + 4, clean_end + 5, clean_end + 6, len(rec_after) - 1,
                 clean_end + (off * 7919) % max(span, 1)}
        for off2 in sorted(p for p in picks if clean_end < p < len(rec_after)):
            self.rec_sample += 1
            if self.rec_sample % 3:
                continue
            img.write_bytes(rec_after[:off2])
            shown3 = J.read_image(img, via)
            ctx.count("second-crash.judged")
            if shown3 is None:
                continue
            J.judge(shown3, must, dict(lost + fresh), "second-crash", {**where, "offset2": off2 - clean_end})
            err = recover(img, via, bufsize, [(b"final", b"z" * 3)])
            if err is not None:
                J.v(f"second-crash:append-raises:{type(err).__name__}", where=where)
                continue
            shown4 = J.read_image(img, via)
            if shown4 is not None:
                J.judge(shown4, {**must, b"final": b"zzz"}, dict(lost + fresh), "after-second-recovery", where)
                try:
                    scan(img.read_bytes())
                except ScanError as e:
                    J.v("after-second-recovery:file-not-a-clean-record-sequence", where=where, err=str(e))


def run_prefix(spec, ctx):
    from vmon.models.kvmap import scan, ScanError

    via, bufsize = spec["via"], spec["bufsize"]
    case = ("prefix", spec["chunk"])
    if not ctx.want(case):
        return
    rng = ctx.rng(*case)
    committed, sess = make_session(rng, count=ctx.count)
    path = ctx.tmp / "lib.ukv"
    from molli.storage.ukvfile import UKVFile

    f = UKVFile(path, mode="w", h2=b"crash test", b0=b"\x01\x02")
    for k, v in committed:
        f.put(k, v)
    f.close()
    before = path.read_bytes()
    with RawRecorder(path) as rec:
        write_session(path, sess, via, bufsize)
    after = path.read_bytes()
    events = rec.events
    shape = {"via": via, "bufsize": bufsize, "committed": [(len(k), len(v)) for k, v in committed],
             "session": [(len(k), len(v)) for k, v in sess]}
    J = Judge(ctx, case, shape)

    # ---- the recorder must have seen everything that happened to the file
    ctx.count("rawwrite.sessions")
    ctx.count("rawwrite.writes", len(rec.writes))
    ctx.count("rawwrite.truncates", len(rec.truncs))
    if replay(before, events) != after:
        ctx.inconclusive.append(
            f"raw-event recorder incomplete: the {len(events)} events recorded during the session do not reproduce the "
            f"file (file grew {len(before)} -> {len(after)}; recorded writes {rec.writes[:6]}); the library reaches the file "
            f"in a way the recorder does not see, so the crash states of the session are unknown (shape {shape})")
    else:
        ctx.count("rawwrite.replay-matches-file")
    # ---- raw-write monitor: contiguous ascending append above the committed prefix
    pos = len(before)
    for ev in events:
        if ev[0] == "t":
            if ev[1] < len(before):
                J.v("rawwrite:truncate-below-committed-end", size=ev[1], committed_end=len(before))
                break
            continue
        off, n = ev[1], len(ev[2])
        if off < len(before):
            J.v("rawwrite:touches-committed-region", off=off, committed_end=len(before))
            break
        if off != pos:
            J.v("rawwrite:not-contiguous", off=off, expected=pos)
            break
        pos += n
    if after[:len(before)] != before:
        J.v("session:committed-prefix-changed")
    try:
        _, _, _, recs, _ = scan(after)
        if [(k, v) for k, v, _ in recs] != committed + sess:
            J.v("session:clean-session-records-differ")
    except ScanError as e:
        J.v("session:clean-session-file-not-clean", err=str(e))

    oracle = CrashImageOracle(J, ctx, via, bufsize, before, committed, sess)
    offs = offsets_for(len(before), sess, spec["full"])
    for off, ri, region in offs:
        where = {"offset": off, "record": ri, "region": region, "rel": off - len(before)}
        ctx.count("image.judged")
        if region != "boundary":
            ctx.count(f"image.cut-in-{region}")
        ctx.case(case + (off,), dkey=(repr(shape), ri, region, min(off - len(before), 3)), nontrivial=region != "boundary",
                 sample={"shape": shape, "cut": where} if off == offs[len(offs) // 2][0] else None)
        oracle.run(after[:off], where)

    # ---- crash states given by the raw events themselves (after each write / truncate, inside non-appending writes);
    #      with an append-only stream they are prefixes already judged above
    judged_lengths = {o[0] for o in offs}
    for i, kind, state in event_states(before, events):
        ctx.count("rawwrite.event-states")
        if kind != "inside-non-appending-write" and len(state) in judged_lengths and state == after[:len(state)]:
            ctx.count("rawwrite.event-states-are-judged-prefixes")
            continue
        ctx.count("image.event-state-judged")
        where = {"event": i, "kind": kind, "offset": len(state), "events": [(e[0], e[1], len(e[2]) if e[0] == "w" else None)
                                                                            for e in events[:i + 1]][-4:]}
        ctx.case(case + ("event", i, kind, len(state)), dkey=(repr(shape), "event", kind), nontrivial=True)
        oracle.run(state, where)


KILL_CHILD = r"""
import os, sys, signal, pickle
sys.path[:0] = %(syspath)r
from vmon.props.C03 import RawRecorder, write_session
job = pickle.load(open(%(jobf)r, 'rb'))
kind, at = job['kill']
def die():
    os.kill(os.getpid(), signal.SIGKILL)
rec = RawRecorder(job['path'])
if kind == 'event':
    rec.on_event = lambda i: die() if i == at else None
after_put = (lambda n: die() if n == at else None) if kind == 'put' else None
with rec:
    write_session(job['path'], job['sess'], job['via'], job['bufsize'], after_put=after_put, split=job['split'])
"""


def run_sigkill(spec, ctx):
    import pickle
    from molli.storage.ukvfile import UKVFile

    for j in range(spec["n"]):
        case = ("sigkill", spec["chunk"], j)
        if not ctx.want(case):
            continue
        rng = ctx.rng(*case)
        committed, sess = make_session(rng, count=ctx.count)
        via = rng.choice(["ukv", "coll"])
        bufsize = rng.choice([-1, 0, 4096, 10**6])
        # the four kinds of death, in turn: after a raw event / between two puts (or before close) / in a session that
        # starts on a torn file (death right after the torn tail was dealt with, or later) / in the second session of
        # one long-lived object
        mode = ["raw-event", "between-puts", "torn-start", "second-session"][j % 4]
        split = 0
        if mode == "second-session":
            if len(sess) < 2:
                sess = sess + [(b"second-session-extra", b"x" * 4500)]
            split = rng.randrange(1, len(sess))
        path = ctx.tmp / f"k{j}.ukv"
        f = UKVFile(path, mode="w")
        for k, v in committed:
            f.put(k, v)
        f.close()
        start = path.read_bytes()
        if mode == "torn-start":
            tk, tv = b"torn-by-somebody-else", zero_heavy(rng.choice([3, 400, 6000]), j)
            whole = bytes([len(tk)]) + len(tv).to_bytes(4, "big") + tk + tv
            start += whole[:rng.randrange(1, len(whole))]
            path.write_bytes(start)
        # ---- dry run in this process: which raw events does the session produce, and where does its second part begin
        marks = []
        with RawRecorder(path) as rec:
            derr = recover_split(path, sess, via, bufsize, split, lambda: marks.append(len(rec.events)))
        events, clean_after = rec.events, path.read_bytes()
        path.write_bytes(start)
        if derr is not None:
            J0 = Judge(ctx, case, {"via": via, "bufsize": bufsize, "mode": mode})
            J0.v(f"sigkill-dry-run:session-raises:{type(derr).__name__}", err=repr(derr)[:200])
            continue
        blind = replay(start, events) != clean_after
        if blind:
            # the recorder cannot place a death inside this session; one between two puts needs no recorder
            ctx.inconclusive.append(f"raw-event recorder incomplete in the dry run of a kill case ({len(events)} events "
                                    f"recorded, file {len(start)} -> {len(clean_after)} bytes)")
        if spec["chunk"] == 0 and j in (0, 2):
            strace_crosscheck(ctx, path, start, events, via, bufsize, sess, split)
        first = marks[0] if marks else 0             # events of the cleanly closed first session are no kill points
        if mode == "between-puts" or (mode == "second-session" and rng.random() < 0.5) or len(events) <= first or blind:
            kill = ("put", rng.randrange(split + 1, len(sess) + 1))
        elif mode == "torn-start":
            truncs = [i for i, e in enumerate(events) if e[0] == "t"]
            kill = ("event", truncs[0] if truncs and rng.random() < 0.6 else rng.randrange(first, len(events)))
        else:
            kill = ("event", rng.randrange(first, len(events)))
        jobf = ctx.tmp / f"job{j}.pkl"
        jobf.write_bytes(pickle.dumps({"path": str(path), "via": via, "bufsize": bufsize, "sess": sess, "split": split,
                                       "kill": kill}))
        code = KILL_CHILD % {"syspath": [p for p in sys.path if p], "jobf": str(jobf)}
        p = subprocess.run([sys.executable, "-c", code], capture_output=True, text=True, timeout=300)
        killed = p.returncode == -signal.SIGKILL
        if not killed:
            # the dry run says the kill point exists: a child that got past it was not watched by the recorder
            ctx.inconclusive.append(f"sigkill child was not killed at {kill} (mode {mode}, {len(events)} raw events in the "
                                    f"dry run) rc={p.returncode}: {p.stderr[-400:]}")
            continue
        shape = {"via": via, "bufsize": bufsize, "mode": mode, "kill": list(kill), "killed": killed, "split": split,
                 "raw_events": len(events),
                 "committed": [(len(k), len(v)) for k, v in committed], "session": [(len(k), len(v)) for k, v in sess]}
        J = Judge(ctx, case, shape)
        disk = path.read_bytes()
        where = {"disk_len": len(disk), "start_len": len(start)}
        ctx.case(case, dkey=repr(shape), nontrivial=disk != start or kill[0] == "put", sample=shape)
        ctx.count("sigkill.judged")
        ctx.count("sigkill.really-killed")
        if kill[0] == "event":
            ctx.count("sigkill.killed-at-raw-event")
            ctx.count("sigkill.killed-at-raw-truncate" if events[kill[1]][0] == "t" else "sigkill.killed-at-raw-write")
            # the crash model against reality: the recorded events predict what a real death leaves on the disk
            if disk == replay(start, events, kill[1] + 1):
                ctx.count("sigkill.disk-matches-replay")
            else:
                ctx.inconclusive.append(f"the file left by a child killed after raw event {kill[1]} is not the replay of the "
                                        f"events recorded in the dry run (mode {mode}, shape {shape})")
        else:
            ctx.count("sigkill.killed-between-puts")
        if mode == "torn-start":
            ctx.count("sigkill.torn-start-killed")
        if mode == "second-session":
            ctx.count("sigkill.second-session-killed")
        must0 = dict(committed + sess[:split])
        maybe = dict(sess[split:])
        shown = J.read_image(path, via)
        if shown is None:
            continue
        present = J.judge(shown, must0, maybe, "sigkill-reopen", where)
        lost = [(k, b"again") for k, v in sess[split:] if k not in present]
        err = recover(path, via, bufsize, lost + [(b"fresh", b"f")])
        if err is not None:
            J.v(f"sigkill-recovery:append-raises:{type(err).__name__}", where=where, err=repr(err)[:200])
            continue
        shown2 = J.read_image(path, via)
        if shown2 is not None:
            must = dict(must0)
            must.update({k: maybe[k] for k in present})
            must.update(dict(lost))
            must[b"fresh"] = b"f"
            J.judge(shown2, must, {}, "sigkill-after-recovery", where)
            try:
                from vmon.models.kvmap import scan, ScanError

                try:
                    scan(path.read_bytes())
                except ScanError as e:
                    J.v("sigkill-after-recovery:file-not-a-clean-record-sequence", where=where, err=str(e))
            except ImportError:
                pass


def strace_crosscheck(ctx, path, start, events, via, bufsize, sess, split):
    """once per run: the system calls a child makes on the file during the same session (seen by strace, which no
    Python-level trick can get round) are the events the in-process recorder saw"""
    import pickle
    import re
    import shutil

    exe = shutil.which("strace")
    if exe is None:
        ctx.count("strace.unavailable")
        return
    jobf, outf = ctx.tmp / "strace-job.pkl", ctx.tmp / "strace.out"
    jobf.write_bytes(pickle.dumps({"path": str(path), "via": via, "bufsize": bufsize, "sess": sess, "split": split,
                                   "kill": ("none", 0)}))
    code = KILL_CHILD % {"syspath": [p for p in sys.path if p], "jobf": str(jobf)}
    try:
        p = subprocess.run([exe, "-P", str(path), "-e", "trace=write,pwrite64,writev,pwritev,pwritev2,ftruncate,truncate",
                            "-o", str(outf), sys.executable, "-c", code], capture_output=True, text=True, timeout=300)
        text = outf.read_text(errors="replace") if outf.exists() else ""
    except Exception as e:  # noqa
        ctx.count("strace.unavailable")
        ctx.note("strace-error", repr(e)[:200])
        return
    finally:
        path.write_bytes(start)
    if p.returncode != 0 or "exited with 0" not in text:
        ctx.count("strace.unavailable")
        ctx.note("strace-error", (p.stderr or text)[-300:])
        return
    seen = []
    for line in text.splitlines():
        m = re.match(r"^(?:\d+\s+)?(\w+)\((.*)\)\s+=\s+(-?\d+)", line)
        if not m or int(m.group(3)) < 0:
            continue
        name, args, ret = m.group(1), m.group(2), int(m.group(3))
        if name in ("ftruncate", "truncate"):
            seen.append(("t", int(args.rsplit(",", 1)[1])))
        elif ret > 0:
            seen.append(("w", ret))
    want = [("t", e[1]) if e[0] == "t" else ("w", len(e[2])) for e in events if e[0] == "t" or len(e[2])]
    if seen == want:
        ctx.count("strace.stream-matches-recorder")
        ctx.count("strace.syscalls-compared", len(seen))
    else:
        ctx.inconclusive.append(f"the raw-event recorder does not see what the OS sees: strace shows {seen[:12]} "
                                f"({len(seen)} calls), the recorder {want[:12]} ({len(want)} events)")


def recover_split(path, sess, via, bufsize, split, on_split):
    try:
        write_session(path, sess, via, bufsize, split=split, on_split=on_split)
    except Exception as e:  # noqa
        return e
    return None
