"""
C03 -- a crash while appending never damages committed records or shows a torn one.

Monitor shape: fault (crash-point) enumeration with a recovery oracle.
  * the byte stream of an append session is recorded (raw-write monitor proves it is a contiguous ascending
    append, so "process dies at any byte" == "any prefix of the stream is on disk");
  * every prefix (exhaustive; strided inside very large values in the quick tier) is materialised as a crash
    image, reopened through UKVFile and Collection, judged, then taken through a recovery history (reopen 'a',
    re-put the lost keys and fresh ones, close, reopen 'r', independent raw scan) and a second crash inside the
    recovery session;
  * real SIGKILLs of a child process at chosen raw writes are judged by the same oracle.
"""
from __future__ import annotations

import os
import signal
import subprocess
import sys

ID = "C03"
LEVEL = "fault_enumeration"
RULE = ("sessions of 1..6 puts (key sizes 0/1/17/255, value sizes 0/1/100/8191/8192/8193/70000) through UKVFile('a') and "
        "through Collection.writing() with bufsize in {-1,0,4096,1e6}, on files with 0..3 committed records; crash points: "
        "every byte prefix of the session's byte stream (exhaustive; stride-with-edges inside values > 300 bytes in the "
        "quick tier), second crash inside the recovery session (edges + seeded offsets), real SIGKILL at the n-th raw "
        "write; non-trivial = the cut lands strictly inside a record; distinct by (session shape, record, region, "
        "offset class)")
ASSUMPTIONS = [
    "a process death leaves a prefix of the bytes handed to the OS; the raw-write monitor checks on every session that the "
    "stream is a contiguous ascending append (power loss / reordering by the storage stack is outside the claim)",
    "a record of the interrupted session may be absent even if all its bytes reached the disk (the statement allows "
    "'completely or not at all')",
]
REQUIRED = {"image.judged": 2000, "image.cut-in-header": 100, "image.cut-in-key": 100, "image.cut-in-key-inside-character": 50, "image.cut-in-value": 500,
            "recovery.judged": 1000, "second-crash.judged": 200, "rawwrite.sessions": 20, "sigkill.judged": 8,
            "image.via-collection": 500, "same-object.judged": 1000}
CHUNK_TIMEOUT = 1200
TECHNIQUE = "runtime monitoring: crash-point enumeration over the recorded append byte stream + recovery oracle + real SIGKILL"
LEVEL_TEXT = ("Every byte prefix of the recorded byte stream of real append sessions is turned into a crash image and the real "
              "readers/writers are run on it (reopen, recovery appends, second crash); additionally real SIGKILLed writer "
              "processes are judged. Exhaustive over the crash points of the sessions generated, not over all sessions.")
LEVEL_NOTE = ("Trusted: vmon/models/kvmap.py scanner; the prefix model of a crash, justified per session by the raw-write "
              "monitor (contiguous ascending appends).")

KEYSIZES = [1, 17, 255]
VALSIZES = [0, 1, 100, 8191, 8192, 8193, 70000]


def plan(tier, seed):
    specs = []
    n = 40 if tier == "quick" else 128
    for i in range(n):
        # thorough: every byte offset of every record up to 8193-byte values; 70 kB values every byte in one chunk of 8
        specs.append({"kind": "prefix", "chunk": i, "via": ["ukv", "coll"][i % 2],
                      "bufsize": [-1, 0, 4096, 10**6][(i // 2) % 4],
                      "full": 0 if tier == "quick" else (70000 if i % 8 == 7 else 9000)})
    nk = 8 if tier == "quick" else 64
    for i in range(nk):
        specs.append({"kind": "sigkill", "chunk": i, "n": 3 if tier == "quick" else 6})
    return specs


def make_session(rng, big_ok=True):
    """-> (committed records, session records); keys unique"""
    empty_key_at = rng.randrange(0, 14)        # in about half of the sessions one record has the (legal) empty key

    nonascii = rng.random() < 0.35             # keys are text: a crash may fall inside a multi-byte character

    def key(i, tag):
        if i == empty_key_at:
            return b""
        ks = rng.choice(KEYSIZES)
        if ks == 1:
            return bytes([(65 if tag == "p" else 97) + i])
        base = f"{tag}{i}-".encode()
        if nonascii:
            pool = "\u03b1\u03b2\u2212\u952e\u00fc\u00e9\u2192\U0001F600"
            out, j = base, 0
            while True:
                ch = pool[(i * 3 + j) % len(pool)].encode()
                if len(out) + len(ch) > ks:
                    return out
                out, j = out + ch, j + 1
        return (base + bytes(65 + (i * 7 + j) % 26 for j in range(ks)))[:ks]

    def val(size, salt):
        # self-describing, non-periodic content so that shifted / zero-padded data is visible
        return bytes(((j * 131 + salt * 17 + (j >> 8)) % 251) + 1 for j in range(size))

    ncommit = rng.randrange(0, 4)
    nsess = rng.randrange(1, 7)
    committed, sess = [], []
    used = set()
    salt = rng.randrange(1000)
    bigs = 0
    for i in range(ncommit + nsess):
        tag = "p" if i < ncommit else "s"
        k = key(i, tag)
        used.add(k)
        size = rng.choice(VALSIZES if big_ok and bigs < 1 else VALSIZES[:-1])
        if k == b"" and rng.random() < 0.5:
            size = 0                            # ... and sometimes an empty value as well: a record of five zero bytes
        if size == 70000:
            bigs += 1
        (committed if i < ncommit else sess).append((k, val(size, salt + i)))
    return committed, sess


class RawRecorder:
    """records raw writes reaching the OS file for one path (wrapping pathlib.Path.open for that path only)"""

    def __init__(self, path):
        self.path = os.fspath(path)
        self.writes = []      # (offset, nbytes)
        self.truncs = []
        self._orig = None

    def __enter__(self):
        import io
        import pathlib

        rec = self

        class RawIO(io.FileIO):
            def write(self, b):
                off = self.tell()
                n = super().write(b)
                rec.writes.append((off, n if n is not None else len(b)))
                return n

            def truncate(self, size=None):
                rec.truncs.append(self.tell() if size is None else size)
                return super().truncate(size)

        self._orig = pathlib.Path.open

        def patched(p, mode="r", *a, **kw):
            if os.fspath(p) == rec.path and "b" in mode and ("+" in mode or "w" in mode or "a" in mode):
                raw = RawIO(os.fspath(p), mode.replace("b", ""))
                return io.BufferedRandom(raw) if "+" in mode else io.BufferedWriter(raw)
            return rec._orig(p, mode, *a, **kw)

        pathlib.Path.open = patched
        return self

    def __exit__(self, *a):
        import pathlib

        pathlib.Path.open = self._orig


def write_session(path, sess, via, bufsize):
    """run the append session on the real code"""
    if via == "ukv":
        from molli.storage.ukvfile import UKVFile

        f = UKVFile(path, mode="a")
        for k, v in sess:
            f.put(k, v)
        f.close()
    else:
        from molli.storage import Collection, UkvCollectionBackend

        c = Collection(path, UkvCollectionBackend, readonly=False, bufsize=bufsize)
        with c.writing():
            for k, v in sess:
                c[k.decode("utf-8")] = v


def run_chunk(spec, ctx):
    if spec["kind"] == "prefix":
        run_prefix(spec, ctx)
    else:
        run_sigkill(spec, ctx)


def offsets_for(before_len, sess, full):
    """crash offsets with their (record index, region) class"""
    out = []
    pos = before_len
    for i, (k, v) in enumerate(sess):
        hdr_end = pos + 5
        key_end = hdr_end + len(k)
        val_end = key_end + len(v)
        total = val_end - pos
        for off in range(pos, val_end + 1):
            w = off - pos
            if w == 0 or w == total:
                region = "boundary"
            elif w < 5:
                region = "header"
            elif w < 5 + len(k):
                region = "key"
                if (k[w - 5] & 0xC0) == 0x80:
                    region = "key-inside-character"     # the cut leaves a partial multi-byte character
            else:
                region = "value"
            if region == "value" and len(v) > max(300, full):
                rel = off - key_end
                if not (rel < 12 or len(v) - rel < 12 or rel % 211 == 0 or off % 8192 < 3 or off % 8192 > 8189):
                    continue
            out.append((off, i, region))
        pos = val_end
    # de-duplicate boundaries shared by neighbours
    seen, res = set(), []
    for o in out:
        if o[0] not in seen:
            seen.add(o[0])
            res.append(o)
    return res


class Judge:
    def __init__(self, ctx, case, shape):
        self.ctx, self.case, self.shape = ctx, case, shape

    def v(self, key, **detail):
        self.ctx.violation(key, case=self.case, shape=self.shape, **detail)

    def read_image(self, path, via):
        """-> dict key->value as shown by the real reader, or None after reporting"""
        if via == "ukv":
            from molli.storage.ukvfile import UKVFile

            try:
                f = UKVFile(path, mode="r")
            except Exception as e:  # noqa
                self.v(f"reopen-r-raises:{type(e).__name__}", err=repr(e)[:200])
                return None
            try:
                shown = {}
                for k in list(f.keys()):
                    try:
                        shown[k] = f.get(k)
                    except Exception as e:  # noqa
                        shown[k] = e
                return shown
            finally:
                f.close()
        else:
            from molli.storage import Collection, UkvCollectionBackend

            self.ctx.count("image.via-collection")
            try:
                c = Collection(path, UkvCollectionBackend, readonly=True)
                shown = {}
                with c.reading():
                    for k in list(c.keys()):
                        try:
                            shown[k.encode("utf-8")] = c[k]
                        except Exception as e:  # noqa
                            shown[k.encode("utf-8")] = e
                return shown
            except Exception as e:  # noqa
                self.v(f"reopen-r-raises:{type(e).__name__}", err=repr(e)[:200])
                return None

    def judge(self, shown, committed, maybe, stage, where):
        """committed: dict that must be shown exactly; maybe: dict of records that are absent or exact.
        -> set of `maybe` keys that are present"""
        present = set()
        for k, v in committed.items():
            got = shown.get(k, None)
            if k not in shown:
                self.v(f"{stage}:committed-record-missing", where=where, klen=len(k))
            elif isinstance(got, Exception):
                self.v(f"{stage}:committed-record-unreadable:{type(got).__name__}", where=where, klen=len(k))
            elif got != v:
                self.v(f"{stage}:committed-record-altered", where=where, klen=len(k), got_len=len(got), want_len=len(v))
        for k, v in maybe.items():
            if k not in shown:
                continue
            got = shown[k]
            if isinstance(got, Exception):
                self.v(f"{stage}:torn-record-listed-unreadable:{type(got).__name__}", where=where, klen=len(k))
            elif got == v:
                present.add(k)
            elif len(got) < len(v) and v.startswith(got):
                self.v(f"{stage}:torn-record-truncated-value", where=where, got_len=len(got), want_len=len(v))
            elif len(got) == len(v) and got.rstrip(b"\0") != got and v.startswith(got.rstrip(b"\0")):
                self.v(f"{stage}:torn-record-zero-padded-value", where=where, want_len=len(v),
                       zeros=len(got) - len(got.rstrip(b"\0")))
            else:
                self.v(f"{stage}:interrupted-record-wrong-value", where=where, got_len=len(got), want_len=len(v))
        for k in shown:
            if k not in committed and k not in maybe:
                partial = any(mk.startswith(k) for mk in maybe)
                self.v(f"{stage}:{'partial-key' if partial else 'unknown-key'}-listed", where=where, klen=len(k))
        return present


def same_object_history(J, ctx, path, image, via, bufsize, cdict, sdict, where):
    """reopen 'a' (no put), reopen 'r', reopen 'a' + put, reopen 'r' -- all on one UKVFile / Collection object"""
    path.write_bytes(image)
    ctx.count("same-object.judged")
    fresh_k, fresh_v = b"same-object-fresh", b"S" * 7
    try:
        if via == "ukv":
            from molli.storage.ukvfile import UKVFile

            f = UKVFile(path, mode="a")
            f.close()
            f.open("r")
            shown = {k: f.get(k) for k in list(f.keys())}
            f.close()
            present = J.judge(shown, cdict, sdict, "same-object-reopen", where)
            f.open("a")
            f.put(fresh_k, fresh_v)
            f.close()
            f.open("r")
            shown = {k: f.get(k) for k in list(f.keys())}
            f.close()
        else:
            from molli.storage import Collection, UkvCollectionBackend

            c = Collection(path, UkvCollectionBackend, readonly=False, bufsize=bufsize)
            with c.writing():
                pass
            with c.reading():
                shown = {k.encode("utf-8"): c[k] for k in list(c.keys())}
            present = J.judge(shown, cdict, sdict, "same-object-reopen", where)
            with c.writing():
                c[fresh_k.decode()] = fresh_v
            with c.reading():
                shown = {k.encode("utf-8"): c[k] for k in list(c.keys())}
    except Exception as e:  # noqa
        J.v(f"same-object-history:raises:{type(e).__name__}", where=where, err=repr(e)[:200])
        return
    must = dict(cdict)
    must.update({k: sdict[k] for k in present})
    must[fresh_k] = fresh_v
    J.judge(shown, must, {}, "same-object-after-recovery", where)


def recover(path, via, bufsize, puts):
    """recovery session on the real code; -> None or the exception"""
    try:
        write_session(path, puts, via, bufsize)
    except Exception as e:  # noqa
        return e
    return None


def run_prefix(spec, ctx):
    from vmon.models.kvmap import scan, ScanError

    via, bufsize = spec["via"], spec["bufsize"]
    case = ("prefix", spec["chunk"])
    if not ctx.want(case):
        return
    rng = ctx.rng(*case)
    committed, sess = make_session(rng)
    path = ctx.tmp / "lib.ukv"
    from molli.storage.ukvfile import UKVFile

    f = UKVFile(path, mode="w", h2=b"crash test", b0=b"\x01\x02")
    for k, v in committed:
        f.put(k, v)
    f.close()
    before = path.read_bytes()
    with RawRecorder(path) as rec:
        write_session(path, sess, via, bufsize)
    after = path.read_bytes()
    shape = {"via": via, "bufsize": bufsize, "committed": [(len(k), len(v)) for k, v in committed],
             "session": [(len(k), len(v)) for k, v in sess]}
    J = Judge(ctx, case, shape)

    # ---- raw-write monitor: contiguous ascending append above the committed prefix
    ctx.count("rawwrite.sessions")
    ctx.count("rawwrite.writes", len(rec.writes))
    pos = len(before)
    for off, n in rec.writes:
        if off < len(before):
            J.v("rawwrite:touches-committed-region", off=off, committed_end=len(before))
            break
        if off != pos:
            J.v("rawwrite:not-contiguous", off=off, expected=pos)
            break
        pos += n
    if after[:len(before)] != before:
        J.v("session:committed-prefix-changed")
    try:
        _, _, _, recs, _ = scan(after)
        if [(k, v) for k, v, _ in recs] != committed + sess:
            J.v("session:clean-session-records-differ")
    except ScanError as e:
        J.v("session:clean-session-file-not-clean", err=str(e))

    cdict, sdict = dict(committed), dict(sess)
    img = ctx.tmp / "img.ukv"
    offs = offsets_for(len(before), sess, spec["full"])
    rec_sample = 0
    for off, ri, region in offs:
        img.write_bytes(after[:off])
        where = {"offset": off, "record": ri, "region": region, "rel": off - len(before)}
        shown = J.read_image(img, via)
        ctx.count("image.judged")
        if region != "boundary":
            ctx.count(f"image.cut-in-{region}")
        oc = "edge" if region == "boundary" else region
        ctx.case(case + (off,), dkey=(repr(shape), ri, region, min(off - len(before), 3)), nontrivial=region != "boundary",
                 sample={"shape": shape, "cut": where} if off == offs[len(offs) // 2][0] else None)
        if shown is None:
            continue
        present = J.judge(shown, cdict, sdict, "reopen", where)
        # a record whose bytes are not all on disk cannot be present
        # ---- recovery history: reopen 'a', re-put what was lost with a NEW value, add fresh records
        lost = [(k, b"again:" + v[:50]) for k, v in sess if k not in present]
        fresh = [(b"fresh-1", b"F" * 10), (b"fresh-2", b"")]
        err = recover(img, via, bufsize, lost + fresh)
        ctx.count("recovery.judged")
        if err is not None:
            J.v(f"recovery:append-after-crash-raises:{type(err).__name__}", where=where, err=repr(err)[:200])
            continue
        rec_after = img.read_bytes()
        shown2 = J.read_image(img, via)
        if shown2 is None:
            continue
        must = dict(cdict)
        must.update({k: sdict[k] for k in present})
        must.update(dict(lost))
        must.update(dict(fresh))
        J.judge(shown2, must, {}, "after-recovery", where)
        try:
            scan(rec_after)
        except ScanError as e:
            J.v("after-recovery:file-not-a-clean-record-sequence", where=where, err=str(e))
        # ---- the same recovery through ONE long-lived object that is reopened again and again
        same_object_history(J, ctx, ctx.tmp / "img2.ukv", after[:off], via, bufsize, cdict, sdict, where)
        # ---- second crash inside the recovery session
        clean_end = len(rec_after) - sum(5 + len(k) + len(v) for k, v in lost + fresh)
        span = len(rec_after) - clean_end
        picks = {clean_end + 1, clean_end + 4, clean_end + 5, clean_end + 6, len(rec_after) - 1,
                 clean_end + (off * 7919) % max(span, 1)}
        for off2 in sorted(p for p in picks if clean_end < p < len(rec_after)):
            rec_sample += 1
            if rec_sample % 3:
                continue
            img.write_bytes(rec_after[:off2])
            shown3 = J.read_image(img, via)
            ctx.count("second-crash.judged")
            if shown3 is None:
                continue
            must2 = dict(cdict)
            must2.update({k: sdict[k] for k in present})
            J.judge(shown3, must2, dict(lost + fresh), "second-crash", {**where, "offset2": off2 - clean_end})
            err = recover(img, via, bufsize, [(b"final", b"z" * 3)])
            if err is not None:
                J.v(f"second-crash:append-raises:{type(err).__name__}", where=where)
                continue
            shown4 = J.read_image(img, via)
            if shown4 is not None:
                J.judge(shown4, {**must2, b"final": b"zzz"}, dict(lost + fresh), "after-second-recovery", where)
                try:
                    scan(img.read_bytes())
                except ScanError as e:
                    J.v("after-second-recovery:file-not-a-clean-record-sequence", where=where, err=str(e))


KILL_CHILD = r"""
import os, sys, signal, pickle, io, pathlib
sys.path[:0] = %(syspath)r
from vmon.props.C03 import RawRecorder, write_session
path, via, bufsize, kill_at = %(path)r, %(via)r, %(bufsize)r, %(kill_at)r
sess = pickle.load(open(%(sessf)r, 'rb'))
rec = RawRecorder(path)
orig_append = rec.writes.append
class L(list):
    def append(self, x):
        list.append(self, x)
        if len(self) == kill_at:
            os.kill(os.getpid(), signal.SIGKILL)
rec.writes = L()
with rec:
    write_session(path, sess, via, bufsize)
"""


def run_sigkill(spec, ctx):
    import pickle
    from molli.storage.ukvfile import UKVFile

    for j in range(spec["n"]):
        case = ("sigkill", spec["chunk"], j)
        if not ctx.want(case):
            continue
        rng = ctx.rng(*case)
        committed, sess = make_session(rng)
        via = rng.choice(["ukv", "coll"])
        bufsize = rng.choice([-1, 0, 4096, 10**6])
        path = ctx.tmp / f"k{j}.ukv"
        f = UKVFile(path, mode="w")
        for k, v in committed:
            f.put(k, v)
        f.close()
        before = path.read_bytes()
        sessf = ctx.tmp / f"sess{j}.pkl"
        sessf.write_bytes(pickle.dumps(sess))
        kill_at = rng.randrange(1, 6)
        code = KILL_CHILD % {"syspath": [p for p in sys.path if p], "path": str(path), "via": via, "bufsize": bufsize,
                             "kill_at": kill_at, "sessf": str(sessf)}
        p = subprocess.run([sys.executable, "-c", code], capture_output=True, text=True, timeout=120)
        killed = p.returncode == -signal.SIGKILL
        if not killed and p.returncode != 0:
            ctx.inconclusive.append(f"sigkill child failed rc={p.returncode}: {p.stderr[-400:]}")
            continue
        shape = {"via": via, "bufsize": bufsize, "kill_at_raw_write": kill_at, "killed": killed,
                 "committed": [(len(k), len(v)) for k, v in committed], "session": [(len(k), len(v)) for k, v in sess]}
        J = Judge(ctx, case, shape)
        disk = path.read_bytes()
        where = {"disk_len": len(disk), "before_len": len(before)}
        ctx.case(case, dkey=repr(shape), nontrivial=killed and len(disk) > len(before), sample=shape)
        shown = J.read_image(path, via)
        ctx.count("sigkill.judged")
        if killed:
            ctx.count("sigkill.really-killed")
        if shown is None:
            continue
        present = J.judge(shown, dict(committed), dict(sess), "sigkill-reopen", where)
        lost = [(k, b"again") for k, v in sess if k not in present]
        err = recover(path, via, bufsize, lost + [(b"fresh", b"f")])
        if err is not None:
            J.v(f"sigkill-recovery:append-raises:{type(err).__name__}", where=where, err=repr(err)[:200])
            continue
        shown2 = J.read_image(path, via)
        if shown2 is not None:
            must = dict(committed)
            must.update({k: dict(sess)[k] for k in present})
            must.update(dict(lost))
            must[b"fresh"] = b"f"
            J.judge(shown2, must, {}, "sigkill-after-recovery", where)
