"""
C14 -- a conformer ensemble stays rectangular and its conformers are live views.

Monitor shape: executable reference model (three numpy arrays coords[nc,na,3], charges[nc,na], weights[nc]) stepped
beside the real ConformerEnsemble over random operation histories; quiescent-point inspection after every operation;
iteration patterns checked against "each conformer exactly once, in order, per loop".
"""
from __future__ import annotations

ID = "C14"
LEVEL = "exploration"
RULE = ("seeded random histories (length <= 25) over {construct from molecule (n_conformers + setters / n_conformers + keywords / "
        "no n_conformers) / list of molecules / ensemble / atoms+n_conformers, with full-shape or broadcastable (one geometry, one "
        "charge vector, one weight) values, preceded now and then by a construction with a wrong-length keyword; "
        "append (Molecule, Structure, CartesianGeometry, Conformer), extend (list, ensemble; also into an ensemble without "
        "conformers), ensemble-level assignment of coords / atomic_charges / weights (full, broadcastable, wrong length), scale, "
        "invert, translate (1-D, per-conformer 2-D), rotate (one matrix, one matrix per conformer), translate / rotate with a "
        "number of vectors / matrices that does not fit, center_at_atom, center_at_core, write through a conformer (coords[j]=v, "
        "coords=M, coords+=v, translate, scale, atomic_charges[j]=q, attrib[k]=v, connect), attempted assignment of name / charge / mult / "
        "attrib through a conformer, edits of the ensemble itself (name, charge, mult, a new attrib object, connect, del_bond, "
        "connect_like) with conformers taken BEFORE the edit compared afterwards (fields, mol2 / xyz text), the inherited read "
        "accessors of a molecule called on a conformer (coords_as_list, get_atom_coord, centroid, distance, coord_subset, "
        "substructure, heavy, formula, Molecule / Structure / CartesianGeometry(conformer)), append / extend of a geometry into an "
        "ensemble that has no atoms, in-place edits of what the ensemble was "
        "constructed from / grown with, iterate (list, nested, zip, abandoned+fresh, three levels, while growing), slice, negative "
        "index, dump every conformer and the whole ensemble (mol2, xyz; string and stream forms), store conformers in a "
        "MoleculeLibrary and the ensemble in a ConformerLibrary, pickle / deepcopy conformers and the ensemble, continue the "
        "history on the stored-and-read / unpickled / deep-copied / copy-constructed ensemble}. "
        "non-trivial = the history grows the ensemble and afterwards reads, dumps, serialises or iterates; distinct by "
        "operation-kind string")
ASSUMPTIONS = [
    "`conformer.atomic_charges = array` (attribute assignment) may raise; a raising write must change nothing",
    "appended geometries must have the ensemble's atom count; a geometry without partial charges contributes zeros, a new "
    "conformer gets weight 1.0 (the constructor's default)",
    "arithmetic operations are compared with the same numpy operation at 1e-12 relative; data-moving ones bit-exactly",
    "a constructor keyword / ensemble-level assignment with fewer dimensions than the block (one geometry, one charge vector, one "
    "weight) either is refused or applies to every conformer (numpy broadcasting, the fill semantics of the setters); a refused "
    "one changes nothing; only accepted ones count towards REQUIRED",
    "a value / transformation argument whose conformer or atom count cannot fit (k != 1, k != n) may be refused or accepted, but "
    "the three arrays must keep describing the same conformers and atoms; a refused one changes nothing",
    "ConformerEnsemble(molecule) without n_conformers has one conformer; its initial values are not fixed by the property "
    "(unset or the molecule's own are both accepted) and are assigned right away",
    "while a loop is running and the ensemble grows, the loop must visit conformers 0..k-1 in order, once each, with k between "
    "the number of conformers at the start and at the end (both a list-like and a snapshot iteration satisfy the statement)",
    "an assignment `conformer.name / charge / mult / attrib = v` may raise (then nothing changes) or must show in the ensemble",
    "an ensemble without atoms either refuses a geometry that has atoms or ends up with n_atoms and the three arrays in agreement, "
    "and its rows do not alias the geometry that was appended",
    "a ConformerLibrary round trip may round to float32 (1.2e-7 relative); when the history continues on the read-back ensemble "
    "the model adopts the stored values",
]
REQUIRED = {"op.append": 200, "op.extend": 100, "op.iterate.nested": 100, "op.iterate.zip": 50, "op.iterate.abandoned": 50,
            "op.write-through": 200, "op.dump": 100, "op.serialise": 50, "inspect": 3000, "view.checked": 3000,
            "op.slice": 50, "view.held-checked": 300, "op.grow-refused": 30, "source.checked": 300, "op.write-through.held": 30, "construct.list": 20, "construct.molecule": 20, "construct.ensemble": 20, "construct.atoms": 20,
            "bystander.checked": 300, "op.grow-from-itself": 30, "op.edit-constructor-source": 30,
            # gap review (second round)
            "construct.molecule-default": 20, "construct.molecule-kw": 20, "construct.broadcast": 30,
            "construct.wrong-length-attempt": 30, "raw.checked": 3000, "op.assign.full": 30, "op.assign.broadcast": 50,
            "op.assign.wrong-length": 30, "op.transform-refused": 50, "op.transform-refused.single-conformer": 10,
            "op.rotate.stack": 30, "op.edit-growth-source": 100, "op.extend.ensemble-into-empty": 5, "source.ensemble-checked": 500,
            "op.iterate.growing": 50, "dump.ensemble-xyz": 100, "dump.ensemble-mol2-charges": 100,
            "op.serialise.conformer-pickled": 100, "op.serialise.ensemble-pickled": 50, "op.continue-on-copy": 50,
            "op.continue-on-copy.library": 10, "op.continue-on-copy.pickle": 10, "op.continue-on-copy.deepcopy": 10,
            "op.continue-on-copy.constructor": 10, "op.write-through.attrib": 30, "op.write-through.mutator": 50,
            "view.attrib-checked": 3000,
            # gap review (third round)
            "op.edit-ensemble": 300, "op.edit-ensemble.name": 30, "op.edit-ensemble.charge-mult": 30,
            "op.edit-ensemble.attrib-object": 30, "op.edit-ensemble.connect": 30, "op.edit-ensemble.connect_like": 30,
            "op.edit-ensemble.del_bond": 20, "view.held-fields-checked": 2000, "view.held-after-edit-checked": 300,
            "view.held-text-checked": 300, "op.write-through.view-setattr": 100, "op.write-through.view-connect": 15,
            "view.full-read": 3000, "view.full-read.held": 500, "op.grow-atomless": 100}
# violation keys that the UNCHANGED tree produces (genuine defects written up in tools/findings/C14-ext.json)
KNOWN_ON_UNCHANGED_TREE = set()      # (repaired in the library: ac5dec7)
import os as _os
if _os.environ.get("VERIF_C14_JUDGE_KNOWN"):     # (to verify a repaired tree: report these as well)
    KNOWN_ON_UNCHANGED_TREE = set()
CHUNK_TIMEOUT = 900
TECHNIQUE = "runtime monitoring: rectangular-array reference model stepped beside the real ensemble + iteration-pattern oracle"
LEVEL_TEXT = ("Held on the operation histories produced: after every operation the ensemble's three arrays, every conformer view "
              "and (periodically) dumps / library round trips are compared with an independent array model.")
LEVEL_NOTE = "Trusted: numpy; vmon/snap.py for the library round trip comparison."


def plan(tier, seed):
    n = 48 if tier == "quick" else 320
    per = 30 if tier == "quick" else 80
    return [{"chunk": i, "n": per} for i in range(n)]


class Model:
    def __init__(self, coords, charges, weights):
        import numpy as np

        self.coords = np.array(coords, dtype=float)
        self.charges = np.array(charges, dtype=float)
        self.weights = np.array(weights, dtype=float)
        self.attrib = {}
        self.name, self.charge, self.mult = None, None, None
        self.bonds = []         # (index of a1, index of a2) in the order of the ensemble's bond list

    @property
    def nc(self):
        return self.coords.shape[0]

    @property
    def na(self):
        return self.coords.shape[1]


def base_molecule(rng):
    import numpy as np
    from vmon import gen

    n = rng.choice([1, 2, 3, 5, 9, 17])
    m = gen.molecule(rng, n_atoms=n, rich=False, labels=["a", "b1", "C"], special=0.0, name=rng.choice(["ens", "e-2", "Zz"]),
                     elements=["C", "N", "O", "H", "S", "Cl", "Fe"], charges=False)
    m.coords = np.array([[rng.uniform(-6, 6) for _ in range(3)] for _ in range(n)])
    m.atomic_charges = np.array([rng.choice([0.0, 0.25, -0.5, rng.uniform(-1, 1)]) for _ in range(n)])
    return m


def rectangular(e):
    """(shapes of the three arrays, True when they describe the same number of conformers and atoms)"""
    import numpy as np

    sh = (np.shape(e.coords), np.shape(e.atomic_charges), np.shape(e.weights))
    ok = len(sh[0]) == 3 and sh[0][2] == 3 and sh[1] == sh[0][:2] and sh[2] == sh[0][:1] and e.n_conformers == sh[0][0] and e.n_atoms == sh[0][1]
    return sh, ok


def construct(rng, ctx, case=None):
    """-> (ensemble, model, base molecule, route, bystander objects, raw arrays handed over)"""
    import numpy as np
    import molli as ml

    base = base_molecule(rng)
    na = base.n_atoms
    by = []     # objects the ensemble was constructed from: (object, coords, charges, weights) that must stay what they are
    raw = []    # (array handed to a constructor / setter, copy of it): stays the caller's
    route = rng.choice(["molecule", "molecule-default", "molecule-kw", "list", "ensemble", "atoms"])
    ctx.count(f"construct.{route}")
    nc = rng.choice([1, 2, 3, 5])
    cs = np.array([[[rng.uniform(-6, 6) for _ in range(3)] for _ in range(na)] for _ in range(nc)])
    qs = np.array([[rng.uniform(-1, 1) for _ in range(na)] for _ in range(nc)])
    ws = np.array([rng.choice([1.0, 0.5, 0.25]) for _ in range(nc)])
    base_keep = (base, np.array(base.coords), np.array(base.atomic_charges), None)

    # values as they are handed over: full blocks, or (now and then) ONE geometry / charge vector / weight for all conformers
    gc, gq, gw = cs, qs, ws
    if route in ("molecule", "molecule-kw", "atoms") and rng.random() < 0.45:
        which = [k for k in ("coords", "atomic_charges", "weights") if rng.random() < 0.6] or ["weights"]
        if "coords" in which:
            gc = np.array(cs[0])
        if "atomic_charges" in which:
            gq = rng.choice([np.array(qs[0]), float(qs[0][0])])
        if "weights" in which:
            gw = rng.choice([float(ws[0]), [float(ws[0])]])
        broadcast = True
    else:
        broadcast = False

    def handed(*arrs):
        for a in arrs:
            if isinstance(a, np.ndarray):
                raw.append((a, np.array(a)))

    if route in ("molecule-kw", "atoms") and rng.random() < 0.35:
        # a keyword that describes another number of conformers / atoms: refused, or at least a rectangular result
        which = rng.choice(["coords", "coords-atoms", "atomic_charges", "atomic_charges-atoms", "weights", "weights-more"])
        kw = {"coords": cs, "atomic_charges": qs, "weights": ws}
        kw[which.split("-")[0]] = {"coords": np.zeros((nc + 1, na, 3)), "coords-atoms": np.zeros((nc, na + 1, 3)),
                                   "atomic_charges": np.zeros((nc + 1, na)), "atomic_charges-atoms": np.zeros((nc, na + 1)),
                                   "weights": np.ones(nc + 1), "weights-more": np.ones(nc + 3)}[which]
        ctx.count("construct.wrong-length-attempt")
        try:
            if route == "atoms":
                x = ml.ConformerEnsemble(base.atoms, n_conformers=nc, name=base.name, copy_atoms=True, **kw)
            else:
                x = ml.ConformerEnsemble(base, n_conformers=nc, **kw)
        except Exception:  # noqa
            ctx.count("construct.wrong-length-refused")
        else:
            sh, ok = rectangular(x)
            if not ok or x.n_atoms != na:
                ctx.violation(f"construct:{route}:wrong-length-{which.split('-')[0]}-keyword-accepted-and-arrays-not-rectangular", case=case,
                              got=[list(t) for t in sh], n_conformers=nc, n_atoms=na, keyword=which)

    def build(gc, gq, gw):
        if route == "molecule":
            e = ml.ConformerEnsemble(base, n_conformers=nc)
            e.coords, e.atomic_charges, e.weights = gc, gq, gw
        elif route == "molecule-kw":
            e = ml.ConformerEnsemble(base, n_conformers=nc, coords=gc, atomic_charges=gq, weights=gw)
        else:
            e = ml.ConformerEnsemble(base.atoms, n_conformers=nc, name=base.name, copy_atoms=True,
                                     coords=gc if nc else None, atomic_charges=gq if nc else None, weights=gw if nc else None)
            for b in base.bonds:
                e.connect(base.atoms.index(b.a1), base.atoms.index(b.a2), btype=b.btype)
        return e

    if route in ("molecule", "molecule-kw", "atoms"):
        if route == "atoms" and rng.random() < 0.3:
            nc = 0
            cs, qs, ws = cs[:0], qs[:0], ws[:0]
            gc, gq, gw = cs, qs, ws
            broadcast = False
        try:
            e = build(gc, gq, gw)
        except Exception:  # noqa
            if not broadcast:
                raise
            # broadcastable values are refused by this library version: legitimate, fall back to full blocks
            ctx.count("construct.broadcast-refused")
            broadcast = False
            gc, gq, gw = cs, qs, ws
            e = build(gc, gq, gw)
        if nc:
            handed(gc, gq, gw)
        if route != "atoms":
            by = [base_keep]
    elif route == "molecule-default":
        # the plainest form: a molecule becomes an ensemble with ONE conformer
        e = ml.ConformerEnsemble(base)
        nc = 1
        cs, qs, ws = cs[:1], qs[:1], ws[:1]
        gc, gq, gw = cs, qs, ws
        by = [base_keep]
        sh, ok = rectangular(e)
        if sh != ((1, na, 3), (1, na), (1,)) or not ok:
            ctx.violation("construct:molecule-default:not-one-rectangular-conformer", case=case, got=[list(t) for t in sh], n_atoms=na)
        else:
            # its initial values are not fixed by the property; they are assigned here in one of the usual ways
            how = rng.choice(["ensemble-setters", "ensemble-setters-one-geometry", "through-the-conformer"])
            if how == "ensemble-setters":
                e.coords, e.atomic_charges, e.weights = cs, qs, ws
                handed(cs, qs, ws)
            elif how == "ensemble-setters-one-geometry":
                gc, gq = np.array(cs[0]), np.array(qs[0])
                e.coords, e.atomic_charges, e.weights = gc, gq, float(ws[0])
                handed(gc, gq)
            else:
                c = e[0]
                c.coords = cs[0]
                c.atomic_charges[:] = qs[0]
                e.weights[0] = ws[0]
    elif route == "list":
        mols = []
        for i in range(nc):
            m = ml.Molecule(base)
            m.coords = cs[i]
            m.atomic_charges = qs[i]
            mols.append(m)
        e = ml.ConformerEnsemble(mols)
        ws = np.ones(nc)
        by = [(m, np.array(m.coords), np.array(m.atomic_charges), None) for m in mols[:2]]
    elif route == "ensemble":
        e0 = ml.ConformerEnsemble(base, n_conformers=nc, coords=cs, atomic_charges=qs, weights=ws)
        handed(cs, qs, ws)
        e = ml.ConformerEnsemble(e0)
        by = [(e0, np.array(cs), np.array(qs), np.array(ws))]
    if broadcast:
        ctx.count("construct.broadcast")
    if nc:
        model = Model(np.broadcast_to(np.asarray(gc, dtype=float), (nc, na, 3)), np.broadcast_to(np.asarray(gq, dtype=float), (nc, na)),
                      np.ones(nc) if route == "list" else np.broadcast_to(np.asarray(gw, dtype=float), (nc,)))
    else:
        model = Model(cs.reshape(0, na, 3), qs.reshape(0, na), ws.reshape(0))
    return e, model, base, route, by, raw


def close(a, b, exact):
    import numpy as np

    a, b = np.asarray(a, dtype=float), np.asarray(b, dtype=float)
    if a.shape != b.shape:
        return False
    if exact:
        return bool(np.array_equal(a, b, equal_nan=True))
    return bool(np.allclose(a, b, rtol=1e-12, atol=1e-12, equal_nan=True))


def bond_pairs(x):
    """[(index of a1, index of a2)] of an ensemble / conformer / molecule, in the order of its bond list"""
    idx = {id(a): k for k, a in enumerate(x.atoms)}
    return [(idx.get(id(b.a1), -1), idx.get(id(b.a2), -1)) for b in x.bonds]


def unordered(pairs):
    return sorted(tuple(sorted(p)) for p in pairs)


def text_header_differs(t2, tx, name, na, bonds):
    """what the mol2 / xyz text of a conformer says about name, atom and bond counts, bond block -> the first thing that is not
    what the ensemble says, or None"""
    L = t2.splitlines()
    try:
        k = next(i for i, ln in enumerate(L) if ln.strip().upper() == "@<TRIPOS>MOLECULE")
        if L[k + 1].strip() != str(name).strip():
            return "mol2-name"
        cnt = L[k + 2].split()
        if int(cnt[0]) != na or int(cnt[1]) != len(bonds):
            return "mol2-atom-or-bond-count"
        kb = next(i for i, ln in enumerate(L) if ln.strip().upper() == "@<TRIPOS>BOND")
        got = []
        for ln in L[kb + 1:]:
            if ln.startswith("@"):
                break
            f = ln.split()
            if len(f) >= 3:
                got.append((int(f[1]) - 1, int(f[2]) - 1))
        if unordered(got) != unordered(bonds):
            return "mol2-bond-block"
    except (StopIteration, IndexError, ValueError):
        return "mol2-layout"
    X = tx.splitlines()
    try:
        if int(X[0].split()[0]) != na:
            return "xyz-atom-count"
        if X[1].strip() != " ".join(str(name).splitlines()).strip():
            return "xyz-name"
    except (IndexError, ValueError):
        return "xyz-layout"
    return None


def grow_atomless(rng, ctx, case, base):
    """ConformerEnsemble() has no atoms and no conformers.  Growing it with a geometry that HAS atoms is either refused or gives
    an ensemble whose n_atoms and three arrays agree; its rows never alias the geometry that was handed over."""
    import numpy as np
    import molli as ml

    def v(key, **kw):
        if key in KNOWN_ON_UNCHANGED_TREE:
            return ctx.count("known-on-unchanged-tree")
        ctx.violation(key, case=case, **kw)

    how = rng.choice(["append", "append", "extend-list", "extend-ensemble"])
    ctx.count("op.grow-atomless")
    ctx.count(f"op.grow-atomless.{how}")
    g = ml.Molecule(base)
    g.coords = np.array([[rng.uniform(-6, 6) for _ in range(3)] for _ in range(g.n_atoms)])
    c0 = np.array(g.coords)
    x = ml.ConformerEnsemble()
    try:
        if how == "append":
            x.append(g)
        elif how == "extend-list":
            x.extend([g])
        else:
            x.extend(ml.ConformerEnsemble(g, n_conformers=2))
    except Exception:  # noqa
        ctx.count("op.grow-atomless.refused")
    op = how.split("-")[0]
    sh, ok = rectangular(x)
    if not ok:
        which = "n_atoms" if (sh[1] == sh[0][:2] and sh[2] == sh[0][:1] and len(sh[0]) == 3) else "arrays"
        v(f"{op}:into-ensemble-without-atoms:accepted-and-{which}-" + ("does-not-fit-the-arrays" if which == "n_atoms" else "not-rectangular"),
          got=[list(t) for t in sh], n_atoms=x.n_atoms, how=how)
    cs = x.coords
    if np.ndim(cs) == 3 and np.shape(cs)[0] >= 1 and np.shape(cs)[1] >= 1:
        try:
            cs[0][0] = [9.0, -9.0, 9.0]
        except Exception:  # noqa
            pass
        if not close(g.coords, c0, True):
            v(f"{op}:into-ensemble-without-atoms:row-aliases-the-appended-geometry", how=how)


class Driver:
    def __init__(self, ctx, case, ens, model, base):
        self.ctx, self.case, self.e, self.m, self.base = ctx, case, ens, model, base
        self.kinds = []
        self.ok = True
        self.grown_at = None
        self.held = []          # (row, conformer object) taken earlier and kept across later operations
        self.bystanders = []    # what the ensemble was constructed from; edits on either side stay on that side
        self.sources = []       # (geometry / ensemble that was appended / extended with, copies of its coordinates, charges, weights
                                # (None where it has none)): must stay untouched, and edits of it stay with it
        self.raw = []           # (array handed to a constructor / setter, copy): stays the caller's

    def v(self, key, **detail):
        self.ok = False
        if f"{ID}:{key}" in KNOWN_ON_UNCHANGED_TREE or key in KNOWN_ON_UNCHANGED_TREE:
            return self.ctx.count("known-on-unchanged-tree")
        self.ctx.violation(key, case=self.case, history=self.kinds[-10:], shape=[self.m.nc, self.m.na], **detail)

    def inspect(self, after, exact=True):
        import numpy as np

        e, m, ctx = self.e, self.m, self.ctx
        ctx.count("inspect")
        shapes = (np.shape(e.coords), np.shape(e.atomic_charges), np.shape(e.weights))
        want = ((m.nc, m.na, 3), (m.nc, m.na), (m.nc,))
        if shapes != want:
            which = next(n for n, s, w in zip(("coords", "atomic_charges", "weights"), shapes, want) if s != w)
            return self.v(f"{after}:{which}-shape-not-rectangular", got=[list(s) for s in shapes], want=[list(w) for w in want])
        if e.n_conformers != m.nc or e.n_atoms != m.na:
            return self.v(f"{after}:n_conformers-or-n_atoms-wrong", got=[e.n_conformers, e.n_atoms])
        for name, got, wnt in (("coords", e.coords, m.coords), ("atomic_charges", e.atomic_charges, m.charges), ("weights", e.weights, m.weights)):
            if not close(got, wnt, exact):
                return self.v(f"{after}:{name}-differ-from-expected")
        # the geometries the ensemble was grown with are independent of it
        if m.attrib != dict(e.attrib):
            return self.v(f"{after}:attrib-differ-from-expected", got=sorted(map(str, e.attrib)), want=sorted(map(str, m.attrib)))
        # the ensemble's own name / charge / multiplicity / bond list are what the history made them
        try:
            own = {"name": e.name, "charge": e.charge, "mult": e.mult, "bonds": bond_pairs(e)}
        except Exception as ex:  # noqa
            return self.v(f"{after}:ensemble-fields-raise:{type(ex).__name__}", err=repr(ex)[:200])
        for f, got in own.items():
            if got != getattr(m, f):
                return self.v(f"{after}:ensemble-{f}-differ-from-expected", got=repr(got)[:80], want=repr(getattr(m, f))[:80])
        for g, c0, q0, w0 in self.sources:
            ctx.count("source.checked")
            if w0 is not None:
                ctx.count("source.ensemble-checked")
            if not close(g.coords, c0, True) or (q0 is not None and not close(g.atomic_charges, q0, True)) \
                    or (w0 is not None and not close(g.weights, w0, True)):
                return self.v(f"{after}:geometry-that-was-appended-changes-with-the-ensemble", kind=type(g).__name__)
        for a, a0 in self.raw:
            ctx.count("raw.checked")
            if not close(a, a0, True):
                return self.v(f"{after}:array-handed-to-constructor-or-setter-changes-with-the-ensemble", ndim=a.ndim)
        for o, c0, q0, w0 in self.bystanders:
            ctx.count("bystander.checked")
            if not close(o.coords, c0, True) or not close(o.atomic_charges, q0, True) or (w0 is not None and not close(o.weights, w0, True)):
                return self.v(f"{after}:object-the-ensemble-was-constructed-from-changes-with-it", kind=type(o).__name__)
        # conformers taken earlier stay live views of their row (also after the ensemble grew or moved)
        for row, c in self.held:
            ctx.count("view.held-checked")
            try:
                if not close(c.coords, m.coords[row], exact) or not close(c.atomic_charges, m.charges[row], exact):
                    return self.v(f"{after}:conformer-taken-earlier-no-longer-shows-its-row", conformer=row)
                ctx.count("view.held-fields-checked")
                stale = self.field_that_differs(c)
                if stale:
                    return self.v(f"{after}:conformer-taken-earlier-shows-another-{stale}-than-the-ensemble", conformer=row)
            except Exception as ex:  # noqa
                return self.v(f"{after}:conformer-taken-earlier-raises:{type(ex).__name__}", conformer=row, err=repr(ex)[:200])
        if self.held and m.nc:
            row, c = self.held[-1]
            ctx.count("view.full-read.held")
            if not self.full_reads(after, c, row, "conformer-taken-earlier", exact):
                return
        # every conformer is a view of its row
        for i in range(m.nc):
            ctx.count("view.checked")
            try:
                c = e[i]
                if c.n_atoms != m.na or np.shape(c.coords) != (m.na, 3) or np.shape(c.atomic_charges) != (m.na,):
                    return self.v(f"{after}:conformer-view-shape-wrong", conformer=i)
                if not close(c.coords, m.coords[i], exact) or not close(c.atomic_charges, m.charges[i], exact):
                    return self.v(f"{after}:conformer-view-shows-another-row", conformer=i)
                if any(a is not b for a, b in zip(c.atoms, e.atoms)) or len(c.bonds) != len(e.bonds) \
                        or any(a is not b for a, b in zip(c.bonds, e.bonds)) or c.n_bonds != len(m.bonds):
                    return self.v(f"{after}:conformer-view-atoms-or-bonds-differ", conformer=i)
                if c.name != e.name or c.charge != e.charge or c.mult != e.mult or c.name != m.name or c.charge != m.charge or c.mult != m.mult:
                    return self.v(f"{after}:conformer-view-name-charge-mult-differ", conformer=i)
                ctx.count("view.attrib-checked")
                if dict(c.attrib) != m.attrib:
                    return self.v(f"{after}:conformer-view-attrib-differ-from-the-ensembles", conformer=i)
            except Exception as ex:  # noqa
                return self.v(f"{after}:conformer-view-raises:{type(ex).__name__}", conformer=i, err=repr(ex)[:200])
        if m.nc:
            # a conformer is a FULL molecule view: everything a molecule answers, it answers, from its row
            i = ctx.counters.get("inspect", 0) % m.nc
            if not self.full_reads(after, e[i], i, "conformer-view", exact):
                return

    def field_that_differs(self, c):
        """name of the first ensemble-level field (name, charge, mult, attrib, bonds) a conformer shows differently from the
        ensemble / the model, or None"""
        e, m = self.e, self.m
        if c.name != m.name or c.name != e.name:
            return "name"
        if c.charge != m.charge or c.charge != e.charge:
            return "charge"
        if c.mult != m.mult or c.mult != e.mult:
            return "mult"
        if dict(c.attrib) != m.attrib:
            return "attrib"
        cb, eb = c.bonds, e.bonds
        if len(cb) != len(eb) or c.n_bonds != len(m.bonds) or any(a is not b for a, b in zip(cb, eb)):
            return "bonds"
        return None

    def full_reads(self, after, c, row, who, exact):
        """the inherited read accessors of a molecule, called on a conformer, answer from row `row`.  -> False after a violation"""
        import numpy as np
        import molli as ml

        e, m, ctx = self.e, self.m, self.ctx
        ctx.count("view.full-read")
        R, Q, na = m.coords[row], m.charges[row], m.na
        j = row % na
        sym = [a.element.symbol for a in e.atoms]
        heavy = [k for k, s_ in enumerate(sym) if s_ != "H"]

        def copied(cls, charges):
            x = cls(c)
            ok = x.n_atoms == na and close(x.coords, R, exact)
            if charges:
                ok = ok and close(x.atomic_charges, Q, exact) and x.name == m.name and x.charge == m.charge and x.mult == m.mult \
                    and dict(x.attrib) == m.attrib and unordered(bond_pairs(x)) == unordered(m.bonds)
            return ok

        reads = (
            ("coords_as_list", lambda: close(np.array(c.coords_as_list, dtype=float).reshape(-1, 3), R, exact)),
            ("get_atom_coord", lambda: close(c.get_atom_coord(j), R[j], exact) and close(c.get_atom_coord(e.atoms[na - 1]), R[na - 1], exact)),
            ("coord_subset", lambda: close(c.coord_subset([j, 0]), R[[j, 0]], exact)),
            ("centroid", lambda: close(c.centroid(), np.average(R, axis=0), False)),
            ("distance", lambda: close(c.distance(0, na - 1), np.linalg.norm(R[0] - R[na - 1]), False)),
            ("vector", lambda: close(c.vector(j, 0), R[0] - R[j], False)),
            ("substructure", lambda: close(c.substructure([j, na - 1] if j != na - 1 else [j]).coords, R[[j, na - 1] if j != na - 1 else [j]], exact)),
            ("heavy", lambda: close(np.asarray(c.heavy.coords).reshape(-1, 3), R[heavy].reshape(-1, 3), exact)),
            ("formula", lambda: c.formula == e.formula and [x.symbol for x in c.elements] == sym),
            ("n_atoms-n_bonds", lambda: c.n_atoms == na and c.n_bonds == len(m.bonds)),
            ("Molecule(conformer)", lambda: copied(ml.Molecule, True)),
            ("Structure(conformer)", lambda: copied(ml.Structure, False)),
            ("CartesianGeometry(conformer)", lambda: copied(ml.CartesianGeometry, False)),
        )
        for name, fn in reads:
            try:
                ok = fn()
            except Exception as ex:  # noqa
                self.v(f"{after}:{who}-read-accessor-raises:{name}:{type(ex).__name__}", conformer=row, err=repr(ex)[:200])
                return False
            if not ok:
                self.v(f"{after}:{who}-read-accessor-does-not-answer-from-its-row:{name}", conformer=row)
                return False
        return True

    def text_of_held(self, after):
        """mol2 / xyz text of the conformers taken earlier: name, counts, bond block and coordinates are the ensemble's"""
        import numpy as np
        import molli as ml

        m, ctx = self.m, self.ctx
        for row, c in self.held:
            ctx.count("view.held-text-checked")
            try:
                t2, tx = c.dumps_mol2(), c.dumps_xyz()
                back = ml.Molecule.loads_mol2(t2)
            except Exception as ex:  # noqa
                return self.v(f"{after}:conformer-taken-earlier-cannot-be-written:{type(ex).__name__}", conformer=row, err=repr(ex)[:200])
            bad = text_header_differs(t2, tx, m.name, m.na, m.bonds)
            if bad:
                return self.v(f"{after}:text-of-conformer-taken-earlier-differs-from-the-ensemble:{bad}", conformer=row)
            if not np.allclose(back.coords, m.coords[row], atol=1e-6, equal_nan=True):
                return self.v(f"{after}:text-of-conformer-taken-earlier-shows-another-row", conformer=row)

    def edit_ensemble(self, rng):
        """the ensemble ITSELF is edited: name, charge, multiplicity, a new attrib object, bonds added / removed / taken over
        from another molecule.  Conformers taken BEFORE the edit keep showing what the ensemble says."""
        import molli as ml

        e, m, ctx = self.e, self.m, self.ctx
        if m.nc and (not self.held or rng.random() < 0.5):
            i = rng.randrange(m.nc)
            self.held.append((i, e[i]))
            del self.held[:-4]
        what = rng.choice(["name", "charge", "mult", "charge+mult", "attrib-object", "connect", "connect", "connect_like", "connect_like", "del_bond"])
        free = [(a, b) for a in range(m.na) for b in range(a + 1, m.na) if (a, b) not in m.bonds and (b, a) not in m.bonds]
        if what == "connect" and not free:
            what = "del_bond"
        if what == "del_bond" and not m.bonds:
            what = "connect" if free else "name"
        self.kinds.append(f"edit-ensemble:{what}")
        ctx.count("op.edit-ensemble")
        ctx.count("op.edit-ensemble." + ("charge-mult" if what in ("charge", "mult", "charge+mult") else what))
        try:
            if what == "name":
                m.name = rng.choice([n for n in ("ens_b", "anion-1", "Q7", "renamed", "e.3", "Zz") if n != m.name])
                e.name = m.name
            elif what in ("charge", "mult", "charge+mult"):
                if "charge" in what:
                    m.charge = rng.choice([q for q in (-2, -1, 0, 1, 2, 3) if q != m.charge])
                    e.charge = m.charge
                if "mult" in what:
                    m.mult = rng.choice([q for q in (1, 2, 3, 4) if q != m.mult])
                    e.mult = m.mult
            elif what == "attrib-object":
                new = {rng.choice(["state", "k", "source"]): rng.choice(["anion", 1, 2.5, "crest", False])}
                if rng.random() < 0.3:
                    new = {}
                m.attrib = dict(new)
                e.attrib = new
            elif what == "connect":
                a, b = rng.choice(free)
                if rng.random() < 0.5:
                    e.connect(a, b)
                else:
                    e.connect(e.atoms[a], e.atoms[b], btype=rng.choice([ml.BondType.Single, ml.BondType.Double, ml.BondType.Aromatic]))
                m.bonds.append((a, b))
            elif what == "del_bond":
                k = rng.randrange(len(m.bonds))
                e.del_bond(e.bonds[k])
                del m.bonds[k]
            else:
                # the connectivity of another molecule with the same atoms is taken over (the bond list is replaced)
                ref = ml.Molecule(self.base)
                for _ in range(rng.choice([1, 1, 2])):
                    if ref.n_bonds and rng.random() < 0.5:
                        ref.del_bond(rng.choice(ref.bonds))
                    else:
                        fr = [(a, b) for a in range(m.na) for b in range(a + 1, m.na) if ref.lookup_bond(a, b) is None]
                        if fr:
                            ref.connect(*rng.choice(fr))
                e.connect_like(ref)
                m.bonds = bond_pairs(ref)
        except Exception as ex:  # noqa
            return self.v(f"edit-ensemble:{what}:raises:{type(ex).__name__}", err=repr(ex)[:200])
        ctx.count("view.held-after-edit-checked", len(self.held))
        self.inspect(f"edit-ensemble:{what}")
        if self.ok:
            self.text_of_held(f"edit-ensemble:{what}")

    def geometry_like(self, rng, kind):
        """a geometry with the ensemble's atoms to append / extend with"""
        import numpy as np
        import molli as ml

        na = self.m.na
        coords = np.array([[rng.uniform(-6, 6) for _ in range(3)] for _ in range(na)]).reshape(na, 3)
        q = np.array([rng.uniform(-1, 1) for _ in range(na)])
        if kind == "Molecule":
            g = ml.Molecule(self.base)
            g.coords, g.atomic_charges = coords, q
            return g, coords, q
        if kind == "Structure":
            g = ml.Structure(self.base)
            g.coords = coords
            return g, coords, np.zeros(na)
        if kind == "CartesianGeometry":
            g = ml.CartesianGeometry(self.base)
            g.coords = coords
            return g, coords, np.zeros(na)
        # a conformer of another ensemble
        other = ml.ConformerEnsemble(self.base, n_conformers=2)
        other.coords = np.array([coords, coords + 1.0])
        other.atomic_charges = np.array([q, q * 2])
        return other[0], coords, q

    def do(self, rng):
        import numpy as np
        import molli as ml

        e, m, ctx = self.e, self.m, self.ctx
        if self.bystanders and rng.random() < 0.12:
            # an in-place edit of what the ensemble was constructed from must not reach the ensemble
            k = rng.randrange(len(self.bystanders))
            o, c0, q0, w0 = self.bystanders[k]
            how = rng.choice(["translate", "coords-inplace", "charges-inplace", "weights-inplace"])
            self.kinds.append(f"edit-constructor-source:{how}")
            ctx.count("op.edit-constructor-source")
            try:
                if how == "translate":
                    o.translate([1.0, -2.0, 0.5])
                    c0 = np.array(o.coords)
                elif how == "coords-inplace":
                    o.coords[...] = o.coords * 0.5 + 1.0
                    c0 = np.array(o.coords)
                elif how == "charges-inplace":
                    o.atomic_charges[...] = o.atomic_charges - 0.25
                    q0 = np.array(o.atomic_charges)
                elif w0 is not None:
                    o.weights[...] = o.weights * 3.0
                    w0 = np.array(o.weights)
            except Exception as ex:  # noqa
                ctx.note(f"edit of constructor source raised {type(ex).__name__}")
            self.bystanders[k] = (o, c0, q0, w0)
            return self.inspect(self.kinds[-1])
        if self.sources and rng.random() < 0.07:
            # an in-place edit of a geometry / ensemble that the ensemble was grown with must not reach the ensemble
            k = rng.randrange(len(self.sources))
            g, c0, q0, w0 = self.sources[k]
            how = rng.choice(["translate", "coords-inplace", "charges-inplace", "weights-inplace"])
            self.kinds.append(f"edit-growth-source:{how}")
            ctx.count("op.edit-growth-source")
            try:
                if how == "translate":
                    g.translate([-1.5, 0.25, 2.0])
                    c0 = np.array(g.coords)
                elif how == "coords-inplace":
                    g.coords[...] = g.coords * 0.5 - 1.0
                    c0 = np.array(g.coords)
                elif how == "charges-inplace" and q0 is not None:
                    g.atomic_charges[...] = g.atomic_charges + 0.125
                    q0 = np.array(g.atomic_charges)
                elif w0 is not None:
                    g.weights[...] = g.weights * 0.5
                    w0 = np.array(g.weights)
            except Exception as ex:  # noqa
                ctx.note(f"edit of growth source raised {type(ex).__name__}")
                c0 = np.array(g.coords)
            self.sources[k] = (g, c0, q0, w0)
            return self.inspect(self.kinds[-1])
        if rng.random() < 0.08:
            return self.edit_ensemble(rng)
        if m.nc >= 1 and rng.random() < 0.07:
            return self.assign(rng)
        if m.nc >= 1 and rng.random() < (0.15 if m.nc == 1 else 0.04):
            return self.transform_refused(rng)
        r = rng.random()
        if m.nc == 0 and rng.random() < 0.6:
            r = rng.uniform(0.08, 0.26)     # an ensemble without conformers: mostly grow it (append / extend)
        exact = True
        if m.nc >= 1 and rng.random() < 0.06:
            # the ensemble grows by its own content: one of its conformers, a list / generator of them, or itself
            how = rng.choice(["append-own-conformer", "extend-own-list", "extend-own-generator", "extend-self"])
            self.kinds.append(f"grow-from-itself:{how}")
            ctx.count("op.grow-from-itself")
            try:
                if how == "append-own-conformer":
                    i = rng.randrange(m.nc)
                    e.append(e[i])
                    rows, ws = [i], [1.0]
                elif how == "extend-own-list":
                    rows = [rng.randrange(m.nc) for _ in range(rng.choice([1, 2]))]
                    e.extend([e[i] for i in rows])
                    ws = [1.0] * len(rows)
                elif how == "extend-own-generator":
                    rows = list(range(m.nc))
                    e.extend(c for c in list(e))
                    ws = [1.0] * len(rows)
                else:
                    rows = list(range(m.nc))
                    e.extend(e)
                    ws = list(m.weights)
            except Exception as ex:  # noqa
                return self.v(f"grow-from-itself:{how}:raises:{type(ex).__name__}", err=repr(ex)[:200])
            m.coords = np.concatenate([m.coords, m.coords[rows]], axis=0)
            m.charges = np.concatenate([m.charges, m.charges[rows]], axis=0)
            m.weights = np.concatenate([m.weights, ws])
            self.grown_at = len(self.kinds)
            return self.inspect(self.kinds[-1])
        try:
            if r < 0.16:
                kind = "append"
                gk = rng.choice(["Molecule", "Molecule", "Structure", "CartesianGeometry", "Conformer"])
                g, c, q = self.geometry_like(rng, gk)
                self.kinds.append(f"append:{gk}")
                ctx.count("op.append")
                e.append(g)
                self.sources.append((g, np.array(c, copy=True), np.array(q, copy=True) if hasattr(g, "atomic_charges") else None, None))
                del self.sources[:-4]
                m.coords = np.concatenate([m.coords, c[None]], axis=0)
                m.charges = np.concatenate([m.charges, q[None]], axis=0)
                m.weights = np.concatenate([m.weights, [1.0]])
                self.grown_at = len(self.kinds)
            elif r < 0.26:
                kind = "extend"
                ctx.count("op.extend")
                k = rng.choice([1, 2, 3])
                if rng.random() < 0.5:
                    gs = [self.geometry_like(rng, rng.choice(["Molecule", "Structure"])) for _ in range(k)]
                    self.kinds.append(f"extend:list{k}")
                    e.extend([g for g, _, _ in gs])
                    for g, c, q in gs:
                        self.sources.append((g, np.array(c, copy=True), np.array(q, copy=True) if hasattr(g, "atomic_charges") else None, None))
                    del self.sources[:-4]
                    m.coords = np.concatenate([m.coords] + [c[None] for _, c, _ in gs], axis=0)
                    m.charges = np.concatenate([m.charges] + [q[None] for _, _, q in gs], axis=0)
                    m.weights = np.concatenate([m.weights, np.ones(k)])
                else:
                    other = ml.ConformerEnsemble(self.base, n_conformers=k)
                    oc = np.array([[[rng.uniform(-6, 6) for _ in range(3)] for _ in range(m.na)] for _ in range(k)]).reshape(k, m.na, 3)
                    oq = np.array([[rng.uniform(-1, 1) for _ in range(m.na)] for _ in range(k)]).reshape(k, m.na)
                    ow = np.array([rng.choice([1.0, 0.5, 2.0]) for _ in range(k)])
                    other.coords, other.atomic_charges, other.weights = oc, oq, ow
                    self.kinds.append(f"extend:ensemble{k}")
                    if m.nc == 0:
                        ctx.count("op.extend.ensemble-into-empty")
                    e.extend(other)
                    # the ensemble that was extended WITH stays what it is (object + its three blocks)
                    self.sources.append((other, np.array(oc), np.array(oq), np.array(ow)))
                    del self.sources[:-4]
                    m.coords = np.concatenate([m.coords, oc], axis=0)
                    m.charges = np.concatenate([m.charges, oq], axis=0)
                    m.weights = np.concatenate([m.weights, ow])
                self.grown_at = len(self.kinds)
            elif r < 0.29 and m.na >= 1:
                # a geometry with another atom count must be refused and must leave the ensemble as it was
                kind = "grow-with-wrong-atom-count"
                ctx.count("op.grow-refused")
                wrong = ml.Molecule(["C"] * (m.na + 1), coords=np.zeros((m.na + 1, 3)))
                how = rng.choice(["append", "extend-list", "extend-generator", "extend-ensemble"])
                self.kinds.append(f"bad-{how}")
                try:
                    if how == "append":
                        e.append(wrong)
                    elif how == "extend-list":
                        g0, _, _ = self.geometry_like(rng, "Molecule")
                        e.extend([g0, wrong])
                    elif how == "extend-generator":
                        e.extend(x for x in [wrong])
                    else:
                        e.extend(ml.ConformerEnsemble(wrong, n_conformers=2))
                except Exception:  # noqa
                    pass
                # whatever the refusal did: the three arrays must still be rectangular and the old conformers untouched
                # (conformers of the valid part of a list may or may not have been added)
                cs, qs, ws = np.asarray(e.coords), np.asarray(e.atomic_charges), np.asarray(e.weights)
                n_now = cs.shape[0] if cs.ndim == 3 else -1
                if cs.shape != (n_now, m.na, 3) or qs.shape != (n_now, m.na) or ws.shape != (n_now,) or n_now < m.nc:
                    return self.v(f"bad-{how}:refused-growth-leaves-arrays-not-rectangular",
                                  got=[list(cs.shape), list(qs.shape), list(ws.shape)], want_conformers_at_least=m.nc)
                if not (close(cs[:m.nc], m.coords, True) and close(qs[:m.nc], m.charges, True) and close(ws[:m.nc], m.weights, True)):
                    return self.v(f"bad-{how}:refused-growth-alters-existing-conformers")
                m.coords, m.charges, m.weights = np.array(cs), np.array(qs), np.array(ws)
            elif r < 0.32:
                kind = "scale"
                f = rng.choice([2.0, 0.5, 1.5])
                self.kinds.append("scale")
                e.scale(f)
                m.coords = m.coords * f
                exact = False
            elif r < 0.35:
                kind = "invert"
                self.kinds.append("invert")
                e.invert()
                m.coords = -m.coords
                exact = False
            elif r < 0.43 and m.nc:
                kind = "translate"
                if rng.random() < 0.5:
                    v = np.array([rng.uniform(-3, 3) for _ in range(3)])
                    self.kinds.append("translate:1d")
                    e.translate(v)
                    m.coords = m.coords + v
                else:
                    v = np.array([[rng.uniform(-3, 3) for _ in range(3)] for _ in range(m.nc)])
                    self.kinds.append("translate:2d")
                    e.translate(v)
                    m.coords = m.coords + v[:, None, :]
                exact = False
            elif r < 0.48 and m.nc:
                kind = "rotate"
                from vmon.gen import random_rotation
                if rng.random() < 0.5:
                    R = random_rotation(rng)
                    self.kinds.append("rotate")
                    e.rotate(R)
                    m.coords = m.coords @ R
                else:
                    # one matrix per conformer (what align_to_ref_coords hands over)
                    R = np.stack([random_rotation(rng) for _ in range(m.nc)])
                    self.kinds.append("rotate:stack")
                    ctx.count("op.rotate.stack")
                    e.rotate(R)
                    m.coords = np.matmul(m.coords, R)
                exact = False
            elif r < 0.52 and m.nc:
                kind = "center_at_atom"
                j = rng.randrange(m.na)
                self.kinds.append("center_at_atom")
                e.center_at_atom(e.atoms[j])
                m.coords = m.coords - m.coords[:, j:j + 1, :]
                exact = False
            elif r < 0.56 and m.nc:
                kind = "center_at_core"
                idx = sorted(rng.sample(range(m.na), rng.randrange(1, m.na + 1)))
                self.kinds.append("center_at_core")
                e.center_at_core(idx)
                m.coords = m.coords - m.coords[:, idx, :].mean(axis=1)[:, None, :]
                exact = False
            elif r < 0.70 and m.nc:
                kind = "write-through"
                ctx.count("op.write-through")
                i = rng.randrange(-m.nc, m.nc)
                j = rng.randrange(m.na)
                c = e[i]
                if self.held and rng.random() < 0.5:
                    i, c = rng.choice(self.held)       # write through a conformer object taken earlier
                    ctx.count("op.write-through.held")
                elif i >= 0 and rng.random() < 0.5:
                    # (a conformer taken with a negative index means "counted from the end" and is not held)
                    self.held.append((i, c))
                    del self.held[:-4]
                how = rng.choice(["coords[j]=v", "coords=M", "charges[j]=q", "charges=array", "coords+=v", "translate", "scale", "attrib[k]=v",
                                  "view.name=v", "view.charge=v", "view.mult=v", "view.attrib=v", "view.connect"])
                self.kinds.append(f"write:{how}")
                if how.startswith("view."):
                    return self.write_field_through_view(rng, c, how)
                if how in ("coords+=v", "translate", "scale"):
                    # geometry-level mutators called on the view
                    ctx.count("op.write-through.mutator")
                    exact = False
                    if how == "scale":
                        f = rng.choice([2.0, 0.5, 1.5])
                        c.scale(f)
                        m.coords[i] = m.coords[i] * f
                    else:
                        v = np.array([rng.uniform(-3, 3) for _ in range(3)])
                        if how == "translate":
                            c.translate(v)
                        else:
                            c.coords += v
                        m.coords[i] = m.coords[i] + v
                elif how == "attrib[k]=v":
                    ctx.count("op.write-through.attrib")
                    k, val = rng.choice(["k", "note", "n_checked"]), rng.choice([1, 7, "x", "crest", 2.5, True])
                    c.attrib[k] = val
                    m.attrib[k] = val
                elif how == "coords[j]=v":
                    v = np.array([rng.uniform(-9, 9) for _ in range(3)])
                    c.coords[j] = v
                    m.coords[i, j] = v
                elif how == "coords=M":
                    M = np.array([[rng.uniform(-9, 9) for _ in range(3)] for _ in range(m.na)])
                    c.coords = M
                    m.coords[i] = M
                elif how == "charges[j]=q":
                    q = rng.uniform(-2, 2)
                    c.atomic_charges[j] = q
                    m.charges[i, j] = q
                else:
                    arr = np.array([rng.uniform(-2, 2) for _ in range(m.na)])
                    try:
                        c.atomic_charges = arr
                        m.charges[i] = arr
                    except Exception:  # noqa  (may raise; then nothing may change)
                        ctx.count("op.write-through.refused")
            elif r < 0.84:
                kind = "iterate"
                self.iterate(rng)
                return self.inspect("iterate") if self.ok else None
            elif r < 0.90 and m.nc:
                kind = "slice"
                ctx.count("op.slice")
                self.kinds.append("slice")
                a, b = sorted(rng.sample(range(-m.nc, m.nc + 1), 2))
                step = rng.choice([1, 1, 2, -1])
                got = e[a:b:step]
                rows = list(range(m.nc))[a:b:step]
                if not isinstance(got, list) or len(got) != len(rows):
                    return self.v("slice:wrong-number-of-conformers", got=len(got) if isinstance(got, list) else type(got).__name__,
                                  want=len(rows), slice=[a, b, step])
                for c, row in zip(got, rows):
                    if not close(c.coords, m.coords[row], True):
                        return self.v("slice:conformer-shows-another-row", slice=[a, b, step])
                neg = e[-1]
                if not close(neg.coords, m.coords[-1], True):
                    return self.v("negative-index:shows-another-row")
            elif r < 0.96 and m.nc:
                kind = "dump"
                self.dump(rng)
                return self.inspect("dump") if self.ok else None
            elif m.nc:
                kind = "serialise"
                self.serialise(rng)
                return self.inspect("serialise") if self.ok else None
            else:
                return
        except Exception as ex:  # noqa
            self.kinds.append("!raised")
            return self.v(f"{kind}:raises:{type(ex).__name__}", err=repr(ex)[:200])
        self.inspect(self.kinds[-1].split(":")[0] if self.kinds else "start", exact)

    def write_field_through_view(self, rng, c, how):
        """conformer.name / charge / mult / attrib = v, conformer.connect(a, b): refused (nothing changes), or it shows in the ensemble"""
        e, m, ctx = self.e, self.m, self.ctx
        if how == "view.connect":
            free = [(a, b) for a in range(m.na) for b in range(a + 1, m.na) if (a, b) not in m.bonds and (b, a) not in m.bonds]
            if not free:
                return self.inspect("write")
            a, b = rng.choice(free)
            ctx.count("op.write-through.view-connect")
            try:
                c.connect(a, b)
            except Exception:  # noqa
                ctx.count("op.write-through.view-connect-refused")
            else:
                if e.lookup_bond(a, b) is None or e.n_bonds != len(m.bonds) + 1:
                    return self.v("write:view.connect:accepted-without-reaching-the-ensemble")
                m.bonds.append(bond_pairs(e)[-1])
            return self.inspect("write")
        field = how[len("view."):-len("=v")]
        val = {"name": lambda: rng.choice([n for n in ("via-view", "v2", "Kx") if n != m.name]),
               "charge": lambda: rng.choice([q for q in (-3, -1, 0, 1, 4) if q != m.charge]),
               "mult": lambda: rng.choice([q for q in (1, 2, 3, 5) if q != m.mult]),
               "attrib": lambda: {"via": rng.choice(["view", 3, None])}}[field]()
        ctx.count("op.write-through.view-setattr")
        try:
            setattr(c, field, val)
        except Exception:  # noqa   (refused: the inspection that follows sees that nothing changed)
            ctx.count("op.write-through.view-setattr-refused")
        else:
            got = getattr(e, field)
            if (dict(got) if field == "attrib" else got) != val:
                return self.v(f"write:view.{field}=v:accepted-without-reaching-the-ensemble")
            ctx.count("op.write-through.view-setattr-accepted")
            setattr(m, field, dict(val) if field == "attrib" else val)
        self.inspect("write")

    def unfit_leaves_rectangular(self, label, raised):
        """after an assignment / transformation whose argument does not fit (or that was refused): the three arrays still
        describe the model's conformers and atoms.  -> False when a violation was reported"""
        import numpy as np

        e, m = self.e, self.m
        sh = (np.shape(e.coords), np.shape(e.atomic_charges), np.shape(e.weights))
        want = ((m.nc, m.na, 3), (m.nc, m.na), (m.nc,))
        if sh != want or e.n_conformers != m.nc or e.n_atoms != m.na:
            which = next((n for n, a, b in zip(("coords", "atomic_charges", "weights"), sh, want) if a != b), "n_conformers")
            self.v(f"{label}:{'refused' if raised else 'accepted'}-and-{which}-no-longer-fit-the-other-arrays",
                   got=[list(t) for t in sh], want=[list(t) for t in want])
            return False
        return True

    def assign(self, rng):
        """ensemble-level assignment e.coords / e.atomic_charges / e.weights = value: full block, broadcastable value, wrong length"""
        import numpy as np

        e, m, ctx = self.e, self.m, self.ctx
        nc, na = m.nc, m.na
        what = rng.choice(["coords", "atomic_charges", "weights"])
        form = rng.choice(["full", "broadcast", "broadcast", "wrong-length"])
        full = {"coords": (nc, na, 3), "atomic_charges": (nc, na), "weights": (nc,)}[what]
        lo, hi = {"coords": (-6, 6), "atomic_charges": (-1, 1), "weights": (0.1, 1.0)}[what]

        def rand(shape):
            return np.array([rng.uniform(lo, hi) for _ in range(int(np.prod(shape)))]).reshape(shape)

        if form == "full":
            X = rand(full)
        elif form == "broadcast":
            if what == "coords":
                X = rand((na, 3))                                   # one geometry for every conformer
            elif what == "atomic_charges":
                X = rng.choice([rand((na,)), float(rng.uniform(lo, hi))])          # one charge vector / one number
            else:
                w = rng.choice([1.0, 0.5, float(rng.uniform(lo, hi))])
                X = rng.choice([w, [w], np.array(w)])               # one weight for all
        else:
            # another number of conformers (k >= 2, k != nc) or of atoms: cannot be meant for this ensemble
            X = rand({"coords": rng.choice([(nc + 1, na, 3), (nc, na + 1, 3), (nc + 2, na, 3)]),
                      "atomic_charges": rng.choice([(nc + 1, na), (nc, na + 1)]),
                      "weights": rng.choice([(nc + 1,), (nc + 2,)])}[what])
        self.kinds.append(f"assign:{what}:{form}")
        raised = False
        try:
            setattr(e, what, X)
        except Exception:  # noqa
            raised = True
        field = {"coords": "coords", "atomic_charges": "charges", "weights": "weights"}[what]
        if form == "wrong-length" or raised:
            ctx.count("op.assign.wrong-length" if form == "wrong-length" else f"op.assign.{form}-refused")
            if not self.unfit_leaves_rectangular(f"assign:{what}:{form}", raised):
                return
            if not raised:
                # accepted in some way that keeps the arrays rectangular: the model follows the values of that block
                setattr(m, field, np.array(getattr(e, what), dtype=float))
        else:
            ctx.count(f"op.assign.{form}")
            setattr(m, field, np.array(np.broadcast_to(np.asarray(X, dtype=float), full)))
            if isinstance(X, np.ndarray) and X.ndim:
                self.raw.append((X, np.array(X)))
                del self.raw[:-6]
        self.inspect("assign")

    def transform_refused(self, rng):
        """translate / rotate with k per-conformer vectors / matrices, k not in (1, n_conformers)"""
        import numpy as np
        from vmon.gen import random_rotation

        e, m, ctx = self.e, self.m, self.ctx
        k = rng.choice([k for k in (2, 3, m.nc + 1, m.nc + 2) if k != m.nc])
        what = rng.choice(["translate", "rotate"])
        self.kinds.append(f"bad-{what}:{'one-conformer' if m.nc == 1 else 'several-conformers'}")
        ctx.count("op.transform-refused")
        if m.nc == 1:
            ctx.count("op.transform-refused.single-conformer")
        raised = False
        try:
            if what == "translate":
                e.translate(np.array([[rng.uniform(-3, 3) for _ in range(3)] for _ in range(k)]))
            else:
                e.rotate(np.stack([random_rotation(rng) for _ in range(k)]))
        except Exception:  # noqa
            raised = True
        if not self.unfit_leaves_rectangular(f"bad-{what}", raised):
            return
        if not raised:
            m.coords = np.array(e.coords, dtype=float)
        self.inspect(f"bad-{what}")

    # ---- iteration patterns: each loop visits conformers 0..nc-1 exactly once, in order
    def row_of(self, c):
        """index of the ensemble row this conformer shows, judged by VALUE (coordinates and charges); rows are made
        pairwise different by the workload, if two rows happen to coincide the first match that keeps the expected
        order is preferred by the callers through `same_row`"""
        import numpy as np

        if self.m.na == 0:
            return None
        hits = [i for i in range(self.m.nc)
                if np.array_equal(c.coords, self.m.coords[i], equal_nan=True)
                or np.allclose(c.coords, self.m.coords[i], rtol=1e-12, atol=1e-12, equal_nan=True)]
        return hits[0] if len(hits) == 1 else (tuple(hits) if hits else -1)

    @staticmethod
    def same_row(got, want):
        if got is None:
            return True
        if isinstance(got, tuple):
            return want in got
        return got == want

    def seq_ok(self, got, want):
        return len(got) == len(want) and all(self.same_row(g, w) for g, w in zip(got, want))

    def iterate(self, rng):
        e, m, ctx = self.e, self.m, self.ctx
        nc = m.nc
        pat = rng.choice(["list", "nested", "zip", "abandoned", "triple", "enumerate-twice", "growing"])
        if pat == "growing" and nc == 0:
            pat = "list"
        self.kinds.append(f"iterate:{pat}")
        ctx.count(f"op.iterate.{pat}")
        want = list(range(nc))
        try:
            if pat == "list":
                cs = list(e)
                if cs and rng.random() < 0.5:
                    k = rng.randrange(len(cs))
                    self.held.append((k, cs[k]))
                    del self.held[:-4]
                got = [self.row_of(c) for c in cs]
                if not self.seq_ok(got, want):
                    return self.v("iterate:list:not-each-conformer-once-in-order", got=got[:12], want=want[:12])
                if len(list(e)) != nc:
                    return self.v("iterate:second-pass-differs", got=len(list(e)), want=nc)
            elif pat == "nested":
                pairs = [(self.row_of(a), self.row_of(b)) for a in e for b in e]
                wantp = [(i, j) for i in want for j in want]
                if len(pairs) != len(wantp) or not all(self.same_row(a, x) and self.same_row(b, y) for (a, b), (x, y) in zip(pairs, wantp)):
                    return self.v("iterate:nested:inner-loop-disturbs-outer-loop", n_got=len(pairs), n_want=len(wantp), head=pairs[:6])
            elif pat == "zip":
                pairs = [(self.row_of(a), self.row_of(b)) for a, b in zip(e, e)]
                if len(pairs) != nc or not all(self.same_row(a, i) and self.same_row(b, i) for (a, b), i in zip(pairs, want)):
                    return self.v("iterate:zip:two-iterations-share-a-cursor", n_got=len(pairs), n_want=nc, head=pairs[:6])
            elif pat == "abandoned":
                it = iter(e)
                k = rng.randrange(0, nc + 1)
                for _ in range(min(k, nc)):
                    next(it)
                got = [self.row_of(c) for c in e]
                if not self.seq_ok(got, want):
                    return self.v("iterate:fresh-iteration-after-abandoned-one-is-incomplete", got=got[:12], want=want[:12], abandoned_at=k)
                rest = [self.row_of(c) for c in it]
                if not self.seq_ok(rest, want[min(k, nc):]):
                    return self.v("iterate:abandoned-iterator-disturbed-by-fresh-one", got=rest[:12], want=want[min(k, nc):][:12])
            elif pat == "growing":
                # the ensemble grows while a loop over it is running (in the loop body == between two next() calls)
                import numpy as np
                at = rng.randrange(nc)
                how = rng.choice(["append", "extend"])
                seen = []
                for c in e:
                    seen.append(c)
                    if len(seen) - 1 == at:
                        gs = [self.geometry_like(rng, "Molecule") for _ in range(1 if how == "append" else 2)]
                        if how == "append":
                            e.append(gs[0][0])
                        else:
                            e.extend([g for g, _, _ in gs])
                        m.coords = np.concatenate([m.coords] + [c_[None] for _, c_, _ in gs], axis=0)
                        m.charges = np.concatenate([m.charges] + [q_[None] for _, _, q_ in gs], axis=0)
                        m.weights = np.concatenate([m.weights, np.ones(len(gs))])
                        self.grown_at = len(self.kinds)
                    if len(seen) > nc + 4:
                        break
                got = [self.row_of(c) for c in seen]
                # every conformer that existed when the loop started, possibly followed by the new ones: 0..k-1, once, in order
                if not (nc <= len(got) <= m.nc) or not self.seq_ok(got, list(range(len(got)))):
                    return self.v("iterate:growing:not-each-conformer-once-in-order", got=got[:12], at_start=nc, at_end=m.nc, grown_at=at)
                for row, c in enumerate(seen[:2]):
                    self.held.append((row, c))
                del self.held[:-4]
            elif pat == "triple" and nc <= 4:
                n = sum(1 for a in e for b in e for c in e)
                if n != nc ** 3:
                    return self.v("iterate:nested:inner-loop-disturbs-outer-loop", n_got=n, n_want=nc ** 3, levels=3)
            else:
                a = [(i, self.row_of(c)) for i, c in enumerate(e)]
                b = [(i, self.row_of(c)) for i, c in enumerate(e)]
                if a != b or not self.seq_ok([r for _, r in a], want):
                    return self.v("iterate:repeated-enumeration-differs")
        except Exception as ex:  # noqa
            return self.v(f"iterate:{pat}:raises:{type(ex).__name__}", err=repr(ex)[:200])

    def dump(self, rng):
        import numpy as np
        import molli as ml

        e, m, ctx = self.e, self.m, self.ctx
        self.kinds.append("dump")
        ctx.count("op.dump")
        for i in range(m.nc):
            try:
                t2 = e[i].dumps_mol2()
                tx = e[i].dumps_xyz()
                back = ml.Molecule.loads_mol2(t2)
                backx = ml.Molecule.loads_xyz(tx)
            except Exception as ex:  # noqa
                return self.v(f"dump:conformer-cannot-be-written:{type(ex).__name__}", conformer=i, appended=self.grown_at is not None,
                              err=repr(ex)[:200])
            if not np.allclose(back.coords, m.coords[i], atol=1e-6) or not np.allclose(backx.coords, m.coords[i], atol=1e-6):
                return self.v("dump:conformer-text-shows-another-row", conformer=i)
            if not np.allclose(back.atomic_charges, m.charges[i], atol=6e-4):
                return self.v("dump:conformer-text-shows-another-rows-charges", conformer=i)
            bad = text_header_differs(t2, tx, m.name, m.na, m.bonds)
            if bad:
                return self.v(f"dump:conformer-text-differs-from-the-ensemble:{bad}", conformer=i)
        self.text_of_held("dump")
        if not self.ok:
            return
        try:
            whole = ml.ConformerEnsemble.loads_mol2(e.dumps_mol2()) if m.na else None
        except Exception as ex:  # noqa
            return self.v(f"dump:ensemble-cannot-be-written-or-read:{type(ex).__name__}", err=repr(ex)[:200])
        if whole is not None and (whole.n_conformers != m.nc or not np.allclose(whole.coords, m.coords, atol=1e-6)):
            return self.v("dump:ensemble-text-differs", got=whole.n_conformers, want=m.nc)
        if whole is not None:
            ctx.count("dump.ensemble-mol2-charges")
            bad = [i for i in range(m.nc) if not np.allclose(whole.atomic_charges[i], m.charges[i], atol=6e-4)]
            if bad:
                return self.v("dump:ensemble-mol2-text-frame-shows-another-rows-charges", frames=bad[:6])
        if m.na:
            # the multi-xyz text: frame i is row i
            try:
                tx = e.dumps_xyz()
                wx = ml.ConformerEnsemble.loads_xyz(tx)
            except Exception as ex:  # noqa
                return self.v(f"dump:ensemble-xyz-cannot-be-written-or-read:{type(ex).__name__}", err=repr(ex)[:200])
            ctx.count("dump.ensemble-xyz")
            if wx.n_conformers != m.nc or wx.n_atoms != m.na:
                return self.v("dump:ensemble-xyz-text-has-another-number-of-frames-or-atoms", got=[wx.n_conformers, wx.n_atoms], want=[m.nc, m.na])
            bad = [i for i in range(m.nc) if not np.allclose(wx.coords[i], m.coords[i], atol=1e-6)]
            if bad:
                return self.v("dump:ensemble-xyz-text-frame-shows-another-row", frames=bad[:6])
            # stream forms write what the string forms return
            from io import StringIO
            try:
                s2, sx = StringIO(), StringIO()
                e.dump_mol2(s2)
                e.dump_xyz(sx)
                same = s2.getvalue() == e.dumps_mol2() and sx.getvalue() == tx
            except Exception as ex:  # noqa
                return self.v(f"dump:ensemble-stream-form-raises:{type(ex).__name__}", err=repr(ex)[:200])
            if not same:
                return self.v("dump:ensemble-stream-form-differs-from-string-form")

    def serialise(self, rng):
        import numpy as np
        import molli as ml
        from vmon.snap import snap, diff

        e, m, ctx = self.e, self.m, self.ctx
        self.kinds.append("serialise")
        ctx.count("op.serialise")
        n = ctx.counters.get("op.serialise", 0)
        pc = ctx.tmp / f"s{n}.clib"
        pm = ctx.tmp / f"s{n}.mlib"
        try:
            cl = ml.ConformerLibrary(pc, readonly=False, overwrite=True)
            with cl.writing():
                cl["e"] = e
            with cl.reading():
                back = cl["e"]
            mlb = ml.MoleculeLibrary(pm, readonly=False, overwrite=True)
            with mlb.writing():
                for i in range(m.nc):
                    mlb[f"c{i}"] = e[i]
            with mlb.reading():
                mols = [mlb[f"c{i}"] for i in range(m.nc)]
        except Exception as ex:  # noqa
            return self.v(f"serialise:raises:{type(ex).__name__}", appended=self.grown_at is not None, err=repr(ex)[:200])
        finally:
            for p in (pc, pm):
                try:
                    p.unlink()
                except OSError:
                    pass
        d = diff(snap(e), snap(back), rtol=1.2e-7, atol=1e-30)
        if d:
            return self.v(f"serialise:ensemble-read-back-differs:{d[0][0].split('[')[0].strip('.')}", diff=d[:3])
        for i, mol in enumerate(mols):
            if not np.allclose(mol.coords, m.coords[i], rtol=1.2e-7, atol=1e-30) or not np.allclose(mol.atomic_charges, m.charges[i], rtol=1.2e-7, atol=1e-30):
                return self.v("serialise:conformer-read-back-shows-another-row", conformer=i)

        # pickle / deepcopy (what joblib, multiprocessing and copy do): conformers -- fresh, taken earlier, appended -- and the ensemble
        import copy
        import pickle

        forms = (("pickle", lambda x: pickle.loads(pickle.dumps(x))), ("deepcopy", copy.deepcopy))
        cands = [(i, e[i]) for i in sorted({0, m.nc - 1, rng.randrange(m.nc)})] + list(self.held[:2])
        detached = []
        for i, c in cands:
            for form, fn in forms:
                try:
                    c2 = fn(c)
                    ok = c2.n_atoms == m.na and close(c2.coords, m.coords[i], True) and close(c2.atomic_charges, m.charges[i], True)
                except Exception as ex:  # noqa
                    return self.v(f"serialise:{form}:conformer-raises:{type(ex).__name__}", conformer=i, appended=self.grown_at is not None,
                                  err=repr(ex)[:200])
                ctx.count("op.serialise.conformer-pickled" if form == "pickle" else "op.serialise.conformer-deepcopied")
                if not ok:
                    return self.v(f"serialise:{form}:conformer-copy-shows-another-row", conformer=i)
                detached.append(c2)
        copies = {}
        for form, fn in forms + (("constructor", ml.ConformerEnsemble),):
            try:
                e2 = fn(e)
                same = (np.shape(e2.coords), np.shape(e2.atomic_charges), np.shape(e2.weights)) == ((m.nc, m.na, 3), (m.nc, m.na), (m.nc,)) \
                    and close(e2.coords, m.coords, True) and close(e2.atomic_charges, m.charges, True) and close(e2.weights, m.weights, True) \
                    and e2.n_atoms == m.na and e2.n_conformers == m.nc and e2.name == e.name
            except Exception as ex:  # noqa
                return self.v(f"serialise:{form}:ensemble-raises:{type(ex).__name__}", appended=self.grown_at is not None, err=repr(ex)[:200])
            ctx.count("op.serialise.ensemble-pickled" if form == "pickle" else f"op.serialise.ensemble-{form}")
            if not same:
                return self.v(f"serialise:{form}:ensemble-copy-differs")
            copies[form] = e2
        # a copy of a conformer is detached: a write through it stays with the copy (the inspection that follows sees the ensemble)
        for c2 in detached[:2]:
            try:
                c2.coords[0] = [9.0, -9.0, 9.0]
                c2.atomic_charges[0] = 5.0
            except Exception as ex:  # noqa
                return self.v(f"serialise:conformer-copy-does-not-take-writes:{type(ex).__name__}", err=repr(ex)[:200])
        copies["library"] = back
        if rng.random() < 0.6:
            # the history continues on the copy: it is a normal ensemble (takes writes through conformers, collective
            # transformations, growth ...) and the ensemble it was made from becomes a bystander
            form = rng.choice(["library", "library", "pickle", "deepcopy", "constructor"])
            new = copies[form]
            if (np.shape(new.coords), np.shape(new.atomic_charges), np.shape(new.weights)) != ((m.nc, m.na, 3), (m.nc, m.na), (m.nc,)):
                return self.v(f"serialise:{form}:ensemble-copy-differs")
            ctx.count("op.continue-on-copy")
            ctx.count(f"op.continue-on-copy.{form}")
            self.kinds.append(f"continue-on:{form}")
            self.bystanders.append((e, np.array(e.coords), np.array(e.atomic_charges), np.array(e.weights)))
            del self.bystanders[:-4]
            m.coords = np.array(new.coords, dtype=float)       # (the library stores float32)
            m.charges = np.array(new.atomic_charges, dtype=float)
            m.weights = np.array(new.weights, dtype=float)
            m.attrib = copy.deepcopy(dict(new.attrib)) if dict(new.attrib) == m.attrib else m.attrib
            self.e = new
            self.held = []


def run_chunk(spec, ctx):
    for j in range(spec["n"]):
        case = (spec["chunk"], j)
        if not ctx.want(case):
            continue
        rng = ctx.rng(*case)
        try:
            ens, model, base, route, by, raw = construct(rng, ctx, case)
        except Exception as ex:  # noqa
            ctx.violation(f"construct:raises:{type(ex).__name__}", case=case, err=repr(ex)[:200])
            continue
        d = Driver(ctx, case, ens, model, base)
        d.bystanders = by
        d.raw = raw
        try:
            import copy as _copy
            model.attrib = _copy.deepcopy(dict(ens.attrib))
        except Exception:  # noqa
            pass
        # name / charge / multiplicity / bonds: the initial values are the constructor's business (not fixed by the property);
        # from here on they change only through the edits of the history
        model.name, model.charge, model.mult, model.bonds = ens.name, ens.charge, ens.mult, bond_pairs(ens)
        if rng.random() < 0.3:
            try:
                grow_atomless(rng, ctx, case, base)
            except Exception as ex:  # noqa
                ctx.violation(f"grow-atomless:raises:{type(ex).__name__}", case=case, err=repr(ex)[:200])
        d.kinds.append(f"construct:{route}")
        d.inspect("construct")
        for _ in range(rng.randrange(4, 26)):
            if not d.ok:
                break
            d.do(rng)
        g = d.grown_at
        nt = g is not None and any(k.split(":")[0] in ("iterate", "dump", "serialise", "slice", "write") for k in d.kinds[g:])
        ctx.case(case, dkey=",".join(d.kinds), nontrivial=nt,
                 sample={"history": d.kinds[:14], "final_shape": [d.m.nc, d.m.na]})
