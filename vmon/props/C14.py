"""
C14 -- a conformer ensemble stays rectangular and its conformers are live views.

Monitor shape: executable reference model (three numpy arrays coords[nc,na,3], charges[nc,na], weights[nc]) stepped
beside the real ConformerEnsemble over random operation histories; quiescent-point inspection after every operation;
iteration patterns checked against "each conformer exactly once, in order, per loop".
"""
from __future__ import annotations

ID = "C14"
LEVEL = "exploration"
RULE = ("seeded random histories (length <= 25) over {construct from molecule / list of molecules / ensemble / atoms+n_conformers, "
        "append (Molecule, Structure, CartesianGeometry, Conformer), extend (list, ensemble), scale, invert, translate (1-D, "
        "per-conformer 2-D), rotate, center_at_atom, center_at_core, write through a conformer (coords[j]=v, coords=M, "
        "atomic_charges[j]=q), iterate (list, nested, zip, abandoned+fresh, three levels, while growing), slice, negative "
        "index, dump every conformer (mol2, xyz), store conformers in a MoleculeLibrary and the ensemble in a ConformerLibrary}. "
        "non-trivial = the history grows the ensemble and afterwards reads, dumps, serialises or iterates; distinct by "
        "operation-kind string")
ASSUMPTIONS = [
    "`conformer.atomic_charges = array` (attribute assignment) may raise; a raising write must change nothing",
    "appended geometries must have the ensemble's atom count; a geometry without partial charges contributes zeros, a new "
    "conformer gets weight 1.0 (the constructor's default)",
    "arithmetic operations are compared with the same numpy operation at 1e-12 relative; data-moving ones bit-exactly",
]
REQUIRED = {"op.append": 200, "op.extend": 100, "op.iterate.nested": 100, "op.iterate.zip": 50, "op.iterate.abandoned": 50,
            "op.write-through": 200, "op.dump": 100, "op.serialise": 50, "inspect": 3000, "view.checked": 3000,
            "op.slice": 50, "view.held-checked": 300, "op.grow-refused": 30, "source.checked": 300, "op.write-through.held": 30, "construct.list": 20, "construct.molecule": 20, "construct.ensemble": 20, "construct.atoms": 20,
            "bystander.checked": 300, "op.grow-from-itself": 30, "op.edit-constructor-source": 30}
CHUNK_TIMEOUT = 900
TECHNIQUE = "runtime monitoring: rectangular-array reference model stepped beside the real ensemble + iteration-pattern oracle"
LEVEL_TEXT = ("Held on the operation histories produced: after every operation the ensemble's three arrays, every conformer view "
              "and (periodically) dumps / library round trips are compared with an independent array model.")
LEVEL_NOTE = "Trusted: numpy; vmon/snap.py for the library round trip comparison."


def plan(tier, seed):
    n = 48 if tier == "quick" else 320
    per = 30 if tier == "quick" else 80
    return [{"chunk": i, "n": per} for i in range(n)]


class Model:
    def __init__(self, coords, charges, weights):
        import numpy as np

        self.coords = np.array(coords, dtype=float)
        self.charges = np.array(charges, dtype=float)
        self.weights = np.array(weights, dtype=float)

    @property
    def nc(self):
        return self.coords.shape[0]

    @property
    def na(self):
        return self.coords.shape[1]


def base_molecule(rng):
    import numpy as np
    from vmon import gen

    n = rng.choice([1, 2, 3, 5, 9, 17])
    m = gen.molecule(rng, n_atoms=n, rich=False, labels=["a", "b1", "C"], special=0.0, name=rng.choice(["ens", "e-2", "Zz"]),
                     elements=["C", "N", "O", "H", "S", "Cl", "Fe"], charges=False)
    m.coords = np.array([[rng.uniform(-6, 6) for _ in range(3)] for _ in range(n)])
    m.atomic_charges = np.array([rng.choice([0.0, 0.25, -0.5, rng.uniform(-1, 1)]) for _ in range(n)])
    return m


def construct(rng, ctx):
    """-> (ensemble, model, base molecule)"""
    import numpy as np
    import molli as ml

    base = base_molecule(rng)
    na = base.n_atoms
    by = []     # objects the ensemble was constructed from: (object, coords, charges, weights) that must stay what they are
    route = rng.choice(["molecule", "list", "ensemble", "atoms"])
    ctx.count(f"construct.{route}")
    nc = rng.choice([1, 2, 3, 5])
    cs = np.array([[[rng.uniform(-6, 6) for _ in range(3)] for _ in range(na)] for _ in range(nc)])
    qs = np.array([[rng.uniform(-1, 1) for _ in range(na)] for _ in range(nc)])
    ws = np.array([rng.choice([1.0, 0.5, 0.25]) for _ in range(nc)])
    if route == "molecule":
        e = ml.ConformerEnsemble(base, n_conformers=nc)
        e.coords, e.atomic_charges, e.weights = cs, qs, ws
    elif route == "list":
        mols = []
        for i in range(nc):
            m = ml.Molecule(base)
            m.coords = cs[i]
            m.atomic_charges = qs[i]
            mols.append(m)
        e = ml.ConformerEnsemble(mols)
        ws = np.ones(nc)
        by = [(m, np.array(m.coords), np.array(m.atomic_charges), None) for m in mols[:2]]
    elif route == "ensemble":
        e0 = ml.ConformerEnsemble(base, n_conformers=nc, coords=cs, atomic_charges=qs, weights=ws)
        e = ml.ConformerEnsemble(e0)
        by = [(e0, np.array(cs), np.array(qs), np.array(ws))]
    else:
        if rng.random() < 0.3:
            nc = 0
            cs, qs, ws = cs[:0], qs[:0], ws[:0]
        e = ml.ConformerEnsemble(base.atoms, n_conformers=nc, name=base.name, copy_atoms=True,
                                 coords=cs if nc else None, atomic_charges=qs if nc else None, weights=ws if nc else None)
        for b in base.bonds:
            e.connect(base.atoms.index(b.a1), base.atoms.index(b.a2), btype=b.btype)
    return e, Model(cs.reshape(nc, na, 3), qs.reshape(nc, na), ws.reshape(nc)), base, route, by


def close(a, b, exact):
    import numpy as np

    a, b = np.asarray(a, dtype=float), np.asarray(b, dtype=float)
    if a.shape != b.shape:
        return False
    if exact:
        return bool(np.array_equal(a, b, equal_nan=True))
    return bool(np.allclose(a, b, rtol=1e-12, atol=1e-12, equal_nan=True))


class Driver:
    def __init__(self, ctx, case, ens, model, base):
        self.ctx, self.case, self.e, self.m, self.base = ctx, case, ens, model, base
        self.kinds = []
        self.ok = True
        self.grown_at = None
        self.held = []          # (row, conformer object) taken earlier and kept across later operations
        self.bystanders = []    # what the ensemble was constructed from; edits on either side stay on that side
        self.sources = []       # (geometry that was appended / extended with, copy of its coordinates): must stay untouched

    def v(self, key, **detail):
        self.ok = False
        self.ctx.violation(key, case=self.case, history=self.kinds[-10:], shape=[self.m.nc, self.m.na], **detail)

    def inspect(self, after, exact=True):
        import numpy as np

        e, m, ctx = self.e, self.m, self.ctx
        ctx.count("inspect")
        shapes = (np.shape(e.coords), np.shape(e.atomic_charges), np.shape(e.weights))
        want = ((m.nc, m.na, 3), (m.nc, m.na), (m.nc,))
        if shapes != want:
            which = next(n for n, s, w in zip(("coords", "atomic_charges", "weights"), shapes, want) if s != w)
            return self.v(f"{after}:{which}-shape-not-rectangular", got=[list(s) for s in shapes], want=[list(w) for w in want])
        if e.n_conformers != m.nc or e.n_atoms != m.na:
            return self.v(f"{after}:n_conformers-or-n_atoms-wrong", got=[e.n_conformers, e.n_atoms])
        for name, got, wnt in (("coords", e.coords, m.coords), ("atomic_charges", e.atomic_charges, m.charges), ("weights", e.weights, m.weights)):
            if not close(got, wnt, exact):
                return self.v(f"{after}:{name}-differ-from-expected")
        # the geometries the ensemble was grown with are independent of it
        for g, c0 in self.sources:
            ctx.count("source.checked")
            if not close(g.coords, c0, True):
                return self.v(f"{after}:geometry-that-was-appended-changes-with-the-ensemble")
        for o, c0, q0, w0 in self.bystanders:
            ctx.count("bystander.checked")
            if not close(o.coords, c0, True) or not close(o.atomic_charges, q0, True) or (w0 is not None and not close(o.weights, w0, True)):
                return self.v(f"{after}:object-the-ensemble-was-constructed-from-changes-with-it", kind=type(o).__name__)
        # conformers taken earlier stay live views of their row (also after the ensemble grew or moved)
        for row, c in self.held:
            ctx.count("view.held-checked")
            try:
                if not close(c.coords, m.coords[row], exact) or not close(c.atomic_charges, m.charges[row], exact):
                    return self.v(f"{after}:conformer-taken-earlier-no-longer-shows-its-row", conformer=row)
            except Exception as ex:  # noqa
                return self.v(f"{after}:conformer-taken-earlier-raises:{type(ex).__name__}", conformer=row, err=repr(ex)[:200])
        # every conformer is a view of its row
        for i in range(m.nc):
            ctx.count("view.checked")
            try:
                c = e[i]
                if c.n_atoms != m.na or np.shape(c.coords) != (m.na, 3) or np.shape(c.atomic_charges) != (m.na,):
                    return self.v(f"{after}:conformer-view-shape-wrong", conformer=i)
                if not close(c.coords, m.coords[i], exact) or not close(c.atomic_charges, m.charges[i], exact):
                    return self.v(f"{after}:conformer-view-shows-another-row", conformer=i)
                if any(a is not b for a, b in zip(c.atoms, e.atoms)) or len(c.bonds) != len(e.bonds):
                    return self.v(f"{after}:conformer-view-atoms-or-bonds-differ", conformer=i)
                if c.name != e.name or c.charge != e.charge or c.mult != e.mult:
                    return self.v(f"{after}:conformer-view-name-charge-mult-differ", conformer=i)
            except Exception as ex:  # noqa
                return self.v(f"{after}:conformer-view-raises:{type(ex).__name__}", conformer=i, err=repr(ex)[:200])

    def geometry_like(self, rng, kind):
        """a geometry with the ensemble's atoms to append / extend with"""
        import numpy as np
        import molli as ml

        na = self.m.na
        coords = np.array([[rng.uniform(-6, 6) for _ in range(3)] for _ in range(na)]).reshape(na, 3)
        q = np.array([rng.uniform(-1, 1) for _ in range(na)])
        if kind == "Molecule":
            g = ml.Molecule(self.base)
            g.coords, g.atomic_charges = coords, q
            return g, coords, q
        if kind == "Structure":
            g = ml.Structure(self.base)
            g.coords = coords
            return g, coords, np.zeros(na)
        if kind == "CartesianGeometry":
            g = ml.CartesianGeometry(self.base)
            g.coords = coords
            return g, coords, np.zeros(na)
        # a conformer of another ensemble
        other = ml.ConformerEnsemble(self.base, n_conformers=2)
        other.coords = np.array([coords, coords + 1.0])
        other.atomic_charges = np.array([q, q * 2])
        return other[0], coords, q

    def do(self, rng):
        import numpy as np
        import molli as ml

        e, m, ctx = self.e, self.m, self.ctx
        if self.bystanders and rng.random() < 0.12:
            # an in-place edit of what the ensemble was constructed from must not reach the ensemble
            k = rng.randrange(len(self.bystanders))
            o, c0, q0, w0 = self.bystanders[k]
            how = rng.choice(["translate", "coords-inplace", "charges-inplace", "weights-inplace"])
            self.kinds.append(f"edit-constructor-source:{how}")
            ctx.count("op.edit-constructor-source")
            try:
                if how == "translate":
                    o.translate([1.0, -2.0, 0.5])
                    c0 = np.array(o.coords)
                elif how == "coords-inplace":
                    o.coords[...] = o.coords * 0.5 + 1.0
                    c0 = np.array(o.coords)
                elif how == "charges-inplace":
                    o.atomic_charges[...] = o.atomic_charges - 0.25
                    q0 = np.array(o.atomic_charges)
                elif w0 is not None:
                    o.weights[...] = o.weights * 3.0
                    w0 = np.array(o.weights)
            except Exception as ex:  # noqa
                ctx.note(f"edit of constructor source raised {type(ex).__name__}")
            self.bystanders[k] = (o, c0, q0, w0)
            return self.inspect(self.kinds[-1])
        r = rng.random()
        exact = True
        if m.nc >= 1 and rng.random() < 0.06:
            # the ensemble grows by its own content: one of its conformers, a list / generator of them, or itself
            how = rng.choice(["append-own-conformer", "extend-own-list", "extend-own-generator", "extend-self"])
            self.kinds.append(f"grow-from-itself:{how}")
            ctx.count("op.grow-from-itself")
            try:
                if how == "append-own-conformer":
                    i = rng.randrange(m.nc)
                    e.append(e[i])
                    rows, ws = [i], [1.0]
                elif how == "extend-own-list":
                    rows = [rng.randrange(m.nc) for _ in range(rng.choice([1, 2]))]
                    e.extend([e[i] for i in rows])
                    ws = [1.0] * len(rows)
                elif how == "extend-own-generator":
                    rows = list(range(m.nc))
                    e.extend(c for c in list(e))
                    ws = [1.0] * len(rows)
                else:
                    rows = list(range(m.nc))
                    e.extend(e)
                    ws = list(m.weights)
            except Exception as ex:  # noqa
                return self.v(f"grow-from-itself:{how}:raises:{type(ex).__name__}", err=repr(ex)[:200])
            m.coords = np.concatenate([m.coords, m.coords[rows]], axis=0)
            m.charges = np.concatenate([m.charges, m.charges[rows]], axis=0)
            m.weights = np.concatenate([m.weights, ws])
            self.grown_at = len(self.kinds)
            return self.inspect(self.kinds[-1])
        try:
            if r < 0.16:
                kind = "append"
                gk = rng.choice(["Molecule", "Molecule", "Structure", "CartesianGeometry", "Conformer"])
                g, c, q = self.geometry_like(rng, gk)
                self.kinds.append(f"append:{gk}")
                ctx.count("op.append")
                e.append(g)
                self.sources.append((g, np.array(c, copy=True)))
                del self.sources[:-3]
                m.coords = np.concatenate([m.coords, c[None]], axis=0)
                m.charges = np.concatenate([m.charges, q[None]], axis=0)
                m.weights = np.concatenate([m.weights, [1.0]])
                self.grown_at = len(self.kinds)
            elif r < 0.26:
                kind = "extend"
                ctx.count("op.extend")
                k = rng.choice([1, 2, 3])
                if rng.random() < 0.5:
                    gs = [self.geometry_like(rng, rng.choice(["Molecule", "Structure"])) for _ in range(k)]
                    self.kinds.append(f"extend:list{k}")
                    e.extend([g for g, _, _ in gs])
                    self.sources.append((gs[0][0], np.array(gs[0][1], copy=True)))
                    del self.sources[:-3]
                    m.coords = np.concatenate([m.coords] + [c[None] for _, c, _ in gs], axis=0)
                    m.charges = np.concatenate([m.charges] + [q[None] for _, _, q in gs], axis=0)
                    m.weights = np.concatenate([m.weights, np.ones(k)])
                else:
                    other = ml.ConformerEnsemble(self.base, n_conformers=k)
                    oc = np.array([[[rng.uniform(-6, 6) for _ in range(3)] for _ in range(m.na)] for _ in range(k)]).reshape(k, m.na, 3)
                    oq = np.array([[rng.uniform(-1, 1) for _ in range(m.na)] for _ in range(k)]).reshape(k, m.na)
                    ow = np.array([rng.choice([1.0, 0.5, 2.0]) for _ in range(k)])
                    other.coords, other.atomic_charges, other.weights = oc, oq, ow
                    self.kinds.append(f"extend:ensemble{k}")
                    e.extend(other)
                    m.coords = np.concatenate([m.coords, oc], axis=0)
                    m.charges = np.concatenate([m.charges, oq], axis=0)
                    m.weights = np.concatenate([m.weights, ow])
                self.grown_at = len(self.kinds)
            elif r < 0.29 and m.na >= 1:
                # a geometry with another atom count must be refused and must leave the ensemble as it was
                kind = "grow-with-wrong-atom-count"
                ctx.count("op.grow-refused")
                wrong = ml.Molecule(["C"] * (m.na + 1), coords=np.zeros((m.na + 1, 3)))
                how = rng.choice(["append", "extend-list", "extend-generator", "extend-ensemble"])
                self.kinds.append(f"bad-{how}")
                try:
                    if how == "append":
                        e.append(wrong)
                    elif how == "extend-list":
                        g0, _, _ = self.geometry_like(rng, "Molecule")
                        e.extend([g0, wrong])
                    elif how == "extend-generator":
                        e.extend(x for x in [wrong])
                    else:
                        e.extend(ml.ConformerEnsemble(wrong, n_conformers=2))
                except Exception:  # noqa
                    pass
                # whatever the refusal did: the three arrays must still be rectangular and the old conformers untouched
                # (conformers of the valid part of a list may or may not have been added)
                cs, qs, ws = np.asarray(e.coords), np.asarray(e.atomic_charges), np.asarray(e.weights)
                n_now = cs.shape[0] if cs.ndim == 3 else -1
                if cs.shape != (n_now, m.na, 3) or qs.shape != (n_now, m.na) or ws.shape != (n_now,) or n_now < m.nc:
                    return self.v(f"bad-{how}:refused-growth-leaves-arrays-not-rectangular",
                                  got=[list(cs.shape), list(qs.shape), list(ws.shape)], want_conformers_at_least=m.nc)
                if not (close(cs[:m.nc], m.coords, True) and close(qs[:m.nc], m.charges, True) and close(ws[:m.nc], m.weights, True)):
                    return self.v(f"bad-{how}:refused-growth-alters-existing-conformers")
                m.coords, m.charges, m.weights = np.array(cs), np.array(qs), np.array(ws)
            elif r < 0.32:
                kind = "scale"
                f = rng.choice([2.0, 0.5, 1.5])
                self.kinds.append("scale")
                e.scale(f)
                m.coords = m.coords * f
                exact = False
            elif r < 0.35:
                kind = "invert"
                self.kinds.append("invert")
                e.invert()
                m.coords = -m.coords
                exact = False
            elif r < 0.43 and m.nc:
                kind = "translate"
                if rng.random() < 0.5:
                    v = np.array([rng.uniform(-3, 3) for _ in range(3)])
                    self.kinds.append("translate:1d")
                    e.translate(v)
                    m.coords = m.coords + v
                else:
                    v = np.array([[rng.uniform(-3, 3) for _ in range(3)] for _ in range(m.nc)])
                    self.kinds.append("translate:2d")
                    e.translate(v)
                    m.coords = m.coords + v[:, None, :]
                exact = False
            elif r < 0.48 and m.nc:
                kind = "rotate"
                from vmon.gen import random_rotation
                R = random_rotation(rng)
                self.kinds.append("rotate")
                e.rotate(R)
                m.coords = m.coords @ R
                exact = False
            elif r < 0.52 and m.nc:
                kind = "center_at_atom"
                j = rng.randrange(m.na)
                self.kinds.append("center_at_atom")
                e.center_at_atom(e.atoms[j])
                m.coords = m.coords - m.coords[:, j:j + 1, :]
                exact = False
            elif r < 0.56 and m.nc:
                kind = "center_at_core"
                idx = sorted(rng.sample(range(m.na), rng.randrange(1, m.na + 1)))
                self.kinds.append("center_at_core")
                e.center_at_core(idx)
                m.coords = m.coords - m.coords[:, idx, :].mean(axis=1)[:, None, :]
                exact = False
            elif r < 0.70 and m.nc:
                kind = "write-through"
                ctx.count("op.write-through")
                i = rng.randrange(-m.nc, m.nc)
                j = rng.randrange(m.na)
                c = e[i]
                if self.held and rng.random() < 0.5:
                    i, c = rng.choice(self.held)       # write through a conformer object taken earlier
                    ctx.count("op.write-through.held")
                elif i >= 0 and rng.random() < 0.5:
                    # (a conformer taken with a negative index means "counted from the end" and is not held)
                    self.held.append((i, c))
                    del self.held[:-4]
                how = rng.choice(["coords[j]=v", "coords=M", "charges[j]=q", "charges=array"])
                self.kinds.append(f"write:{how}")
                if how == "coords[j]=v":
                    v = np.array([rng.uniform(-9, 9) for _ in range(3)])
                    c.coords[j] = v
                    m.coords[i, j] = v
                elif how == "coords=M":
                    M = np.array([[rng.uniform(-9, 9) for _ in range(3)] for _ in range(m.na)])
                    c.coords = M
                    m.coords[i] = M
                elif how == "charges[j]=q":
                    q = rng.uniform(-2, 2)
                    c.atomic_charges[j] = q
                    m.charges[i, j] = q
                else:
                    arr = np.array([rng.uniform(-2, 2) for _ in range(m.na)])
                    try:
                        c.atomic_charges = arr
                        m.charges[i] = arr
                    except Exception:  # noqa  (may raise; then nothing may change)
                        ctx.count("op.write-through.refused")
            elif r < 0.84:
                kind = "iterate"
                self.iterate(rng)
                return
            elif r < 0.90 and m.nc:
                kind = "slice"
                ctx.count("op.slice")
                self.kinds.append("slice")
                a, b = sorted(rng.sample(range(-m.nc, m.nc + 1), 2))
                step = rng.choice([1, 1, 2, -1])
                got = e[a:b:step]
                rows = list(range(m.nc))[a:b:step]
                if not isinstance(got, list) or len(got) != len(rows):
                    return self.v("slice:wrong-number-of-conformers", got=len(got) if isinstance(got, list) else type(got).__name__,
                                  want=len(rows), slice=[a, b, step])
                for c, row in zip(got, rows):
                    if not close(c.coords, m.coords[row], True):
                        return self.v("slice:conformer-shows-another-row", slice=[a, b, step])
                neg = e[-1]
                if not close(neg.coords, m.coords[-1], True):
                    return self.v("negative-index:shows-another-row")
            elif r < 0.96 and m.nc:
                kind = "dump"
                self.dump(rng)
                return
            elif m.nc:
                kind = "serialise"
                self.serialise(rng)
                return
            else:
                return
        except Exception as ex:  # noqa
            self.kinds.append("!raised")
            return self.v(f"{kind}:raises:{type(ex).__name__}", err=repr(ex)[:200])
        self.inspect(self.kinds[-1].split(":")[0] if self.kinds else "start", exact)

    # ---- iteration patterns: each loop visits conformers 0..nc-1 exactly once, in order
    def row_of(self, c):
        """index of the ensemble row this conformer shows, judged by VALUE (coordinates and charges); rows are made
        pairwise different by the workload, if two rows happen to coincide the first match that keeps the expected
        order is preferred by the callers through `same_row`"""
        import numpy as np

        if self.m.na == 0:
            return None
        hits = [i for i in range(self.m.nc)
                if np.array_equal(c.coords, self.m.coords[i], equal_nan=True)
                or np.allclose(c.coords, self.m.coords[i], rtol=1e-12, atol=1e-12, equal_nan=True)]
        return hits[0] if len(hits) == 1 else (tuple(hits) if hits else -1)

    @staticmethod
    def same_row(got, want):
        if got is None:
            return True
        if isinstance(got, tuple):
            return want in got
        return got == want

    def seq_ok(self, got, want):
        return len(got) == len(want) and all(self.same_row(g, w) for g, w in zip(got, want))

    def iterate(self, rng):
        e, m, ctx = self.e, self.m, self.ctx
        nc = m.nc
        pat = rng.choice(["list", "nested", "zip", "abandoned", "triple", "enumerate-twice"])
        self.kinds.append(f"iterate:{pat}")
        ctx.count(f"op.iterate.{pat}")
        want = list(range(nc))
        try:
            if pat == "list":
                cs = list(e)
                if cs and rng.random() < 0.5:
                    k = rng.randrange(len(cs))
                    self.held.append((k, cs[k]))
                    del self.held[:-4]
                got = [self.row_of(c) for c in cs]
                if not self.seq_ok(got, want):
                    return self.v("iterate:list:not-each-conformer-once-in-order", got=got[:12], want=want[:12])
                if len(list(e)) != nc:
                    return self.v("iterate:second-pass-differs", got=len(list(e)), want=nc)
            elif pat == "nested":
                pairs = [(self.row_of(a), self.row_of(b)) for a in e for b in e]
                wantp = [(i, j) for i in want for j in want]
                if len(pairs) != len(wantp) or not all(self.same_row(a, x) and self.same_row(b, y) for (a, b), (x, y) in zip(pairs, wantp)):
                    return self.v("iterate:nested:inner-loop-disturbs-outer-loop", n_got=len(pairs), n_want=len(wantp), head=pairs[:6])
            elif pat == "zip":
                pairs = [(self.row_of(a), self.row_of(b)) for a, b in zip(e, e)]
                if len(pairs) != nc or not all(self.same_row(a, i) and self.same_row(b, i) for (a, b), i in zip(pairs, want)):
                    return self.v("iterate:zip:two-iterations-share-a-cursor", n_got=len(pairs), n_want=nc, head=pairs[:6])
            elif pat == "abandoned":
                it = iter(e)
                k = rng.randrange(0, nc + 1)
                for _ in range(min(k, nc)):
                    next(it)
                got = [self.row_of(c) for c in e]
                if not self.seq_ok(got, want):
                    return self.v("iterate:fresh-iteration-after-abandoned-one-is-incomplete", got=got[:12], want=want[:12], abandoned_at=k)
                rest = [self.row_of(c) for c in it]
                if not self.seq_ok(rest, want[min(k, nc):]):
                    return self.v("iterate:abandoned-iterator-disturbed-by-fresh-one", got=rest[:12], want=want[min(k, nc):][:12])
            elif pat == "triple" and nc <= 4:
                n = sum(1 for a in e for b in e for c in e)
                if n != nc ** 3:
                    return self.v("iterate:nested:inner-loop-disturbs-outer-loop", n_got=n, n_want=nc ** 3, levels=3)
            else:
                a = [(i, self.row_of(c)) for i, c in enumerate(e)]
                b = [(i, self.row_of(c)) for i, c in enumerate(e)]
                if a != b or not self.seq_ok([r for _, r in a], want):
                    return self.v("iterate:repeated-enumeration-differs")
        except Exception as ex:  # noqa
            return self.v(f"iterate:{pat}:raises:{type(ex).__name__}", err=repr(ex)[:200])

    def dump(self, rng):
        import numpy as np
        import molli as ml

        e, m, ctx = self.e, self.m, self.ctx
        self.kinds.append("dump")
        ctx.count("op.dump")
        for i in range(m.nc):
            try:
                t2 = e[i].dumps_mol2()
                tx = e[i].dumps_xyz()
                back = ml.Molecule.loads_mol2(t2)
                backx = ml.Molecule.loads_xyz(tx)
            except Exception as ex:  # noqa
                return self.v(f"dump:conformer-cannot-be-written:{type(ex).__name__}", conformer=i, appended=self.grown_at is not None,
                              err=repr(ex)[:200])
            if not np.allclose(back.coords, m.coords[i], atol=1e-6) or not np.allclose(backx.coords, m.coords[i], atol=1e-6):
                return self.v("dump:conformer-text-shows-another-row", conformer=i)
            if not np.allclose(back.atomic_charges, m.charges[i], atol=6e-4):
                return self.v("dump:conformer-text-shows-another-rows-charges", conformer=i)
        try:
            whole = ml.ConformerEnsemble.loads_mol2(e.dumps_mol2()) if m.na else None
        except Exception as ex:  # noqa
            return self.v(f"dump:ensemble-cannot-be-written-or-read:{type(ex).__name__}", err=repr(ex)[:200])
        if whole is not None and (whole.n_conformers != m.nc or not np.allclose(whole.coords, m.coords, atol=1e-6)):
            return self.v("dump:ensemble-text-differs", got=whole.n_conformers, want=m.nc)

    def serialise(self, rng):
        import numpy as np
        import molli as ml
        from vmon.snap import snap, diff

        e, m, ctx = self.e, self.m, self.ctx
        self.kinds.append("serialise")
        ctx.count("op.serialise")
        n = ctx.counters.get("op.serialise", 0)
        pc = ctx.tmp / f"s{n}.clib"
        pm = ctx.tmp / f"s{n}.mlib"
        try:
            cl = ml.ConformerLibrary(pc, readonly=False, overwrite=True)
            with cl.writing():
                cl["e"] = e
            with cl.reading():
                back = cl["e"]
            mlb = ml.MoleculeLibrary(pm, readonly=False, overwrite=True)
            with mlb.writing():
                for i in range(m.nc):
                    mlb[f"c{i}"] = e[i]
            with mlb.reading():
                mols = [mlb[f"c{i}"] for i in range(m.nc)]
        except Exception as ex:  # noqa
            return self.v(f"serialise:raises:{type(ex).__name__}", appended=self.grown_at is not None, err=repr(ex)[:200])
        finally:
            for p in (pc, pm):
                try:
                    p.unlink()
                except OSError:
                    pass
        d = diff(snap(e), snap(back), rtol=1.2e-7, atol=1e-30)
        if d:
            return self.v(f"serialise:ensemble-read-back-differs:{d[0][0].split('[')[0].strip('.')}", diff=d[:3])
        for i, mol in enumerate(mols):
            if not np.allclose(mol.coords, m.coords[i], rtol=1.2e-7, atol=1e-30) or not np.allclose(mol.atomic_charges, m.charges[i], rtol=1.2e-7, atol=1e-30):
                return self.v("serialise:conformer-read-back-shows-another-row", conformer=i)


def run_chunk(spec, ctx):
    for j in range(spec["n"]):
        case = (spec["chunk"], j)
        if not ctx.want(case):
            continue
        rng = ctx.rng(*case)
        try:
            ens, model, base, route, by = construct(rng, ctx)
        except Exception as ex:  # noqa
            ctx.violation(f"construct:raises:{type(ex).__name__}", case=case, err=repr(ex)[:200])
            continue
        d = Driver(ctx, case, ens, model, base)
        d.bystanders = by
        d.kinds.append(f"construct:{route}")
        d.inspect("construct")
        for _ in range(rng.randrange(4, 26)):
            if not d.ok:
                break
            d.do(rng)
        g = d.grown_at
        nt = g is not None and any(k.split(":")[0] in ("iterate", "dump", "serialise", "slice", "write") for k in d.kinds[g:])
        ctx.case(case, dkey=",".join(d.kinds), nontrivial=nt,
                 sample={"history": d.kinds[:14], "final_shape": [d.m.nc, d.m.na]})
