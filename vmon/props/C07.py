"""
C07 -- mol2 written by molli reads back as the same molecule.

Monitor shape: round-trip / fixed-point oracle.
  text1 = dumps(x); y = loads(text1); text2 = dumps(y); z = loads(text2)
for Molecule, Structure and ConformerEnsemble, plus the exhaustive atom-typing table (119 x 22 x 17 triples) and all
bond types, plus the bundled mol2 files as realistic inputs (read -> write -> read).
"""
from __future__ import annotations

ID = "C07"
LEVEL = "exploration"
RULE = ("(a) exhaustive typing table: every (element, AtomType, AtomGeom) triple and every BondType: emitted token accepted by "
        "the reader, element restored, re-emitted token identical; (b) seeded random Molecule/Structure/ConformerEnsemble "
        "objects (0..40 atoms, all elements, every enum member, whitespace-free labels incl. None/empty/unicode, one-line "
        "names, coordinates from 1e-9 to 1e8, NaN, charges, 0..dense bonds of every type, 1..6 conformers) through "
        "dumps/loads, dump/load on files (Path, str, open file) and streams, loads_all; names that begin with '#', '@<TRIPOS>', "
        "'****' or are 100-300 characters long, labels equal to an element symbol or 12-64 characters long, repeated atom pairs "
        "and self-pairs in the bond list, NaN / inf / large / tiny partial charges; trivial user subclasses of the three "
        "classes; Substructure and lone Conformer as writers; several different molecules written to one text and read with "
        "load(s)_all_mol2; every object written again after edits through the public API; (c) bundled mol2 files read -> "
        "write -> read. non-trivial = >=2 atoms and a non-single bond or a non-Regular atom type; distinct by snapshot hash")
ASSUMPTIONS = [
    "atom TYPE (AtomType/AtomGeom) preservation is not demanded beyond the fixed point of the text: the statement lists "
    "element, label, coordinates, charges, bonds",
    "an atom without label is written with its element symbol as label: the substitution is applied to the written object "
    "only, the label read back is compared literally",
    "a Substructure has no name of its own: its name line is not compared",
    "an edit operation that itself raises ends the write-edit-write stage of that case without a verdict",
    "coordinates compare within 5.1e-7 absolute (12.6f), charges within 5.1e-4 (0.3f); NaN matches NaN",
    "the fixed point is judged modulo the sign of a printed zero (-0.000 == 0.000)",
    "bond types mol2 cannot express (Quadruple..Sextuple are expressible; Ligand, FractionalOrder, H_Donor, H_Acceptor are "
    "not) must read back as Unknown",
]
REQUIRED = {"table.triples": 44982, "table.bondtypes": 15, "roundtrip.Molecule": 100, "roundtrip.Structure": 50,
            "roundtrip.ConformerEnsemble": 50, "input.ensemble-with-zero-or-odd-weights": 20, "fixedpoint.text": 200, "bundled.files": 5,
            "read.again-after-editing-first-result": 50, "library-trip.type-tokens-compared": 40, "source.atoms-lent-to-another-structure": 20,
            "multi-record.texts": 150, "multi-record.elements-compared": 400, "rewrite-after-edit.compared": 200,
            "rewrite-after-edit.bond-type-edited": 40, "rewrite-after-edit.element-edited": 40,
            "input.name-first-char-special": 30, "input.name-100-chars-or-longer": 15, "input.label-12-chars-or-longer": 60,
            "input.label-equals-own-element-symbol": 60, "input.label-equals-other-element-symbol": 30,
            "input.bond-list-repeats-a-pair": 40, "input.bond-of-an-atom-to-itself": 10, "input.charge-nan-or-inf": 40,
            "input.charge-magnitude-1e3-or-more": 20, "input.user-subclass": 50, "route.file-name-as-str": 40,
            "route.open-file-object": 40, "writer.Substructure": 40, "writer.lone-Conformer": 40}
EXHAUSTIVE = False
CHUNK_TIMEOUT = 900
TECHNIQUE = "runtime monitoring: write/read/write/read fixed-point oracle + exhaustive atom/bond typing table"
LEVEL_TEXT = ("The typing table is enumerated completely on every run (44 982 atom triples, 15 bond types). Beyond that, "
              "held on the generated structures: each is written, read, re-written and re-read through the real codecs and "
              "compared field by field with tolerances equal to the written precision.")
LEVEL_NOTE = "Trusted: vmon/snap.py; python float formatting/parsing."


def plan(tier, seed):
    specs = [{"kind": "table", "part": i, "of": 8} for i in range(8)]
    specs.append({"kind": "bundled"})
    n = 24 if tier == "quick" else 240
    per = 25 if tier == "quick" else 100
    for i in range(n):
        specs.append({"kind": "rand", "chunk": i, "n": per, "cls": ["Molecule", "Structure", "ConformerEnsemble"][i % 3]})
    return specs


def run_chunk(spec, ctx):
    {"table": run_table, "bundled": run_bundled, "rand": run_rand}[spec["kind"]](spec, ctx)


# ------------------------------------------------------------------------------------------------

def run_table(spec, ctx):
    from molli.chem import Atom, AtomGeom, AtomType, Bond, BondType, Element

    els = list(Element)
    n = 0
    for ei, el in enumerate(els):
        if ei % spec["of"] != spec["part"]:
            continue
        for at in AtomType:
            for ge in AtomGeom:
                case = ("triple", int(el), int(at), int(ge))
                if not ctx.want(case):
                    continue
                ctx.count("table.triples")
                n += 1
                a = Atom(el, atype=at, geom=ge)
                nontriv = at not in (AtomType.Regular,) or ge != AtomGeom.Unknown
                ctx.case(case, dkey=case, nontrivial=nontriv,
                         sample={"element": el.name, "atype": at.name, "geom": ge.name} if n % 5003 == 1 else None)
                try:
                    tok = a.get_mol2_type()
                except Exception as e:  # noqa
                    ctx.violation(f"table:get_mol2_type-raises:{type(e).__name__}", case=case, element=el.name, atype=at.name, geom=ge.name)
                    continue
                if not tok or any(c.isspace() for c in tok):
                    ctx.violation("table:emitted-token-empty-or-has-whitespace", case=case, token=tok)
                    continue
                b = Atom()
                try:
                    b.set_mol2_type(tok)
                except Exception as e:  # noqa
                    ctx.violation(f"table:own-token-rejected-by-reader:{type(e).__name__}", case=case, token=tok,
                                  element=el.name, atype=at.name, geom=ge.name)
                    continue
                if b.element != el:
                    ctx.violation("table:element-not-restored", case=case, token=tok, got=b.element.name, want=el.name)
                tok2 = b.get_mol2_type()
                if tok2 != tok:
                    suffix = tok.split(".", 1)[1] if "." in tok else ""
                    ctx.violation(f"table:token-not-a-fixed-point:{'geometry-suffix' if suffix in ('pl3', 'th', 'oh') else suffix or 'bare'}-lost",
                                  case=case, token=tok, token2=tok2, element=el.name, atype=at.name, geom=ge.name)
    if spec["part"] == 0:
        a1, a2 = Atom("C"), Atom("C")
        expressible = {BondType.Single: "1", BondType.Double: "2", BondType.Triple: "3", BondType.Aromatic: "ar",
                       BondType.Amide: "am", BondType.Dummy: "du", BondType.Unknown: "un", BondType.NotConnected: "nc"}
        for bt in BondType:
            case = ("bondtype", int(bt))
            ctx.count("table.bondtypes")
            ctx.case(case, dkey=case, nontrivial=True, sample={"btype": bt.name})
            b = Bond(a1, a2, btype=bt)
            tok = b.get_mol2_type()
            c = Bond(a1, a2)
            try:
                c.set_mol2_type(tok)
            except Exception as e:  # noqa
                ctx.violation(f"table:own-bond-token-rejected:{type(e).__name__}", case=case, token=tok, btype=bt.name)
                continue
            if bt in expressible:
                if tok != expressible[bt] or c.btype != bt:
                    ctx.violation("table:expressible-bond-type-not-preserved", case=case, token=tok, btype=bt.name, got=int(c.btype))
            if c.get_mol2_type() != tok:
                ctx.violation("table:bond-token-not-a-fixed-point", case=case, token=tok)


# ------------------------------------------------------------------------------------------------

LABELS = [None, "", "C1", "x", "H12", "αβ", "a-b", "N_3", "Q" * 9, "lbl", "#1", "@x"]
NAMES = ["m", "mol_1", "name-with-dash", "Z" * 30, "ünicode", "n.1", "two words", "a  b", "x#y"]
EXPRESSIBLE = {1, 2, 3, 20, 21, 10, 0, 11}


def mol2_safe_molecule(rng, cls):
    import numpy as np
    from vmon import gen

    m = gen.molecule(rng, rich=True, labels=LABELS, special=0.0, name=rng.choice(NAMES), cls=cls)
    n = m.n_atoms
    if n:
        mode = rng.random()
        c = np.array(m.coords)
        if mode < 0.15:
            c *= 1e7
        elif mode < 0.3:
            c *= 1e-8
        if rng.random() < 0.1:
            c[rng.randrange(n), rng.randrange(3)] = float("nan")
        if rng.random() < 0.1:
            c[rng.randrange(n), rng.randrange(3)] = -0.0
        m.coords = c
        if hasattr(m, "atomic_charges") and cls.__name__ == "Molecule":
            m.atomic_charges = np.array([rng.choice([0.0, 0.125, -0.5, 0.0005, -0.0004, 12.345, rng.uniform(-2, 2)]) for _ in range(n)])
    return m


def expected_view(s, literal=False):
    """what the statement says must survive, derived from a snapshot of the source. literal=True: the view of an object
    that was READ -- no substitution at all (an unlabelled atom is written with its element symbol, a bond type mol2
    cannot express is written as Unknown: both rules describe the writer, the read side must literally equal the result)"""
    from molli.chem import Element

    v = {"name": s.get("name"),
         "elements": [a["element"] for a in s["atoms"]],
         "labels": [a["label"] if literal else (a["label"] or Element(a["element"]).name) for a in s["atoms"]],
         "bonds": [(b["a1"], b["a2"], b["btype"] if (literal or b["btype"] in EXPRESSIBLE) else 0) for b in s.get("bonds", [])],
         "coords": s.get("coords"), "charges": s.get("atomic_charges")}
    return v


def compare(ctx, case, tag, stage, want, got_snap, with_charges, with_name=True):
    import numpy as np

    g = expected_view(got_snap, literal=True)
    for f in (("name",) if with_name else ()) + ("elements", "labels", "bonds"):
        if want[f] != g[f]:
            if f in ("elements", "labels", "bonds") and len(want[f]) != len(g[f]):
                ctx.violation(f"{tag}:{stage}:{f}-count-differs", case=case, want=len(want[f]), got=len(g[f]))
            else:
                i = next((i for i, (a, b) in enumerate(zip(want[f], g[f])) if a != b), None) if f != "name" else None
                ctx.violation(f"{tag}:{stage}:{f}-differ", case=case, index=i,
                              want=want[f] if f == "name" else want[f][i], got=g[f] if f == "name" else g[f][i])
            return False
    cw, cg = np.asarray(want["coords"], dtype=float), np.asarray(g["coords"], dtype=float)
    if cw.shape != cg.shape:
        ctx.violation(f"{tag}:{stage}:coords-shape-differs", case=case, want=cw.shape, got=cg.shape)
        return False
    with np.errstate(invalid="ignore"):
        ok = (np.isnan(cw) & np.isnan(cg)) | (cw == cg) | (np.abs(cw - cg) <= 5.1e-7 + 1e-15 * np.abs(cw))
    if not ok.all():
        i = tuple(np.argwhere(~ok)[0])
        ctx.violation(f"{tag}:{stage}:coordinates-differ-beyond-written-precision", case=case, index=i, want=float(cw[i]), got=float(cg[i]))
        return False
    if with_charges and want["charges"] is not None and g["charges"] is not None:
        qw, qg = np.asarray(want["charges"], dtype=float), np.asarray(g["charges"], dtype=float)
        if qw.shape != qg.shape:
            ctx.violation(f"{tag}:{stage}:charges-shape-differs", case=case, want=qw.shape, got=qg.shape)
            return False
        with np.errstate(invalid="ignore"):
            ok = (np.isnan(qw) & np.isnan(qg)) | (qw == qg) | (np.abs(qw - qg) <= 5.1e-4 + 1e-15 * np.abs(qw))
        if not ok.all():
            i = tuple(np.argwhere(~ok)[0])
            ctx.violation(f"{tag}:{stage}:charges-differ-beyond-written-precision", case=case, index=i, want=float(qw[i]), got=float(qg[i]))
            return False
    return True


# ---- input classes added after the gap review (kept out of mol2_safe_molecule, whose output other modules rely on)
_IUPAC = "(2S,5R,6R)-3,3-dimethyl-7-oxo-6-[(2-phenylacetyl)amino]-4-thia-1-azabicyclo[3.2.0]heptane-2-carboxylic_acid"
NAMES_FIRST_CHAR = ["#12 (batch 3)", "#", "# Produced with molli package", "#x#", "@<TRIPOS>MOLECULE", "@<TRIPOS>ATOM",
                    "@<TRIPOS>BOND 1", "@<TRIPOS>SUBSTRUCTURE", "@", "****", "*****", "SMALL", "USER_CHARGES", "NO_CHARGES",
                    "3 2 0 0 0", "0"]
NAMES_LONG = [_IUPAC, _IUPAC + "_a", _IUPAC + "_b", "n" * 100, "N" * 300, (_IUPAC + " ") * 2 + "tail-1", (_IUPAC + " ") * 2 + "tail-2",
              "x" * 79 + "y", "x" * 80 + "y", "x" * 255 + "yz"]
LABELS_LONG = ["C_alpha_ring1", "C_alpha_ring2", "abcdefghijk1", "abcdefghijk2", "L" * 64, "lbl_0123456789_abcdefghij_A",
               "lbl_0123456789_abcdefghij_B", "Q" * 16, "#" + "c" * 20, "αβγδεζηθικλμ"]
OTHER_SYMBOLS = ["C", "N", "H", "O", "Fe", "Cl", "Du", "Unknown", "LP"]


def ext_molecule(rng, cls, ctx):
    """mol2_safe_molecule plus the input classes of the gap review: first-character-special and long names, long labels,
    labels equal to an element symbol, repeated pairs / self-pairs in the bond list, special partial charges"""
    import numpy as np
    from molli.chem import BondType

    m = mol2_safe_molecule(rng, cls)
    n = m.n_atoms
    r = rng.random()
    if r < 0.2:
        m.name = rng.choice(NAMES_FIRST_CHAR)
        ctx.count("input.name-first-char-special")
    elif r < 0.32:
        m.name = rng.choice(NAMES_LONG)
        if len(m.name) >= 100:
            ctx.count("input.name-100-chars-or-longer")
    if n and rng.random() < 0.6:
        for a in m.atoms:
            r = rng.random()
            if r < 0.15:
                a.label = a.element.symbol
                ctx.count("input.label-equals-own-element-symbol")
            elif r < 0.22:
                lab = rng.choice(OTHER_SYMBOLS)
                if lab != a.element.symbol:
                    a.label = lab
                    ctx.count("input.label-equals-other-element-symbol")
            elif r < 0.37:
                a.label = rng.choice(LABELS_LONG)
                ctx.count("input.label-12-chars-or-longer")
    btypes = list(BondType)
    if n >= 2 and m.n_bonds and rng.random() < 0.3:
        atoms = list(m.atoms)
        for _ in range(rng.randrange(1, 4)):
            b = rng.choice(list(m.bonds))
            i, k = atoms.index(b.a1), atoms.index(b.a2)
            if rng.random() < 0.5:
                i, k = k, i
            m.connect(i, k, btype=rng.choice([b.btype] + btypes))
        ctx.count("input.bond-list-repeats-a-pair")
    if n and rng.random() < 0.08:
        i = rng.randrange(n)
        m.connect(i, i, btype=rng.choice(btypes))
        ctx.count("input.bond-of-an-atom-to-itself")
    if n and hasattr(m, "atomic_charges") and rng.random() < 0.35:
        q = np.array(m.atomic_charges, dtype=float)
        special_charges(rng, q, ctx)
        m.atomic_charges = q
    if n and rng.random() < 0.06:
        c = np.array(m.coords)
        c[rng.randrange(n), rng.randrange(3)] = rng.choice([float("inf"), float("-inf")])
        m.coords = c
    return m


def special_charges(rng, q, ctx):
    """puts 1..3 special values (NaN, +-inf, large, tiny) into a charge array (any shape), in place"""
    import numpy as np

    flat = q.reshape(-1)
    for _ in range(rng.randrange(1, 4)):
        v = rng.choice([float("nan"), float("nan"), float("inf"), float("-inf"), 1e3, -1234.5678, 99999.9994, 12345678.125,
                        1e-4, -4.9e-4, 1e-7, -1e-30])
        flat[rng.randrange(flat.size)] = v
        if not np.isfinite(v):
            ctx.count("input.charge-nan-or-inf")
        elif abs(v) >= 1e3:
            ctx.count("input.charge-magnitude-1e3-or-more")


def edit_through_public_api(rng, x, is_ens, ctx):
    """1..4 edits of an object that has already been written; returns the list of operation names (None: an edit raised)"""
    import numpy as np
    from molli.chem import Atom, AtomGeom, AtomType, BondType, Element

    ops = ["bond-type", "element", "bond-type", "element", "atom-type", "label", "coords", "charges", "name", "add-bond", "del-bond"]
    if not is_ens:
        ops += ["add-atom", "del-atom"]
    done = []
    try:
        for op in rng.sample(ops, rng.randrange(1, 5)):
            n = x.n_atoms
            if op == "bond-type" and x.n_bonds:
                b = rng.choice(list(x.bonds))
                b.btype = rng.choice([t for t in BondType if t != b.btype])
            elif op == "element" and n:
                a = rng.choice(list(x.atoms))
                a.element = rng.choice([e for e in Element if e != a.element])
            elif op == "atom-type" and n:
                a = rng.choice(list(x.atoms))
                a.atype = rng.choice(list(AtomType))
                a.geom = rng.choice(list(AtomGeom))
            elif op == "label" and n:
                a = rng.choice(list(x.atoms))
                a.label = rng.choice(["E1", "edited-label", a.element.symbol, None, "C_alpha_ring3"])
            elif op == "coords" and n:
                c = np.array(x.coords)
                c[..., rng.randrange(n), :] += rng.choice([0.001, -1.5, 250.0])
                x.coords = c
            elif op == "charges" and n and hasattr(x, "atomic_charges"):
                q = np.array(x.atomic_charges, dtype=float)
                q[..., rng.randrange(n)] = rng.choice([0.75, -0.333, float("nan"), 0.0, 1e3])
                x.atomic_charges = q
            elif op == "name":
                x.name = rng.choice(["renamed", "#renamed", str(x.name) + "_v2", _IUPAC])
            elif op == "add-bond" and n >= 2:
                i, k = rng.sample(range(n), 2)
                x.connect(i, k, btype=rng.choice(list(BondType)))
            elif op == "del-bond" and x.n_bonds:
                x.del_bond(rng.choice(list(x.bonds)))
            elif op == "add-atom":
                x.add_atom(Atom(rng.choice(list(Element)), label=rng.choice([None, "NEW1", "N"])), [1.25, -2.5, 3.75])
                if x.n_atoms >= 2:
                    x.connect(x.n_atoms - 1, rng.randrange(x.n_atoms - 1), btype=rng.choice(list(BondType)))
            elif op == "del-atom" and n:
                x.del_atom(rng.randrange(n))
            else:
                continue
            done.append(op)
    except Exception as e:  # noqa -- the edit operations are other properties' subject
        ctx.count("rewrite-after-edit.edit-operation-raised")
        return None
    return done


def read_in_form(reader_all, form, text, path):
    """the five argument forms of load(s)_all_mol2"""
    import io

    if form == "text":
        return reader_all["loads"](text)
    if form == "stream":
        return reader_all["load"](io.StringIO(text))
    path.write_text(text)
    if form == "Path":
        return reader_all["load"](path)
    if form == "str":
        return reader_all["load"](str(path))
    return reader_all["load"](open(path, "rt"))


def run_rand(spec, ctx):
    import io
    import numpy as np
    import molli as ml
    from vmon import gen
    from vmon.snap import snap, diff, snap_hash, brief

    cname = spec["cls"]
    is_ens = cname == "ConformerEnsemble"
    for j in range(spec["n"]):
        case = (spec["chunk"], j)
        if not ctx.want(case):
            continue
        rng = ctx.rng(*case)
        base_cls = getattr(ml, cname)
        sub = j % 5 == 2
        cls = type("User" + cname, (base_cls,), {}) if sub else base_cls      # a trivial user subclass is a Molecule / ... too
        tag = cname + (":user-subclass" if sub else "")
        if sub:
            ctx.count("input.user-subclass")
        if is_ens:
            base = ext_molecule(rng, ml.Molecule, ctx)
            nc = rng.randrange(1, 7)
            x = cls(base, n_conformers=nc)
            x.coords = np.array([np.array(base.coords) + i * 0.5 + rng.random() for i in range(nc)]).reshape(nc, base.n_atoms, 3)
            q = np.array([[rng.choice([0.0, 0.25, -0.125, rng.uniform(-1, 1)]) for _ in range(base.n_atoms)]
                          for _ in range(nc)], dtype=float).reshape(nc, base.n_atoms)
            if q.size and rng.random() < 0.35:
                special_charges(rng, q, ctx)
            x.atomic_charges = q
            if rng.random() < 0.5:
                # the conformer count and order are those of the object, whatever the weights say (populations that
                # underflowed to zero, zero-initialised or unnormalised weights, NaN)
                x.weights = np.array([rng.choice([0.0, 0.0, 1.0, 0.25, 1e-300, -1.0, float("nan")]) for _ in range(nc)])
                ctx.count("input.ensemble-with-zero-or-odd-weights")
        else:
            x = ext_molecule(rng, cls, ctx)
        if not is_ens and x.n_atoms >= 2 and rng.random() < 0.2:
            # the object has lent its atoms to another structure (adopted without copy): it is still the same molecule
            helper = ml.Promolecule(rng.sample(list(x.atoms), rng.randrange(1, x.n_atoms + 1)))
            ctx.count("source.atoms-lent-to-another-structure")
            if rng.random() < 0.5:
                del helper
        sx = snap(x)
        nt = x.n_atoms >= 2 and (any(b["btype"] != 1 for b in sx.get("bonds", [])) or any(a["atype"] != 1 for a in sx["atoms"]))
        ctx.case(case, dkey=snap_hash(sx), nontrivial=nt, sample=brief(x))
        ctx.count(f"roundtrip.{cname}")
        route = rng.choice(["dumps/loads", "dump/load-stream", "dump/load-file:Path", "dump/load-file:str", "dump/load-file:open-file"])
        p = ctx.tmp / f"m{j}.mol2"
        try:
            text1 = x.dumps_mol2()
            if route == "dump/load-stream":
                buf = io.StringIO()
                x.dump_mol2(buf)
                if buf.getvalue() != text1:
                    ctx.violation(f"{tag}:dump-to-stream-differs-from-dumps", case=case)
            elif route.startswith("dump/load-file"):
                with open(p, "wt") as f:
                    x.dump_mol2(f)
                if p.read_text() != text1:
                    ctx.violation(f"{tag}:dump-to-file-differs-from-dumps", case=case)
        except Exception as e:  # noqa
            ctx.violation(f"{tag}:write-raises:{type(e).__name__}:{_where(e)}", case=case, err=repr(e)[:200], obj=brief(x))
            continue
        if snap_differs(sx, snap(x)):
            ctx.violation(f"{tag}:writing-altered-the-object", case=case)
        try:
            if route == "dump/load-file:Path":
                y = cls.load_mol2(p)
            elif route == "dump/load-file:str":
                ctx.count("route.file-name-as-str")
                y = cls.load_mol2(str(p))
            elif route == "dump/load-file:open-file":
                ctx.count("route.open-file-object")
                y = cls.load_mol2(open(p, "rt"))
            elif route == "dump/load-stream":
                y = cls.load_mol2(io.StringIO(text1))
            else:
                y = cls.loads_mol2(text1)
        except Exception as e:  # noqa
            ctx.violation(f"{tag}:own-text-rejected-by-reader:{route.split(':')[-1] + ':' if ':' in route else ''}{type(e).__name__}:{_where(e)}",
                          case=case, err=repr(e)[:200], obj=brief(x), text_head=text1[:300])
            continue
        if type(y) is not cls:
            ctx.violation(f"{tag}:read-returns-another-class", case=case, want=cls.__name__, got=type(y).__name__)
        # ---- first read vs source
        if is_ens:
            ok = compare_ensemble(ctx, case, tag, "read", x, y)
        else:
            ok = compare(ctx, case, tag, "read", expected_view(sx), snap(y), with_charges=cname == "Molecule")
            if cname == "Molecule":
                try:
                    ys = cls.loads_all_mol2(text1)
                    if len(ys) != 1:
                        ctx.violation(f"{tag}:loads_all-count-differs", case=case, got=len(ys))
                except Exception as e:  # noqa
                    ctx.violation(f"{tag}:loads_all-raises:{type(e).__name__}", case=case)
        if not ok:
            continue
        # ---- several DIFFERENT molecules in one text, read with load(s)_all_mol2: every element against its own source
        if not is_ens:
            multi_record(ctx, case, tag, rng, cls, cname, x, j)
        # ---- writers that are Structures / Molecules without being built as such: Substructure, lone Conformer
        if not is_ens and j % 3 == 1:
            substructure_writer(ctx, case, rng, x)
        if is_ens and x.n_conformers:
            i = rng.randrange(x.n_conformers)
            try:
                ctx.count("writer.lone-Conformer")
                conf = x[i]
                yc = ml.Molecule.loads_mol2(conf.dumps_mol2())
                compare(ctx, case, "Conformer", "read", expected_view(snap(conf)), snap(yc), with_charges=True)
            except Exception as e:  # noqa
                ctx.violation(f"Conformer:write-read-raises:{type(e).__name__}:{_where(e)}", case=case, err=repr(e)[:200])
        # ---- the same molecule after a trip through a library file (fields come back as plain values) writes the same
        # atom-type and bond-type tokens as the original
        if j % 4 == 1 and cname in ("Molecule", "ConformerEnsemble") and x.n_atoms:
            try:
                Lib = ml.MoleculeLibrary if cname == "Molecule" else ml.ConformerLibrary
                lp = ctx.tmp / f"trip{j}.{'mlib' if cname == 'Molecule' else 'clib'}"
                lib = Lib(lp, readonly=False, overwrite=True)
                with lib.writing():
                    lib["x"] = x
                with lib.reading():
                    xl = lib["x"]
                lp.unlink()
                ctx.count("library-trip.type-tokens-compared")
                t0, t1 = type_tokens(text1), type_tokens(xl.dumps_mol2())
                if t0 != t1:
                    i = next((i for i, (a, b) in enumerate(zip(t0, t1)) if a != b), None)
                    ctx.violation(f"{tag}:type-tokens-differ-after-library-trip", case=case, index=i,
                                  original=t0[i] if i is not None else len(t0), after_trip=t1[i] if i is not None else len(t1))
            except Exception as e:  # noqa
                ctx.violation(f"{tag}:library-trip-raises:{type(e).__name__}", case=case, err=repr(e)[:200])
        # ---- reading the same text again after the caller edited the first result gives the text's content again
        if j % 3 == 0:
            s_first = snap(y)
            try:
                y.name = "edited-by-caller"
                if y.n_atoms:
                    y.atoms[0].label = "EDITED"
                    y.coords[...] = 4321.0
                y_again = cls.loads_mol2(text1)
                ctx.count("read.again-after-editing-first-result")
                d = diff(s_first, snap(y_again))
                if d:
                    ctx.violation(f"{tag}:second-read-of-the-same-text-differs:{d[0][0].split('[')[0].strip('.')}", case=case, diff=d[:3])
                y = y_again
            except Exception as e:  # noqa
                ctx.violation(f"{tag}:second-read-of-the-same-text-raises:{type(e).__name__}", case=case, err=repr(e)[:200])
                continue
        # ---- fixed point
        try:
            text2 = y.dumps_mol2()
            z = cls.loads_mol2(text2)
        except Exception as e:  # noqa
            ctx.violation(f"{tag}:second-cycle-raises:{type(e).__name__}:{_where(e)}", case=case, err=repr(e)[:200])
            continue
        ctx.count("fixedpoint.text")
        if norm_text(text2) != norm_text(text1):
            l1, l2 = norm_text(text1).splitlines(), norm_text(text2).splitlines()
            i = next((i for i, (a, b) in enumerate(zip(l1, l2)) if a != b), min(len(l1), len(l2)))
            a, b = (l1[i] if i < len(l1) else "<eof>"), (l2[i] if i < len(l2) else "<eof>")
            ctx.violation(f"{tag}:text-not-a-fixed-point:{classify_line_diff(a, b)}", case=case, line=i, first=a, second=b)
            continue
        d = diff(snap(y), snap(z))
        if d:
            ctx.violation(f"{tag}:second-read-differs:{d[0][0].split(chr(91))[0].strip(chr(46))}", case=case, diff=d[:3])
            continue
        # ---- write -> edit through the public API -> write: the second text describes the edited object
        done = edit_through_public_api(rng, x, is_ens, ctx)
        if not done:
            continue
        sx2 = snap(x)
        try:
            text3 = x.dumps_mol2()
        except Exception as e:  # noqa
            ctx.violation(f"{tag}:rewrite-after-edit:write-raises:{type(e).__name__}:{_where(e)}", case=case, edits=done, err=repr(e)[:200])
            continue
        try:
            y3 = cls.loads_mol2(text3)
        except Exception as e:  # noqa
            ctx.violation(f"{tag}:rewrite-after-edit:own-text-rejected-by-reader:{type(e).__name__}:{_where(e)}", case=case, edits=done,
                          err=repr(e)[:200])
            continue
        ctx.count("rewrite-after-edit.compared")
        for op in set(done):
            if op in ("bond-type", "element"):
                ctx.count(f"rewrite-after-edit.{op}-edited")
        if is_ens:
            compare_ensemble(ctx, case, tag, "rewrite-after-edit:read", x, y3)
        else:
            compare(ctx, case, tag, "rewrite-after-edit:read", expected_view(sx2), snap(y3), with_charges=cname == "Molecule")


def multi_record(ctx, case, tag, rng, cls, cname, x, j):
    import io
    import numpy as np
    import molli as ml
    from vmon.snap import snap

    UserMolecule = type("UserMoleculeSource", (ml.Molecule,), {})
    sources = [x]
    for _ in range(rng.randrange(1, 4)):
        r = rng.random()
        if r < 0.2:
            b = ext_molecule(rng, ml.Molecule, ctx)
            e = ml.ConformerEnsemble(b, n_conformers=2)
            e.coords = np.array([np.array(b.coords) + 0.25, np.array(b.coords) - 1.0]).reshape(2, b.n_atoms, 3)
            e.atomic_charges = np.array([b.atomic_charges, b.atomic_charges * 0.5]).reshape(2, b.n_atoms)
            sources += [e[0], e[1]]
        else:
            sources.append(ext_molecule(rng, rng.choice([ml.Molecule, ml.Molecule, ml.Structure, UserMolecule]), ctx))
    rng.shuffle(sources)
    buf = io.StringIO()
    try:
        for s in sources:
            s.dump_mol2(buf)
    except Exception as e:  # noqa
        ctx.violation(f"{tag}:multi-record:write-raises:{type(e).__name__}:{_where(e)}", case=case, err=repr(e)[:200])
        return
    text = buf.getvalue()
    form = rng.choice(["text", "stream", "Path", "str", "open-file"])
    ctx.count({"str": "route.file-name-as-str", "open-file": "route.open-file-object"}.get(form, "route.other"))
    try:
        got = read_in_form({"loads": cls.loads_all_mol2, "load": cls.load_all_mol2}, form, text, ctx.tmp / f"multi{j}.mol2")
    except Exception as e:  # noqa
        ctx.violation(f"{tag}:multi-record:own-text-rejected-by-reader:{form}:{type(e).__name__}:{_where(e)}", case=case,
                      err=repr(e)[:200], n_records=len(sources))
        return
    ctx.count("multi-record.texts")
    if not isinstance(got, list) or len(got) != len(sources):
        ctx.violation(f"{tag}:multi-record:record-count-differs", case=case, want=len(sources),
                      got=len(got) if isinstance(got, list) else type(got).__name__)
        return
    for s, g in zip(sources, got):
        ctx.count("multi-record.elements-compared")
        if type(g) is not cls:
            ctx.violation(f"{tag}:multi-record:read-returns-another-class", case=case, want=cls.__name__, got=type(g).__name__)
        if not compare(ctx, case, tag, "multi-record:read", expected_view(snap(s)), snap(g),
                       with_charges=cname == "Molecule" and isinstance(s, ml.Molecule)):
            return


def substructure_writer(ctx, case, rng, x):
    import molli as ml
    from vmon.snap import snap

    n = x.n_atoms
    how = rng.choice(["constructor", "constructor", "method", "heavy"])
    try:
        if how == "heavy":
            s = x.heavy
        else:
            idx = rng.sample(range(n), rng.randrange(0, n + 1))
            s = ml.Substructure(x, idx) if how == "constructor" else x.substructure(idx)
        ss = snap(s)
    except Exception as e:  # noqa -- building a Substructure is not this property's subject
        ctx.count("writer.Substructure-could-not-be-built")
        return
    ctx.count("writer.Substructure")
    try:
        text = s.dumps_mol2()
    except Exception as e:  # noqa
        ctx.violation(f"Substructure:write-raises:{type(e).__name__}:{_where(e)}", case=case, err=repr(e)[:200], how=how)
        return
    try:
        y = ml.Structure.loads_mol2(text)
    except Exception as e:  # noqa
        ctx.violation(f"Substructure:own-text-rejected-by-reader:{type(e).__name__}:{_where(e)}", case=case, err=repr(e)[:200])
        return
    compare(ctx, case, "Substructure", "read", expected_view(ss), snap(y), with_charges=False, with_name=False)


def norm_text(t):
    """the sign of a zero that was rounded for printing is not a change of the molecule: -0.000 == 0.000"""
    import re

    return re.sub(r"(?<![\w.])-(0\.0+)(?![\d])", r"\1", t)


def type_tokens(text):
    """atom-type column of the ATOM lines and type column of the BOND lines of a mol2 text"""
    out, sect = [], None
    for ln in text.splitlines():
        if ln.startswith("@<TRIPOS>"):
            sect = ln[9:].strip()
            continue
        t = ln.split()
        if sect == "ATOM" and len(t) >= 6:
            out.append(("a", t[5]))
        elif sect == "BOND" and len(t) >= 4:
            out.append(("b", t[3]))
    return out


def classify_line_diff(a, b):
    ta, tb = a.split(), b.split()
    if len(ta) >= 9 and len(tb) >= 9:
        for name, i in (("label", 1), ("x", 2), ("y", 3), ("z", 4), ("atom-type", 5), ("charge", 8)):
            if ta[i] != tb[i]:
                return name
    if len(ta) == 4 and len(tb) == 4:
        return "bond-line"
    return "other"


def compare_ensemble(ctx, case, tag, stage, x, y):
    from vmon.snap import snap

    if y.n_conformers != x.n_conformers:
        ctx.violation(f"{tag}:{stage}:conformer-count-differs", case=case, want=x.n_conformers, got=y.n_conformers)
        return False
    for i in range(x.n_conformers):
        if not compare(ctx, case, tag, f"{stage}:conformer", expected_view(snap(x[i])), snap(y[i]), with_charges=True):
            return False
    return True


def snap_differs(a, b):
    from vmon.snap import diff

    return bool(diff(a, b))


def _where(e):
    import traceback

    tb = traceback.extract_tb(e.__traceback__)
    for fr in reversed(tb):
        if "/molli/" in fr.filename:
            return fr.name
    return tb[-1].name if tb else "?"


def run_bundled(spec, ctx):
    import molli as ml
    from vmon.snap import snap, diff

    files = ["dendrobine.mol2", "hadd_test.mol2", "dmf.mol2", "benzene.mol2", "propyne.mol2", "isornitrate.mol2",
             "dimethyl_sulfone.mol2", "fxyl.mol2", "dummy.mol2", "bpa_core.mol2", "box_alignment_core.mol2",
             "cinchonidine_query.mol2", "pdb_4a05.mol2", "nanotube.mol2", "pentane_confs.mol2"]
    for f in files:
        case = ("bundled", f)
        if not ctx.want(case):
            continue
        p = ml.files.ROOT / f
        if not p.exists() or p.stat().st_size == 0:
            continue
        ctx.count("bundled.files")
        for cls in (ml.Molecule, ml.Structure, ml.ConformerEnsemble):
            tag = f"bundled:{cls.__name__}"
            try:
                y = cls.load_mol2(p)
                text1 = y.dumps_mol2()
                z = cls.loads_mol2(text1)
                text2 = z.dumps_mol2()
            except Exception as e:  # noqa
                ctx.violation(f"{tag}:cycle-raises:{type(e).__name__}:{_where(e)}", case=case, err=repr(e)[:200])
                continue
            ctx.case(case + (cls.__name__,), dkey=(f, cls.__name__), nontrivial=True, sample={"file": f, "cls": cls.__name__})
            if cls is ml.ConformerEnsemble:
                compare_ensemble(ctx, case, tag, "read", y, z)
            else:
                compare(ctx, case, tag, "read", expected_view(snap(y)), snap(z), with_charges=cls is ml.Molecule)
            ctx.count("fixedpoint.text")
            if norm_text(text1) != norm_text(text2):
                l1, l2 = norm_text(text1).splitlines(), norm_text(text2).splitlines()
                i = next((i for i, (a, b) in enumerate(zip(l1, l2)) if a != b), min(len(l1), len(l2)))
                ctx.violation(f"{tag}:text-not-a-fixed-point:{classify_line_diff(l1[i] if i < len(l1) else '', l2[i] if i < len(l2) else '')}",
                              case=case, line=i, first=l1[i] if i < len(l1) else None, second=l2[i] if i < len(l2) else None)
