"""
C07 -- mol2 written by molli reads back as the same molecule.

Monitor shape: round-trip / fixed-point oracle.
  text1 = dumps(x); y = loads(text1); text2 = dumps(y); z = loads(text2)
for Molecule, Structure and ConformerEnsemble, plus the exhaustive atom-typing table (119 x 22 x 17 triples) and all
bond types, plus the bundled mol2 files as realistic inputs (read -> write -> read).
"""
from __future__ import annotations

ID = "C07"
LEVEL = "exploration"
RULE = ("(a) exhaustive typing table: every (element, AtomType, AtomGeom) triple and every BondType: emitted token accepted by "
        "the reader, element restored, re-emitted token identical; (b) seeded random Molecule/Structure/ConformerEnsemble "
        "objects (0..40 atoms, all elements, every enum member, whitespace-free labels incl. None/empty/unicode, one-line "
        "names, coordinates from 1e-9 to 1e8, NaN, charges, 0..dense bonds of every type, 1..6 conformers) through "
        "dumps/loads, dump/load on files and streams, loads_all; (c) bundled mol2 files read -> write -> read. "
        "non-trivial = >=2 atoms and a non-single bond or a non-Regular atom type; distinct by snapshot hash")
ASSUMPTIONS = [
    "atom TYPE (AtomType/AtomGeom) preservation is not demanded beyond the fixed point of the text: the statement lists "
    "element, label, coordinates, charges, bonds",
    "an atom without label is written with its element symbol as label (compared as such)",
    "coordinates compare within 5.1e-7 absolute (12.6f), charges within 5.1e-4 (0.3f); NaN matches NaN",
    "the fixed point is judged modulo the sign of a printed zero (-0.000 == 0.000)",
    "bond types mol2 cannot express (Quadruple..Sextuple are expressible; Ligand, FractionalOrder, H_Donor, H_Acceptor are "
    "not) must read back as Unknown",
]
REQUIRED = {"table.triples": 44982, "table.bondtypes": 15, "roundtrip.Molecule": 100, "roundtrip.Structure": 50,
            "roundtrip.ConformerEnsemble": 50, "fixedpoint.text": 200, "bundled.files": 5,
            "read.again-after-editing-first-result": 50, "library-trip.type-tokens-compared": 40, "source.atoms-lent-to-another-structure": 20}
EXHAUSTIVE = False
CHUNK_TIMEOUT = 900
TECHNIQUE = "runtime monitoring: write/read/write/read fixed-point oracle + exhaustive atom/bond typing table"
LEVEL_TEXT = ("The typing table is enumerated completely on every run (44 982 atom triples, 15 bond types). Beyond that, "
              "held on the generated structures: each is written, read, re-written and re-read through the real codecs and "
              "compared field by field with tolerances equal to the written precision.")
LEVEL_NOTE = "Trusted: vmon/snap.py; python float formatting/parsing."


def plan(tier, seed):
    specs = [{"kind": "table", "part": i, "of": 8} for i in range(8)]
    specs.append({"kind": "bundled"})
    n = 24 if tier == "quick" else 240
    per = 25 if tier == "quick" else 100
    for i in range(n):
        specs.append({"kind": "rand", "chunk": i, "n": per, "cls": ["Molecule", "Structure", "ConformerEnsemble"][i % 3]})
    return specs


def run_chunk(spec, ctx):
    {"table": run_table, "bundled": run_bundled, "rand": run_rand}[spec["kind"]](spec, ctx)


# ------------------------------------------------------------------------------------------------

def run_table(spec, ctx):
    from molli.chem import Atom, AtomGeom, AtomType, Bond, BondType, Element

    els = list(Element)
    n = 0
    for ei, el in enumerate(els):
        if ei % spec["of"] != spec["part"]:
            continue
        for at in AtomType:
            for ge in AtomGeom:
                case = ("triple", int(el), int(at), int(ge))
                if not ctx.want(case):
                    continue
                ctx.count("table.triples")
                n += 1
                a = Atom(el, atype=at, geom=ge)
                nontriv = at not in (AtomType.Regular,) or ge != AtomGeom.Unknown
                ctx.case(case, dkey=case, nontrivial=nontriv,
                         sample={"element": el.name, "atype": at.name, "geom": ge.name} if n % 5003 == 1 else None)
                try:
                    tok = a.get_mol2_type()
                except Exception as e:  # noqa
                    ctx.violation(f"table:get_mol2_type-raises:{type(e).__name__}", case=case, element=el.name, atype=at.name, geom=ge.name)
                    continue
                if not tok or any(c.isspace() for c in tok):
                    ctx.violation("table:emitted-token-empty-or-has-whitespace", case=case, token=tok)
                    continue
                b = Atom()
                try:
                    b.set_mol2_type(tok)
                except Exception as e:  # noqa
                    ctx.violation(f"table:own-token-rejected-by-reader:{type(e).__name__}", case=case, token=tok,
                                  element=el.name, atype=at.name, geom=ge.name)
                    continue
                if b.element != el:
                    ctx.violation("table:element-not-restored", case=case, token=tok, got=b.element.name, want=el.name)
                tok2 = b.get_mol2_type()
                if tok2 != tok:
                    suffix = tok.split(".", 1)[1] if "." in tok else ""
                    ctx.violation(f"table:token-not-a-fixed-point:{'geometry-suffix' if suffix in ('pl3', 'th', 'oh') else suffix or 'bare'}-lost",
                                  case=case, token=tok, token2=tok2, element=el.name, atype=at.name, geom=ge.name)
    if spec["part"] == 0:
        a1, a2 = Atom("C"), Atom("C")
        expressible = {BondType.Single: "1", BondType.Double: "2", BondType.Triple: "3", BondType.Aromatic: "ar",
                       BondType.Amide: "am", BondType.Dummy: "du", BondType.Unknown: "un", BondType.NotConnected: "nc"}
        for bt in BondType:
            case = ("bondtype", int(bt))
            ctx.count("table.bondtypes")
            ctx.case(case, dkey=case, nontrivial=True, sample={"btype": bt.name})
            b = Bond(a1, a2, btype=bt)
            tok = b.get_mol2_type()
            c = Bond(a1, a2)
            try:
                c.set_mol2_type(tok)
            except Exception as e:  # noqa
                ctx.violation(f"table:own-bond-token-rejected:{type(e).__name__}", case=case, token=tok, btype=bt.name)
                continue
            if bt in expressible:
                if tok != expressible[bt] or c.btype != bt:
                    ctx.violation("table:expressible-bond-type-not-preserved", case=case, token=tok, btype=bt.name, got=int(c.btype))
            if c.get_mol2_type() != tok:
                ctx.violation("table:bond-token-not-a-fixed-point", case=case, token=tok)


# ------------------------------------------------------------------------------------------------

LABELS = [None, "", "C1", "x", "H12", "αβ", "a-b", "N_3", "Q" * 9, "lbl", "#1", "@x"]
NAMES = ["m", "mol_1", "name-with-dash", "Z" * 30, "ünicode", "n.1", "two words", "a  b", "x#y"]
EXPRESSIBLE = {1, 2, 3, 20, 21, 10, 0, 11}


def mol2_safe_molecule(rng, cls):
    import numpy as np
    from vmon import gen

    m = gen.molecule(rng, rich=True, labels=LABELS, special=0.0, name=rng.choice(NAMES), cls=cls)
    n = m.n_atoms
    if n:
        mode = rng.random()
        c = np.array(m.coords)
        if mode < 0.15:
            c *= 1e7
        elif mode < 0.3:
            c *= 1e-8
        if rng.random() < 0.1:
            c[rng.randrange(n), rng.randrange(3)] = float("nan")
        if rng.random() < 0.1:
            c[rng.randrange(n), rng.randrange(3)] = -0.0
        m.coords = c
        if hasattr(m, "atomic_charges") and cls.__name__ == "Molecule":
            m.atomic_charges = np.array([rng.choice([0.0, 0.125, -0.5, 0.0005, -0.0004, 12.345, rng.uniform(-2, 2)]) for _ in range(n)])
    return m


def expected_view(s):
    """what the statement says must survive, derived from a snapshot of the source"""
    from molli.chem import Element

    v = {"name": s.get("name"),
         "elements": [a["element"] for a in s["atoms"]],
         "labels": [a["label"] or Element(a["element"]).name for a in s["atoms"]],
         "bonds": [(b["a1"], b["a2"], b["btype"] if b["btype"] in EXPRESSIBLE else 0) for b in s.get("bonds", [])],
         "coords": s.get("coords"), "charges": s.get("atomic_charges")}
    return v


def compare(ctx, case, tag, stage, want, got_snap, with_charges):
    import numpy as np

    g = expected_view(got_snap)
    for f in ("name", "elements", "labels", "bonds"):
        if want[f] != g[f]:
            if f in ("elements", "labels", "bonds") and len(want[f]) != len(g[f]):
                ctx.violation(f"{tag}:{stage}:{f}-count-differs", case=case, want=len(want[f]), got=len(g[f]))
            else:
                i = next((i for i, (a, b) in enumerate(zip(want[f], g[f])) if a != b), None) if f != "name" else None
                ctx.violation(f"{tag}:{stage}:{f}-differ", case=case, index=i,
                              want=want[f] if f == "name" else want[f][i], got=g[f] if f == "name" else g[f][i])
            return False
    cw, cg = np.asarray(want["coords"], dtype=float), np.asarray(g["coords"], dtype=float)
    if cw.shape != cg.shape:
        ctx.violation(f"{tag}:{stage}:coords-shape-differs", case=case, want=cw.shape, got=cg.shape)
        return False
    with np.errstate(invalid="ignore"):
        ok = (np.isnan(cw) & np.isnan(cg)) | (np.abs(cw - cg) <= 5.1e-7 + 1e-15 * np.abs(cw))
    if not ok.all():
        i = tuple(np.argwhere(~ok)[0])
        ctx.violation(f"{tag}:{stage}:coordinates-differ-beyond-written-precision", case=case, index=i, want=float(cw[i]), got=float(cg[i]))
        return False
    if with_charges and want["charges"] is not None and g["charges"] is not None:
        qw, qg = np.asarray(want["charges"], dtype=float), np.asarray(g["charges"], dtype=float)
        if qw.shape != qg.shape:
            ctx.violation(f"{tag}:{stage}:charges-shape-differs", case=case, want=qw.shape, got=qg.shape)
            return False
        with np.errstate(invalid="ignore"):
            ok = (np.isnan(qw) & np.isnan(qg)) | (np.abs(qw - qg) <= 5.1e-4)
        if not ok.all():
            i = tuple(np.argwhere(~ok)[0])
            ctx.violation(f"{tag}:{stage}:charges-differ-beyond-written-precision", case=case, index=i, want=float(qw[i]), got=float(qg[i]))
            return False
    return True


def run_rand(spec, ctx):
    import io
    import numpy as np
    import molli as ml
    from vmon import gen
    from vmon.snap import snap, diff, snap_hash, brief

    cname = spec["cls"]
    for j in range(spec["n"]):
        case = (spec["chunk"], j)
        if not ctx.want(case):
            continue
        rng = ctx.rng(*case)
        tag = cname
        if cname == "ConformerEnsemble":
            base = mol2_safe_molecule(rng, ml.Molecule)
            nc = rng.randrange(1, 7)
            x = ml.ConformerEnsemble(base, n_conformers=nc)
            x.coords = np.array([np.array(base.coords) + i * 0.5 + rng.random() for i in range(nc)]).reshape(nc, base.n_atoms, 3)
            x.atomic_charges = np.array([[rng.choice([0.0, 0.25, -0.125, rng.uniform(-1, 1)]) for _ in range(base.n_atoms)]
                                         for _ in range(nc)]).reshape(nc, base.n_atoms)
            cls = ml.ConformerEnsemble
        else:
            cls = getattr(ml, cname)
            x = mol2_safe_molecule(rng, cls)
        if cname != "ConformerEnsemble" and x.n_atoms >= 2 and rng.random() < 0.2:
            # the object has lent its atoms to another structure (adopted without copy): it is still the same molecule
            helper = ml.Promolecule(rng.sample(list(x.atoms), rng.randrange(1, x.n_atoms + 1)))
            ctx.count("source.atoms-lent-to-another-structure")
            if rng.random() < 0.5:
                del helper
        sx = snap(x)
        nt = x.n_atoms >= 2 and (any(b["btype"] != 1 for b in sx.get("bonds", [])) or any(a["atype"] != 1 for a in sx["atoms"]))
        ctx.case(case, dkey=snap_hash(sx), nontrivial=nt, sample=brief(x))
        ctx.count(f"roundtrip.{cname}")
        route = rng.choice(["dumps/loads", "dump/load-stream", "dump/load-file"])
        try:
            text1 = x.dumps_mol2()
            if route == "dump/load-stream":
                buf = io.StringIO()
                x.dump_mol2(buf)
                if buf.getvalue() != text1:
                    ctx.violation(f"{tag}:dump-to-stream-differs-from-dumps", case=case)
        except Exception as e:  # noqa
            ctx.violation(f"{tag}:write-raises:{type(e).__name__}:{_where(e)}", case=case, err=repr(e)[:200], obj=brief(x))
            continue
        if snap_differs(sx, snap(x)):
            ctx.violation(f"{tag}:writing-altered-the-object", case=case)
        try:
            if route == "dump/load-file":
                p = ctx.tmp / f"m{j}.mol2"
                p.write_text(text1)
                y = cls.load_mol2(p)
            elif route == "dump/load-stream":
                y = cls.load_mol2(io.StringIO(text1))
            else:
                y = cls.loads_mol2(text1)
        except Exception as e:  # noqa
            ctx.violation(f"{tag}:own-text-rejected-by-reader:{type(e).__name__}:{_where(e)}", case=case, err=repr(e)[:200],
                          obj=brief(x), text_head=text1[:300])
            continue
        # ---- first read vs source
        if cname == "ConformerEnsemble":
            ok = compare_ensemble(ctx, case, tag, "read", x, y)
        else:
            ok = compare(ctx, case, tag, "read", expected_view(sx), snap(y), with_charges=cname == "Molecule")
            if cname == "Molecule":
                try:
                    ys = ml.Molecule.loads_all_mol2(text1)
                    if len(ys) != 1:
                        ctx.violation(f"{tag}:loads_all-count-differs", case=case, got=len(ys))
                except Exception as e:  # noqa
                    ctx.violation(f"{tag}:loads_all-raises:{type(e).__name__}", case=case)
        if not ok:
            continue
        # ---- the same molecule after a trip through a library file (fields come back as plain values) writes the same
        # atom-type and bond-type tokens as the original
        if j % 4 == 1 and cname in ("Molecule", "ConformerEnsemble") and x.n_atoms:
            try:
                Lib = ml.MoleculeLibrary if cname == "Molecule" else ml.ConformerLibrary
                lp = ctx.tmp / f"trip{j}.{'mlib' if cname == 'Molecule' else 'clib'}"
                lib = Lib(lp, readonly=False, overwrite=True)
                with lib.writing():
                    lib["x"] = x
                with lib.reading():
                    xl = lib["x"]
                lp.unlink()
                ctx.count("library-trip.type-tokens-compared")
                t0, t1 = type_tokens(text1), type_tokens(xl.dumps_mol2())
                if t0 != t1:
                    i = next((i for i, (a, b) in enumerate(zip(t0, t1)) if a != b), None)
                    ctx.violation(f"{tag}:type-tokens-differ-after-library-trip", case=case, index=i,
                                  original=t0[i] if i is not None else len(t0), after_trip=t1[i] if i is not None else len(t1))
            except Exception as e:  # noqa
                ctx.violation(f"{tag}:library-trip-raises:{type(e).__name__}", case=case, err=repr(e)[:200])
        # ---- reading the same text again after the caller edited the first result gives the text's content again
        if j % 3 == 0:
            s_first = snap(y)
            try:
                y.name = "edited-by-caller"
                if y.n_atoms:
                    y.atoms[0].label = "EDITED"
                    y.coords[...] = 4321.0
                y_again = cls.loads_mol2(text1)
                ctx.count("read.again-after-editing-first-result")
                d = diff(s_first, snap(y_again))
                if d:
                    ctx.violation(f"{tag}:second-read-of-the-same-text-differs:{d[0][0].split('[')[0].strip('.')}", case=case, diff=d[:3])
                y = y_again
            except Exception as e:  # noqa
                ctx.violation(f"{tag}:second-read-of-the-same-text-raises:{type(e).__name__}", case=case, err=repr(e)[:200])
                continue
        # ---- fixed point
        try:
            text2 = y.dumps_mol2()
            z = cls.loads_mol2(text2)
        except Exception as e:  # noqa
            ctx.violation(f"{tag}:second-cycle-raises:{type(e).__name__}:{_where(e)}", case=case, err=repr(e)[:200])
            continue
        ctx.count("fixedpoint.text")
        if norm_text(text2) != norm_text(text1):
            l1, l2 = norm_text(text1).splitlines(), norm_text(text2).splitlines()
            i = next((i for i, (a, b) in enumerate(zip(l1, l2)) if a != b), min(len(l1), len(l2)))
            a, b = (l1[i] if i < len(l1) else "<eof>"), (l2[i] if i < len(l2) else "<eof>")
            ctx.violation(f"{tag}:text-not-a-fixed-point:{classify_line_diff(a, b)}", case=case, line=i, first=a, second=b)
            continue
        d = diff(snap(y), snap(z))
        if d:
            ctx.violation(f"{tag}:second-read-differs:{d[0][0].split(chr(91))[0].strip(chr(46))}", case=case, diff=d[:3])


def norm_text(t):
    """the sign of a zero that was rounded for printing is not a change of the molecule: -0.000 == 0.000"""
    import re

    return re.sub(r"(?<![\w.])-(0\.0+)(?![\d])", r"\1", t)


def type_tokens(text):
    """atom-type column of the ATOM lines and type column of the BOND lines of a mol2 text"""
    out, sect = [], None
    for ln in text.splitlines():
        if ln.startswith("@<TRIPOS>"):
            sect = ln[9:].strip()
            continue
        t = ln.split()
        if sect == "ATOM" and len(t) >= 6:
            out.append(("a", t[5]))
        elif sect == "BOND" and len(t) >= 4:
            out.append(("b", t[3]))
    return out


def classify_line_diff(a, b):
    ta, tb = a.split(), b.split()
    if len(ta) >= 9 and len(tb) >= 9:
        for name, i in (("label", 1), ("x", 2), ("y", 3), ("z", 4), ("atom-type", 5), ("charge", 8)):
            if ta[i] != tb[i]:
                return name
    if len(ta) == 4 and len(tb) == 4:
        return "bond-line"
    return "other"


def compare_ensemble(ctx, case, tag, stage, x, y):
    from vmon.snap import snap

    if y.n_conformers != x.n_conformers:
        ctx.violation(f"{tag}:{stage}:conformer-count-differs", case=case, want=x.n_conformers, got=y.n_conformers)
        return False
    for i in range(x.n_conformers):
        if not compare(ctx, case, tag, f"{stage}:conformer", expected_view(snap(x[i])), snap(y[i]), with_charges=True):
            return False
    return True


def snap_differs(a, b):
    from vmon.snap import diff

    return bool(diff(a, b))


def _where(e):
    import traceback

    tb = traceback.extract_tb(e.__traceback__)
    for fr in reversed(tb):
        if "/molli/" in fr.filename:
            return fr.name
    return tb[-1].name if tb else "?"


def run_bundled(spec, ctx):
    import molli as ml
    from vmon.snap import snap, diff

    files = ["dendrobine.mol2", "hadd_test.mol2", "dmf.mol2", "benzene.mol2", "propyne.mol2", "isornitrate.mol2",
             "dimethyl_sulfone.mol2", "fxyl.mol2", "dummy.mol2", "bpa_core.mol2", "box_alignment_core.mol2",
             "cinchonidine_query.mol2", "pdb_4a05.mol2", "nanotube.mol2", "pentane_confs.mol2"]
    for f in files:
        case = ("bundled", f)
        if not ctx.want(case):
            continue
        p = ml.files.ROOT / f
        if not p.exists() or p.stat().st_size == 0:
            continue
        ctx.count("bundled.files")
        for cls in (ml.Molecule, ml.Structure, ml.ConformerEnsemble):
            tag = f"bundled:{cls.__name__}"
            try:
                y = cls.load_mol2(p)
                text1 = y.dumps_mol2()
                z = cls.loads_mol2(text1)
                text2 = z.dumps_mol2()
            except Exception as e:  # noqa
                ctx.violation(f"{tag}:cycle-raises:{type(e).__name__}:{_where(e)}", case=case, err=repr(e)[:200])
                continue
            ctx.case(case + (cls.__name__,), dkey=(f, cls.__name__), nontrivial=True, sample={"file": f, "cls": cls.__name__})
            if cls is ml.ConformerEnsemble:
                compare_ensemble(ctx, case, tag, "read", y, z)
            else:
                compare(ctx, case, tag, "read", expected_view(snap(y)), snap(z), with_charges=cls is ml.Molecule)
            ctx.count("fixedpoint.text")
            if norm_text(text1) != norm_text(text2):
                l1, l2 = norm_text(text1).splitlines(), norm_text(text2).splitlines()
                i = next((i for i, (a, b) in enumerate(zip(l1, l2)) if a != b), min(len(l1), len(l2)))
                ctx.violation(f"{tag}:text-not-a-fixed-point:{classify_line_diff(l1[i] if i < len(l1) else '', l2[i] if i < len(l2) else '')}",
                              case=case, line=i, first=l1[i] if i < len(l1) else None, second=l2[i] if i < len(l2) else None)
