"""
C04 -- concurrent library sessions are serialised and survive failing sessions.

Three monitors:
  mp    real multi-process schedules (8..16 worker processes with long-lived handles and injected delays); each worker
        logs its session intervals (CLOCK_MONOTONIC, taken inside the session) and what it saw; an offline checker
        decides mutual exclusion, conservation, reader completeness and real-time visibility.
  seq   all sequences of k non-overlapping sessions over 2-3 handle objects on one path against the map model
        (drives the stale-index refresh at session begin).
  fail  an exception injected at each step of a session (body, value encoder, backend write of the j-th record during the
        exit flush -- natural duplicate and injected --, end_write / end_read): afterwards the same handle, another handle
        and a FRESH PROCESS must be able to run a session (lock released, file closed), earlier records intact.
        What is raised is an Exception subclass and, for the steps user code can be interrupted in, something that is NOT an
        Exception (KeyboardInterrupt, SystemExit, GeneratorExit, a BaseException subclass); the failing reading session
        also runs on a handle opened read-only.
Further schedules (each with its own offline rule): lateopen, locktimeout, longlived, and
  recreate  another process constructs the library anew (overwrite=True) while a reading / writing session of this process
        is inside: the session keeps a complete view, afterwards the library is what the creator's session stored.
Added after the second gap review:
  * every process C04 starts (workers, waiting parties, creators, probes) runs with its OWN PYTHONHASHSEED (the framework pins
    0 for the check children): whatever a library derives from hash(str) differs between the processes of a schedule;
  * lateopen and the racing-creation mp schedules also run through MoleculeLibrary and ConformerLibrary;
  * recreate: the creator stores a size-preserving rewrite of the old contents (also with the same last record);
  * fail: the REAL close fails (the OS refuses the buffered bytes: RLIMIT_FSIZE), judged in the failing process (descriptor,
    later sessions of the same handle), from a fresh process, and after the failing process has ended;
  * exitqueue: a process ends with records still queued in its buffered handle while a session of another process is inside:
    the file does not change under that session, the records of completed sessions are intact afterwards;
  * locktimeout also on a directory-backed library (DirCollectionBackend).
Mechanisms that fail on the unchanged tree: KNOWN_ON_UNCHANGED_TREE (tools/findings/C04-ext.json).
Handles opened read-only (readonly=True, the default of MoleculeLibrary(path)) take part as long-lived handles in mp (every
fourth worker), longlived, locktimeout, recreate and fail; the mp workers reach the library also through a symbolic link to
the file itself and a link to that link, and are delayed in front of every step between lock acquisition and release
(update_keys, flush, end_write / end_read).
"""
from __future__ import annotations

import json
import os
import subprocess
import sys

ID = "C04"
LEVEL = "exploration"
RULE = ("mp: P in {8,12,16} processes x S sessions (70% writing 1-3 records, 30% reading; every fourth process keeps a "
        "read-only handle and only reads), seeded sleeps before, inside and between lock acquisition and index refresh, "
        "before the exit flush and before the file is closed, paths spelled absolute / relative / via '..' / via a symlinked "
        "directory / via a symbolic link to the file / via a link to that link; seq: every sequence of k<=4 (quick) / 5 (thorough) sessions over {reader, writer with 0/1/2 puts} x 3 "
        "handles; fail: every (failing step x bufsize x position) case, the steps user code runs in also with KeyboardInterrupt / "
        "SystemExit / GeneratorExit / a BaseException subclass, the reading steps also on a read-only handle; recreate: "
        "{reading on a read-only handle, reading, writing} session inside while another process constructs the library "
        "with overwrite=True (contents of random sizes / the same sizes / the same sizes and last record); every spawned process "
        "has its own PYTHONHASHSEED; lateopen x {Collection, MoleculeLibrary, ConformerLibrary}; fail also: close refused by the "
        "OS x {bufsize, record size, room}; exitqueue: {reading, writing} session inside while a process with queued records "
        "ends; locktimeout x {ukv, directory backend}. non-trivial (mp) = a run in which >=2 processes "
        "had adjacent sessions and a reader ran between two writers; (seq/fail) = every case; distinct by schedule "
        "signature / sequence / case")
ASSUMPTIONS = [
    "sessions of one process do not overlap each other (the lock is per process): threads sharing a handle and nested "
    "sessions on one path inside one process are outside the claim",
    "CLOCK_MONOTONIC is system-wide on Linux, so intervals from different processes are comparable",
    "failures of begin_read/begin_write (file deleted under the handle) are not among the listed failure sources",
]
REQUIRED = {"mp.sessions": 200, "mp.writer-sessions": 90, "mp.reader-between-writers": 5, "mp.cross-process-adjacent": 40,
            "seq.sequences": 1000, "mp.schedules-with-racing-creation": 2, "lateopen.schedules": 4, "locktimeout.schedules": 2, "longlived.histories": 15, "longlived.other-process-sessions": 20, "longlived.own-sessions-with-a-rejected-record": 3, "longlived.library-recreated-under-live-handles": 2, "fail.cases": 40, "fail.fresh-process-acquired": 40,
            # workload classes added after the gap review
            "mp.readonly-handle-sessions": 50, "mp.sessions-through-a-link-to-the-file": 45,
            "mp.writer-sessions-with-delayed-close": 40, "mp.reader-sessions-with-delayed-close": 40,
            "fail.cases-ended-by-something-that-is-not-an-Exception": 23, "fail.cases-on-a-read-only-handle": 4, "fail.first-put-rejected-then-same-handle": 4, "fail.partial-write-by-the-os": 3,
            "locktimeout.read-only-handle-parties": 1, "longlived.sessions-of-a-long-lived-read-only-handle": 12,
            "recreate.schedules": 4, "recreate.reading-session-inside": 1,
            "recreate.reading-session-inside-on-a-read-only-handle": 1, "recreate.writing-session-inside": 1,
            # workload classes added after the second gap review
            "processes-started-with-their-own-hash-seed": 100, "mp.workers-hashing-strings-differently-from-worker-0": 20,
            "lateopen.schedules-through-Collection": 1, "lateopen.schedules-through-MoleculeLibrary": 1,
            "lateopen.schedules-through-ConformerLibrary": 1,
            "mp.schedules-with-racing-creation-through-MoleculeLibrary": 1,
            "mp.schedules-with-racing-creation-through-ConformerLibrary": 1,
            "recreate.new-contents-of-the-same-size": 2, "recreate.new-contents-of-the-same-size-same-last-record": 2,
            "fail.close-refused-by-the-os": 2, "fail.sessions-of-the-same-handle-after-a-refused-close": 5,
            "exitqueue.schedules": 2, "exitqueue.process-ended-with-queued-records-while-a-writing-session-was-inside": 1,
            "exitqueue.process-ended-with-queued-records-while-a-reading-session-was-inside": 1,
            "locktimeout.schedules-on-a-directory-backed-library": 1}
CHUNK_TIMEOUT = 1500      # (generous: under heavy machine load the seq chunks of the thorough tier took > 600 s)
TECHNIQUE = ("runtime monitoring: recorded session-interval histories from real processes + offline checker (mutual exclusion, "
             "conservation, visibility); fault injection at each session step with a fresh-process lock probe")
LEVEL_TEXT = ("Held on the schedules produced: real processes with long-lived handles run hundreds of sessions under injected "
              "delays; the recorded history is checked offline. Failing sessions are enumerated per step and judged by "
              "whether this handle, another handle and a fresh process can proceed. No finite run covers all interleavings.")
LEVEL_NOTE = "Trusted: monotonic clock comparability across processes; vmon/models/kvmap.py; the failure sources listed."


class HashEnv:
    """Environment for the processes C04 starts.  The framework pins PYTHONHASHSEED=0 for the check children; a process
    started from here would inherit it and hash every string like all the others.  Two processes of a user never do: each
    process C04 spawns gets its OWN hash seed (seeded values, some "random"), so anything a library derives from hash(str)
    (a lock-file name, say) differs between the processes of a schedule, as it does in real use."""

    def __init__(self, ctx, case):
        self.rng = ctx.rng(*case, "hash-seeds")
        self.used = set()
        self.ctx = ctx

    def __call__(self):
        env = dict(os.environ)
        if self.rng.random() < 0.25:
            env["PYTHONHASHSEED"] = "random"
        else:
            while True:
                v = self.rng.randrange(1, 2**32 - 1)
                if v not in self.used:
                    break
            self.used.add(v)
            env["PYTHONHASHSEED"] = str(v)
        self.ctx.count("processes-started-with-their-own-hash-seed")
        return env


def plan(tier, seed):
    specs = []
    if tier == "quick":
        for i, (p, s) in enumerate([(8, 14), (12, 9), (16, 7), (8, 10), (8, 7)]):
            specs.append({"kind": "mp", "chunk": i, "procs": p, "sessions": s,
                          "payload": "mlib" if i == 3 else "clib" if i == 4 else "bytes",
                          "timeout": 600, "race_create": i % 2 == 1 or i == 4})
        for h in range(12):
            specs.append({"kind": "seq", "first": h, "k": 4})
    else:
        for i in range(16):
            specs.append({"kind": "mp", "chunk": i, "procs": [8, 12, 16, 16][i % 4], "sessions": 60,
                          "payload": "mlib" if i % 4 == 3 else "clib" if i % 8 == 5 else "bytes", "timeout": 1500,
                          "race_create": i % 2 == 1})
        for h in range(12):
            specs.append({"kind": "seq", "first": h, "k": 5})
    for i in range(16):
        specs.append({"kind": "fail", "chunk": i, "of": 16})
    for i in range(5 if tier == "quick" else 14):
        specs.append({"kind": "recreate", "chunk": i, "n": 3 if tier == "quick" else 6})
    for i in range(6 if tier == "quick" else 18):
        specs.append({"kind": "lateopen", "chunk": i, "timeout": 600})
    for i in range(3 if tier == "quick" else 9):
        specs.append({"kind": "locktimeout", "chunk": i, "timeout": 600})
    for i in range(2 if tier == "quick" else 8):
        specs.append({"kind": "exitqueue", "chunk": i, "n": 2 if tier == "quick" else 4})
    for i in range(4 if tier == "quick" else 16):
        specs.append({"kind": "longlived", "chunk": i, "n": 6 if tier == "quick" else 25})
    return specs


# ---- KNOWN_ON_UNCHANGED_TREE ------------------------------------------------------------------------------------------
# Mechanisms that break the property on the unchanged tree (tools/findings/C04-ext.json, with proposed repairs).  They are
# counted, not reported, until the library is repaired; then empty this set.  VERIF_C04_REPORT_KNOWN=1 reports them (to test a
# repaired tree).
KNOWN_ON_UNCHANGED_TREE = set()      # (B1 repaired in the library: 042222c; B2, the stale table after a same-size re-creation, is an OPEN finding in known_findings.json)


class _Ctx:
    """ctx proxy: violations whose key is in KNOWN_ON_UNCHANGED_TREE are counted, not reported"""

    def __init__(self, ctx):
        self.__dict__["_c"] = ctx

    def __getattr__(self, name):
        return getattr(self._c, name)

    def __setattr__(self, name, value):
        setattr(self._c, name, value)

    def violation(self, key, **kw):
        if key in KNOWN_ON_UNCHANGED_TREE and not os.environ.get("VERIF_C04_REPORT_KNOWN"):
            self._c.count("known-on-unchanged-tree:" + key)
            return None
        return self._c.violation(key, **kw)


def run_chunk(spec, ctx):
    ctx = _Ctx(ctx)
    {"mp": run_mp, "seq": run_seq, "fail": run_fail, "lateopen": run_lateopen,
     "locktimeout": run_locktimeout, "longlived": run_longlived, "recreate": run_recreate,
     "exitqueue": run_exitqueue}[spec["kind"]](spec, ctx)


# ------------------------------------------------------------------------------------------------
# mp

def run_mp(spec, ctx):
    from vmon.models.c04_worker import value_of
    from vmon.models.kvmap import scan, ScanError

    case = ("mp", spec["chunk"])
    if not ctx.want(case):
        return
    rng = ctx.rng(*case)
    root = ctx.tmp / "mp"
    (root / "data" / "sub").mkdir(parents=True)
    (root / "logs").mkdir()
    os.symlink(root / "data", root / "link")
    path = root / "data" / {"mlib": "lib.mlib", "clib": "lib.clib"}.get(spec["payload"], "lib.ukv")
    hashenv = HashEnv(ctx, case)
    # In every other schedule the library does not exist yet: the workers' handle constructors race to create it
    # (whoever wins, no session that completed afterwards may lose its records to a late creator)
    if spec.get("race_create"):
        ctx.count("mp.schedules-with-racing-creation")
        if spec["payload"] != "bytes":
            ctx.count("mp.schedules-with-racing-creation-through-" + {"mlib": "MoleculeLibrary", "clib": "ConformerLibrary"}[spec["payload"]])
    elif spec["payload"] in ("mlib", "clib"):
        import molli as ml
        (ml.MoleculeLibrary if spec["payload"] == "mlib" else ml.ConformerLibrary)(path, readonly=False, overwrite=True)
    else:
        from molli.storage import Collection, UkvCollectionBackend
        Collection(path, UkvCollectionBackend, readonly=False, overwrite=True)
    # symbolic links to the library FILE itself (relative target; may dangle until the library is created) and a link to
    # that link reached through the symlinked directory
    current = "current" + path.suffix
    os.symlink(path.name, root / "data" / current)
    os.symlink(os.path.join("link", current), root / ("latest" + path.suffix))
    spellings = [
        (str(root), str(path), False),
        (str(root / "data"), path.name, False),
        (str(root / "data" / "sub"), os.path.join("..", path.name), False),
        (str(root), os.path.join("link", path.name), False),
        (str(root / "data"), os.path.join("sub", "..", path.name), False),
        (str(root / "data"), current, True),
        (str(root), "latest" + path.suffix, True),
    ]
    procs = []
    via_file_link, read_only = set(), set()
    for w in range(spec["procs"]):
        cwd, p, file_link = spellings[w % len(spellings)]
        # every fourth worker opens the library read-only (the default of MoleculeLibrary(path)) and keeps that handle
        ro = w % 4 == 3
        if file_link:
            via_file_link.add(w)
        if ro:
            read_only.add(w)
        wspec = {"wid": w, "seed": rng.randrange(2**31), "cwd": cwd, "path": p, "log": str(root / "logs" / f"w{w}.jsonl"),
                 "sessions": spec["sessions"], "p_write": 0.7, "bufsize": rng.choice([-1, 0, 4096, 10**6]),
                 "max_sleep": 0.004, "payload": spec["payload"], "lock_delay": 0.03 if spec.get("race_create") else 0,
                 "readonly": ro, "wait_exists": ro or file_link, "wait_limit": spec["timeout"] - 60,
                 "end_delay": 0.02, "p_end_delay": 0.5}
        procs.append(subprocess.Popen([sys.executable, "-m", "vmon.models.c04_worker", json.dumps(wspec)], env=hashenv(),
                                      stdout=subprocess.DEVNULL, stderr=subprocess.PIPE, text=True))
    bad_exit = []
    for w, p in enumerate(procs):
        try:
            _, err = p.communicate(timeout=spec["timeout"] - 30)
        except subprocess.TimeoutExpired:
            for q in procs:
                q.kill()
            ctx.inconclusive.append(f"mp chunk {spec['chunk']}: worker {w} did not finish (watchdog)")
            return
        if p.returncode != 0:
            bad_exit.append((w, p.returncode, (err or "")[-300:]))
    if bad_exit:
        ctx.violation("mp:worker-process-died", case=case, workers=bad_exit[:3])
    sessions = []
    for w in range(spec["procs"]):
        f = root / "logs" / f"w{w}.jsonl"
        if f.exists():
            sessions += [json.loads(l) for l in f.read_text().splitlines() if l.strip()]
    hello = [s for s in sessions if "hello" in s]
    sessions = [s for s in sessions if "hello" not in s]
    # (how many different string hashings the workers of this schedule ran with: the point of the own hash seeds)
    ctx.count("mp.workers-hashing-strings-differently-from-worker-0", sum(1 for h in hello[1:] if h["probe"] != hello[0]["probe"]))
    harness = [s["harness"] for s in sessions if "harness" in s]
    if harness:
        ctx.inconclusive.append(f"mp chunk {spec['chunk']}: {harness[0]}")
        return
    ctx.count("mp.sessions", len(sessions))
    ctx.count("mp.readonly-handle-sessions", sum(1 for s in sessions if s["w"] in read_only))
    ctx.count("mp.sessions-through-a-link-to-the-file", sum(1 for s in sessions if s["w"] in via_file_link))
    ctx.count("mp.writer-sessions-with-delayed-close", sum(1 for s in sessions if s["kind"] == "w" and s.get("end_delayed")))
    ctx.count("mp.reader-sessions-with-delayed-close", sum(1 for s in sessions if s["kind"] == "r" and s.get("end_delayed")))
    ctx.count("mp.processes", spec["procs"])
    done = [s for s in sessions if s.get("completed")]
    for s in sessions:
        if not s.get("completed"):
            ctx.violation("mp:session-raised", case=case, worker=s["w"], kind=s["kind"], err=s.get("error"))
        for b in s.get("bad", ()):
            ctx.violation(f"mp:{'reader' if s['kind'] == 'r' else 'writer'}-saw:{b[0]}", case=case, worker=s["w"], key=b[1])
    writers = [s for s in done if s["kind"] == "w"]
    ctx.count("mp.writer-sessions", len(writers))
    # (a) mutual exclusion: no writing interval overlaps any other interval
    order = sorted(done, key=lambda s: s["t_enter"])
    overlaps = 0
    for i, a in enumerate(order):
        for b in order[i + 1:]:
            if b["t_enter"] >= a["t_exit"]:
                break
            if a["kind"] == "w" or b["kind"] == "w":
                overlaps += 1
                if overlaps <= 3:
                    ctx.violation("mp:writer-interval-overlaps-another-session", case=case,
                                  a=[a["w"], a["s"], a["kind"]], b=[b["w"], b["s"], b["kind"]],
                                  overlap_ns=min(a["t_exit"], b["t_exit"]) - b["t_enter"])
    # (d) real-time visibility: a session entering after a writer's exit sees that writer's keys
    for r in done:
        seen = set(r.get("seen", ()))
        for w in writers:
            if w["t_exit"] < r["t_enter"] and not set(w.get("wrote", ())) <= seen:
                ctx.violation("mp:completed-write-not-visible-to-later-session", case=case,
                              writer=[w["w"], w["s"]], reader=[r["w"], r["s"], r["kind"]],
                              missing=sorted(set(w["wrote"]) - seen)[:3])
                break
    # (b) conservation
    want = set()
    for w in writers:
        want.update(w.get("wrote", ()))
    try:
        _, _, _, recs, _ = scan(path.read_bytes())
        got = {k.decode() for k, _, _ in recs}
        if len(recs) != len(got):
            ctx.violation("mp:duplicate-records-in-file", case=case)
        if got != want:
            ctx.violation("mp:conservation:" + ("records-lost" if want - got else "unknown-records"), case=case,
                          lost=sorted(want - got)[:4], extra=sorted(got - want)[:4])
        if spec["payload"] == "bytes":
            for k, v, _ in recs:
                if v != value_of(k.decode()):
                    ctx.violation("mp:conservation:value-altered", case=case, key=k.decode())
                    break
    except ScanError as e:
        ctx.violation("mp:final-file-not-a-clean-record-sequence", case=case, err=str(e))
    # (e) what was actually observed
    adj = sum(1 for a, b in zip(order, order[1:]) if a["w"] != b["w"])
    rbw = sum(1 for a, b, c in zip(order, order[1:], order[2:]) if a["kind"] == "w" and b["kind"] == "r" and c["kind"] == "w")
    ctx.count("mp.cross-process-adjacent", adj)
    ctx.count("mp.reader-between-writers", rbw)
    sig = "".join(f"{s['w']:x}{s['kind']}" for s in order)
    ctx.note("mp_schedules", [{"procs": spec["procs"], "sessions": len(order), "cross_process_adjacencies": adj,
                               "reader_between_writers": rbw, "order_head": sig[:60]}])
    ctx.case(case, dkey=sig, nontrivial=adj >= 2 and rbw >= 1,
             sample={"procs": spec["procs"], "sessions": len(order), "order_head": sig[:80], "records": len(want)})


# ------------------------------------------------------------------------------------------------
# lateopen: a handle whose construction overlaps the creation of the library and its first completed session

LATE_COMMON = r"""
import sys, os, time, json
sys.path[:0] = %(syspath)r
from molli.storage import Collection, UkvCollectionBackend
root, path = %(root)r, %(path)r
def touch(name):
    open(os.path.join(root, name), "w").close()
def wait_for(name, timeout=60):
    t0 = time.time()
    while not os.path.exists(os.path.join(root, name)):
        if time.time() - t0 > timeout:
            print(json.dumps({"error": "timed out waiting for " + name})); sys.exit(0)
        time.sleep(0.005)
"""

LATE_OPENER = r"""
cls = %(cls)r                   # the class the library is reached through
if cls == "Collection":
    def open_lib(**kw):
        return Collection(path, UkvCollectionBackend, **kw)
    def make(key):
        return ("value-of-" + key).encode() * 3
    def show(v):
        return v.decode()
else:
    import molli as ml
    _base = ml.Molecule.load_mol2(ml.files.dendrobine_mol2)
    def open_lib(**kw):
        return getattr(ml, cls)(path, **kw)
    def make(key):
        if cls == "ConformerLibrary":
            return ml.ConformerEnsemble(_base, n_conformers=2, name="value-of-" + key)
        return ml.Molecule(_base, name="value-of-" + key)
    def show(v):
        return v.name * 3 if v.n_atoms == _base.n_atoms else "incomplete"
"""

LATE_G = LATE_COMMON + LATE_OPENER + r"""
# G holds the library's lock file before the library exists (POSIX locks are per process: G's own handle can still take
# it, and the release at the end of G's first session frees it for everybody)
try:
    try:
        from molli._aux.lock import rwlock
    except ImportError:
        from molli.aux import rwlock
    from fasteners import InterProcessReaderWriterLock
except Exception as e:          # the harness cannot build this schedule on this tree: inconclusive, not a finding
    print(json.dumps({"error": "harness cannot find the lock helper: " + repr(e)})); sys.exit(0)
gate = InterProcessReaderWriterLock(rwlock(path))
assert gate.acquire_write_lock(timeout=20)
touch("g_locked")
wait_for("v_constructing")
time.sleep(%(settle)r)                      # let V run into the lock (only shapes the schedule, decides nothing)
lib = open_lib(readonly=False, bufsize=%(bufsize)r)
with lib.writing(timeout=20):
    for i in range(%(n)r):
        lib["g%%d" %% i] = make("g%%d" %% i)
touch("g_done")
print(json.dumps({"ok": True}))
"""

LATE_V = LATE_COMMON + LATE_OPENER + r"""
wait_for("g_locked")
touch("v_constructing")
lib = open_lib(readonly=False, bufsize=%(bufsize)r)    # blocks on G's lock
waited_for_g = os.path.exists(os.path.join(root, "g_done"))
wait_for("g_done")
with lib.reading(timeout=20):
    seen = {k: show(lib[k]) for k in lib.keys()}
with lib.writing(timeout=20):
    lib["v0"] = make("v0")
print(json.dumps({"seen": seen, "constructor_returned_after_g_session": waited_for_g}))
"""


def run_lateopen(spec, ctx):
    from vmon.models.kvmap import scan, ScanError

    case = ("lateopen", spec["chunk"])
    if not ctx.want(case):
        return
    rng = ctx.rng(*case)
    root = ctx.tmp / "late"
    root.mkdir()
    # the library is reached through Collection + backend, through MoleculeLibrary and through ConformerLibrary
    cls = ("Collection", "MoleculeLibrary", "ConformerLibrary")[spec["chunk"] % 3]
    path = root / {"Collection": "lib.ukv", "MoleculeLibrary": "lib.mlib", "ConformerLibrary": "lib.clib"}[cls]
    n = rng.randrange(1, 4)
    par = {"syspath": [p for p in sys.path if p], "root": str(root), "path": str(path), "n": n, "cls": cls,
           "bufsize": rng.choice([-1, 0, 4096]), "settle": rng.choice([0.3, 0.6])}
    hashenv = HashEnv(ctx, case)
    g = subprocess.Popen([sys.executable, "-c", LATE_G % par], stdout=subprocess.PIPE, stderr=subprocess.PIPE, text=True, env=hashenv())
    v = subprocess.Popen([sys.executable, "-c", LATE_V % par], stdout=subprocess.PIPE, stderr=subprocess.PIPE, text=True, env=hashenv())
    outs = []
    for name, proc in (("G", g), ("V", v)):
        try:
            out, err = proc.communicate(timeout=120)
        except subprocess.TimeoutExpired:
            g.kill(), v.kill()
            ctx.inconclusive.append(f"lateopen {spec['chunk']}: {name} did not finish (watchdog)")
            return
        try:
            outs.append(json.loads(out.strip().splitlines()[-1]))
        except Exception:  # noqa
            ctx.violation(f"lateopen:{name}-process-failed", case=case, stderr=(err or "")[-300:])
            return
    if "error" in outs[0] or "error" in outs[1]:
        ctx.inconclusive.append(f"lateopen {spec['chunk']}: {outs}")
        return
    want = {f"g{i}": f"value-of-g{i}" * 3 for i in range(n)}
    seen = outs[1]["seen"]
    ctx.count("lateopen.schedules")
    ctx.count("lateopen.schedules-through-" + cls)
    if outs[1]["constructor_returned_after_g_session"]:
        ctx.count("lateopen.constructor-overlapped-first-session")
    ctx.case(case, dkey=(cls, n, par["bufsize"], outs[1]["constructor_returned_after_g_session"]), nontrivial=True,
             sample={"library_class": cls, "records_of_first_session": n, "late_constructor_overlapped": outs[1]["constructor_returned_after_g_session"]})
    if seen != want:
        ctx.violation("lateopen:completed-session-records-lost-to-a-late-opener", case=case,
                      missing=sorted(set(want) - set(seen)), extra=sorted(set(seen) - set(want)))
    try:
        _, _, _, recs, _ = scan(path.read_bytes())
        if cls == "Collection":
            got = {k.decode(): val.decode() for k, val, _ in recs}
        else:       # (encoded objects: the keys decide here; V has read the values back through the library class)
            got = {k.decode(): (want.get(k.decode()) or "value-of-v0" * 3) for k, val, _ in recs}
        if len(recs) != len(got):
            ctx.violation("lateopen:duplicate-records-in-file", case=case)
        if got != {**want, "v0": "value-of-v0" * 3}:
            ctx.violation("lateopen:final-file-differs", case=case, missing=sorted(set(want) - set(got)))
    except ScanError as e:
        ctx.violation("lateopen:final-file-not-a-clean-record-sequence", case=case, err=str(e))


# ------------------------------------------------------------------------------------------------
# longlived: handles that live across other processes' sessions (also failed own sessions and a re-created library)

OTHER_PROCESS = r"""
import sys, json
sys.path[:0] = %(syspath)r
from molli.storage import Collection, UkvCollectionBackend
for line in sys.stdin:
    cmd = json.loads(line)
    out = {}
    try:
        if cmd["op"] == "recreate":
            lib = Collection(cmd["path"], UkvCollectionBackend, readonly=False, overwrite=True, comment=cmd["comment"])
        else:
            lib = Collection(cmd["path"], UkvCollectionBackend, readonly=cmd["op"] == "read", bufsize=cmd.get("bufsize", 0))
        if cmd["op"] == "read":
            with lib.reading(timeout=30):
                out["seen"] = {k: lib[k].hex() for k in lib.keys()}
        else:
            with lib.writing(timeout=30):
                out["listed_at_begin"] = sorted(lib.keys())
                for k, v in cmd["records"]:
                    lib[k] = bytes.fromhex(v)
    except Exception as e:
        out["error"] = type(e).__name__ + ": " + str(e)[:200]
    print(json.dumps(out), flush=True)
"""


def run_longlived(spec, ctx):
    """Sessions never overlap here; what is exercised is the state a long-lived handle carries from one session to the
    next while OTHER processes complete sessions in between.  Rule: a record written in a session that completed (own or
    foreign) is listed and readable, with its value, in every later session of every handle; records accepted in an own
    session that ended with an exception are in limbo until that handle completes a writing session, then they are
    stored as well; nothing else ever appears."""
    from molli.storage import Collection, UkvCollectionBackend
    from vmon.models.kvmap import scan, ScanError

    other = subprocess.Popen([sys.executable, "-c", OTHER_PROCESS % {"syspath": [p for p in sys.path if p]}],
                             stdin=subprocess.PIPE, stdout=subprocess.PIPE, text=True,
                             env=HashEnv(ctx, ("longlived", spec["chunk"]))())

    def ask(cmd):
        other.stdin.write(json.dumps(cmd) + "\n")
        other.stdin.flush()
        line = other.stdout.readline()
        if not line:
            raise RuntimeError("the other process died")
        return json.loads(line)

    try:
        for j in range(spec["n"]):
            case = ("longlived", spec["chunk"], j)
            if not ctx.want(case):
                continue
            rng = ctx.rng(*case)
            path = ctx.tmp / f"ll{j}.ukv"
            Collection(path, UkvCollectionBackend, readonly=False, overwrite=True, comment="c" * rng.choice([0, 3, 40]))
            nh = rng.choice([1, 1, 2])
            bufs = [rng.choice([0, 4096, 10**6, 10**6]) for _ in range(nh)]
            hs = [Collection(path, UkvCollectionBackend, readonly=False, bufsize=b) for b in bufs]
            # ... and, in most histories, a handle opened read-only (the default) that lives through all of it
            has_ro = rng.random() < 0.7
            if has_ro:
                hs.append(Collection(path, UkvCollectionBackend))
            hard: dict[str, bytes] = {}               # certainly stored
            limbo = [dict() for _ in hs]              # accepted in a session of that handle that ended with an exception
            maybe: dict[str, bytes] = {}              # limbo records at the time the library was created anew: they may have
            #                                           been stored before (and are gone with the old file) or are still queued
            hist = [("handles", bufs, "and-a-read-only-one" if has_ro else "")]
            counter = [0]
            ok = [True]
            flags = set()

            def fresh(who):
                counter[0] += 1
                return f"{who}{counter[0]}", rng.randbytes(rng.choice([0, 3, 20, 200]))

            def v(key, **detail):
                ok[0] = False
                ctx.violation("longlived:" + key, case=case, history=hist[-12:], **detail)

            def look(h, col, where):
                """inside a session of handle h"""
                ks = set(col.keys())
                missing = sorted(k for k in hard if k not in ks)
                if missing:
                    return v(f"{where}:record-of-a-completed-session-not-listed", missing=missing[:4], listed=len(ks))
                extra = sorted(k for k in ks if k not in hard and k not in maybe and not any(k in lb for lb in limbo))
                if extra:
                    return v(f"{where}:listed-key-that-nobody-stored", extra=extra[:4])
                for k in rng.sample(sorted(hard), min(len(hard), 5)):
                    try:
                        got = col[k]
                    except Exception as e:  # noqa
                        return v(f"{where}:record-of-a-completed-session-unreadable:{type(e).__name__}", key=k)
                    if got != hard[k]:
                        return v(f"{where}:record-of-a-completed-session-altered", key=k)
                ctx.count("longlived.in-session-views-checked")

            nsteps = rng.randrange(5, 12)
            just_failed = None
            for step in range(nsteps):
                if not ok[0]:
                    break
                r = rng.random()
                if r < 0.30:
                    # another process completes a writing session
                    n = rng.randrange(1, 4)
                    if just_failed is not None and limbo[just_failed] and rng.random() < 0.5:
                        n = min(len(limbo[just_failed]), 3)
                    recs = [fresh("o") for _ in range(n)]
                    hist.append(("other-process-writes", n))
                    out = ask({"op": "write", "path": str(path), "records": [(k, val.hex()) for k, val in recs],
                               "bufsize": rng.choice([0, 4096])})
                    if "error" in out:
                        v("other-process-session-fails", err=out["error"])
                        break
                    lost = sorted(k for k in hard if k not in out["listed_at_begin"])
                    if lost:
                        v("other-process:record-of-a-completed-session-not-listed", missing=lost[:4])
                        break
                    hard.update(recs)
                    flags.add("other")
                    ctx.count("longlived.other-process-sessions")
                elif r < 0.36:
                    # another process creates the library anew (overwrite=True) and completes a session
                    recs = [fresh("n") for _ in range(rng.randrange(1, 3))]
                    comment = "r" * rng.choice([0, 1, 7, 64, 300])
                    hist.append(("other-process-recreates", len(comment), len(recs)))
                    out = ask({"op": "recreate", "path": str(path), "comment": comment,
                               "records": [(k, val.hex()) for k, val in recs]})
                    if "error" in out:
                        v("other-process-recreate-fails", err=out["error"])
                        break
                    hard = dict(recs)
                    for lb in limbo:
                        maybe.update(lb)
                        lb.clear()
                    flags.add("recreated")
                    ctx.count("longlived.library-recreated-under-live-handles")
                else:
                    h = rng.randrange(len(hs))
                    col = hs[h]
                    writing = r < 0.80 and h < nh
                    if h >= nh:
                        ctx.count("longlived.sessions-of-a-long-lived-read-only-handle")
                    with_dup = writing and hard and rng.random() < 0.3
                    absent_style = writing and not with_dup and rng.random() < 0.3
                    hist.append(("own", h, "w" if writing else "r", "dup" if with_dup else "absent" if absent_style else ""))
                    accepted, raised_at_put, session_error = [], [], None
                    try:
                        with (col.writing(timeout=30) if writing else col.reading(timeout=30)):
                            look(h, col, "own-session-begin")
                            if not ok[0]:
                                break
                            if writing:
                                plan = [fresh(f"h{h}_") for _ in range(rng.randrange(0, 4))]
                                if with_dup:
                                    plan.insert(rng.randrange(len(plan) + 1), (rng.choice(sorted(hard)), b"DUPLICATE"))
                                if absent_style:
                                    # "store unless it is there already"
                                    plan += [(k, b"ABSENT?") for k in rng.sample(sorted(hard), min(len(hard), 2))]
                                for k, val in plan:
                                    if absent_style and val == b"ABSENT?":
                                        if k in col.keys():
                                            continue
                                        v("own-session:stored-record-reported-absent", key=k)
                                        break
                                    try:
                                        col[k] = val
                                        if val != b"DUPLICATE":
                                            accepted.append((k, val))
                                    except Exception as e:  # noqa  (the user catches it and carries on)
                                        raised_at_put.append((k, type(e).__name__))
                                        if val != b"DUPLICATE":
                                            v(f"own-session:valid-put-raises:{type(e).__name__}", key=k)
                                            break
                                look_keys = set(col.keys())
                                for k, val in accepted:
                                    if k not in look_keys:
                                        v("own-session:own-accepted-record-not-listed", key=k)
                                        break
                    except Exception as e:  # noqa
                        session_error = e
                    if not ok[0]:
                        break
                    ctx.count("longlived.own-sessions")
                    if with_dup:
                        ctx.count("longlived.own-sessions-with-a-rejected-record")     # refused at the put or at the exit flush
                    if session_error is not None:
                        if not with_dup or raised_at_put:
                            v(f"own-session-raises:{type(session_error).__name__}", err=repr(session_error)[:200],
                              writing=writing)
                            break
                        # the duplicate was still queued at exit: what was accepted is in limbo
                        limbo[h].update(accepted)
                        just_failed = h
                        flags.add("failed-session")
                        ctx.count("longlived.own-sessions-ended-by-rejected-record")
                    else:
                        if with_dup and not raised_at_put:
                            v("own-session:duplicate-accepted-silently")
                            break
                        if writing:
                            hard.update(limbo[h])
                            limbo[h].clear()
                            hard.update(accepted)
                            if just_failed == h:
                                just_failed = None
            if not ok[0]:
                ctx.case(case, dkey=repr(hist), nontrivial=True)
                continue
            # drain: every handle completes one more (empty) writing session, then a fresh process reads the file
            for h, col in enumerate(hs):
                try:
                    if h >= nh:
                        with col.reading(timeout=30):
                            look(h, col, "last-session-of-read-only-handle")
                        continue
                    with col.writing(timeout=30):
                        pass
                    hard.update(limbo[h])
                    limbo[h].clear()
                except Exception as e:  # noqa
                    v(f"drain-session-raises:{type(e).__name__}", handle=h, err=repr(e)[:200])
            ctx.case(case, dkey=repr(hist), nontrivial="other" in flags,
                     sample={"handles": bufs, "history": [list(map(str, x)) for x in hist[:10]], "records": len(hard)})
            if not ok[0]:
                continue
            out = ask({"op": "read", "path": str(path)})
            if "error" in out:
                v("fresh-process-cannot-read", err=out["error"])
                continue
            seen = {k: bytes.fromhex(x) for k, x in out["seen"].items()}
            for k in [k for k in seen if k in maybe and k not in hard and seen[k] == maybe[k]]:
                del seen[k]
            if seen != hard:
                v("final-content-differs", missing=sorted(set(hard) - set(seen))[:4], extra=sorted(set(seen) - set(hard))[:4],
                  altered=sorted(k for k in hard if k in seen and seen[k] != hard[k])[:4])
                continue
            try:
                scan(path.read_bytes())
            except ScanError as e:
                v("final-file-not-a-clean-record-sequence", err=str(e))
            ctx.count("longlived.histories")
    finally:
        try:
            other.stdin.close()
            other.wait(timeout=10)
        except Exception:  # noqa
            other.kill()


# ------------------------------------------------------------------------------------------------
# locktimeout: sessions that give up waiting (timeout=...) while a writer is inside must not let anybody else in

LT_OPENER = r"""
backend = %(backend)r           # "ukv": one file; "dir": a directory with one file per record (DirCollectionBackend)
def open_lt(**kw):
    if backend == "dir":
        from molli.storage import DirCollectionBackend
        return Collection(path, DirCollectionBackend, ext=".dat", **kw)
    return Collection(path, UkvCollectionBackend, **kw)
"""

TIMEOUT_A = LATE_COMMON + LT_OPENER + r"""
lib = open_lt(readonly=False, bufsize=%(bufsize)r)
with lib.writing(timeout=20):
    lib["a0"] = b"value-of-a0"
    touch("a_inside")
    wait_for("release", timeout=90)
    lib["a1"] = b"value-of-a1"
    touch("a_leaving")
print(json.dumps({"ok": True}))
"""

TIMEOUT_B = LATE_COMMON + LT_OPENER + r"""
who = %(who)r
if %(ro)r:
    lib = open_lt()                                                            # read-only, the default way to open a library
else:
    lib = open_lt(readonly=False, bufsize=0)
# (a long-lived handle, made before the holder enters)
touch(who + "_ready")
wait_for("go_" + who, timeout=90)
entered, err, overlap = False, None, None
try:
    with (lib.writing(timeout=%(t)r) if %(write)r else lib.reading(timeout=%(t)r)):
        entered = True
        overlap = os.path.exists(os.path.join(root, "a_inside")) and not os.path.exists(os.path.join(root, "a_leaving"))
        if %(write)r:
            lib[who + "0"] = b"value-of-" + who.encode() + b"0"
except TimeoutError as e:
    err = "TimeoutError"
except Exception as e:
    err = type(e).__name__ + ": " + str(e)[:100]
print(json.dumps({"entered": entered, "err": err, "overlap": overlap}))
"""


def run_locktimeout(spec, ctx):
    from molli.storage import Collection, UkvCollectionBackend
    from vmon.models.kvmap import scan, ScanError

    case = ("locktimeout", spec["chunk"])
    if not ctx.want(case):
        return
    rng = ctx.rng(*case)
    root = ctx.tmp / "lt"
    root.mkdir()
    # every third schedule runs on a library kept in a directory (DirCollectionBackend, the backend of test_dir_parallel)
    backend = "dir" if spec["chunk"] % 3 == 2 else "ukv"
    hashenv = HashEnv(ctx, case)
    if backend == "dir":
        from molli.storage import DirCollectionBackend
        path = root / "lib"

        def open_lt(**kw):
            return Collection(path, DirCollectionBackend, ext=".dat", **kw)
        open_lt(readonly=False)
    else:
        path = root / "lib.ukv"

        def open_lt(**kw):
            return Collection(path, UkvCollectionBackend, **kw)
        open_lt(readonly=False, overwrite=True)
    par = {"syspath": [p for p in sys.path if p], "root": str(root), "path": str(path), "bufsize": rng.choice([-1, 0, 4096]),
           "backend": backend}
    import time

    def wait_file(name, procs, limit=90):
        t0 = time.time()
        while not (root / name).exists():
            if any(q.poll() is not None for q in procs) or time.time() - t0 > limit:
                return False
            time.sleep(0.01)
        return True

    # the waiting parties construct their handles first (a constructor waits for the lock without any timeout)
    waiting = []
    c_writes = rng.random() < 0.7
    # ("e": a reader whose handle was opened read-only)
    for who, write, ro in (("b", True, False), ("c", c_writes, False), ("e", False, True)):
        q = subprocess.Popen([sys.executable, "-c", TIMEOUT_B % {**par, "who": who, "t": 0.4, "write": write, "ro": ro}],
                             stdout=subprocess.PIPE, stderr=subprocess.PIPE, text=True, env=hashenv())
        waiting.append((who, write, q))
    mine = open_lt(readonly=False, bufsize=0)
    if not all(wait_file(w + "_ready", [q]) for w, _, q in waiting):
        for _, _, q in waiting:
            q.kill()
        ctx.inconclusive.append(f"locktimeout {spec['chunk']}: a waiting party did not get ready")
        return
    a = subprocess.Popen([sys.executable, "-c", TIMEOUT_A % par], stdout=subprocess.PIPE, stderr=subprocess.PIPE, text=True,
                         env=hashenv())
    if not wait_file("a_inside", [a]):
        a.kill()
        for _, _, q in waiting:
            q.kill()
        ctx.inconclusive.append(f"locktimeout {spec['chunk']}: holder did not enter its session")
        return
    late = []
    # they give up one after another while A is still inside: two other processes, then a handle of this process
    for who, write, q in waiting:
        (root / ("go_" + who)).touch()
        try:
            out, err = q.communicate(timeout=120)
            late.append((who, write, json.loads(out.strip().splitlines()[-1])))
        except Exception:  # noqa
            q.kill()
            ctx.violation("locktimeout:waiting-process-failed", case=case)
    r = {"entered": False, "err": None, "overlap": None}
    try:
        with mine.writing(timeout=0.4):
            r["entered"] = True
            r["overlap"] = (root / "a_inside").exists() and not (root / "a_leaving").exists()
            mine["d0"] = b"value-of-d0"
    except TimeoutError:
        r["err"] = "TimeoutError"
    except Exception as e:  # noqa
        r["err"] = type(e).__name__ + ": " + str(e)[:100]
    late.append(("d", True, r))
    (root / "release").touch()
    try:
        out, err = a.communicate(timeout=120)
    except subprocess.TimeoutExpired:
        a.kill()
        ctx.inconclusive.append(f"locktimeout {spec['chunk']}: holder did not finish")
        return
    if a.returncode != 0:
        ctx.violation("locktimeout:holder-session-failed", case=case, stderr=(err or "")[-300:])
    ctx.count("locktimeout.schedules")
    if backend == "dir":
        ctx.count("locktimeout.schedules-on-a-directory-backed-library")
    ctx.count("locktimeout.read-only-handle-parties", sum(1 for w, _, r in late if w == "e"))
    entered = [(w, r) for w, _, r in late if r["entered"]]
    ctx.case(case, dkey=tuple((w, wr, r["entered"]) for w, wr, r in late), nontrivial=True,
             sample={"waiting_parties": [[w, "writing" if wr else "reading", r["err"] or "entered"] for w, wr, r in late]})
    for w, wr, r in late:
        ctx.count("locktimeout.gave-up" if r["err"] == "TimeoutError" else "locktimeout.other-outcome")
        if r["entered"] and r["overlap"]:
            ctx.violation(f"locktimeout:{'writer' if wr else 'reader'}-entered-while-another-writer-was-inside", case=case,
                          party=w, after_timeouts=[x for x, _, y in late if y["err"] == "TimeoutError"])
        elif r["err"] not in (None, "TimeoutError"):
            ctx.violation("locktimeout:waiting-session-raises-something-else", case=case, party=w, err=r["err"])
    # afterwards the lock still works and nothing was lost
    (root / "go_z").touch()
    p = subprocess.run([sys.executable, "-c", TIMEOUT_B % {**par, "who": "z", "t": 20, "write": True, "ro": False}], capture_output=True, text=True, timeout=120, env=hashenv())
    want = {"a0": b"value-of-a0", "a1": b"value-of-a1", "z0": b"value-of-z0"}
    for w, wr, r in late:
        if r["entered"] and wr:
            want[w + "0"] = b"value-of-" + w.encode() + b"0"
    try:
        if backend == "dir":        # conservation = the record files in the directory
            got = {f.name.removesuffix(".dat"): f.read_bytes() for f in path.iterdir() if f.name.endswith(".dat")}
        else:
            _, _, _, recs, _ = scan(path.read_bytes())
            got = {k.decode(): v for k, v, _ in recs}
        if got != want:
            ctx.violation("locktimeout:records-lost-or-altered", case=case, missing=sorted(set(want) - set(got)), extra=sorted(set(got) - set(want)))
    except ScanError as e:
        ctx.violation("locktimeout:final-file-not-a-clean-record-sequence", case=case, err=str(e))


# ------------------------------------------------------------------------------------------------
# recreate: another process creates the library anew (overwrite=True) while a session of this process is inside

RECREATE_B = LATE_COMMON + r"""
touch("b_ready")
wait_for("go", timeout=120)
touch("b_started")
lib = Collection(path, UkvCollectionBackend, readonly=False, overwrite=True, comment=%(comment)r, bufsize=%(bufsize)r)
touch("b_constructed")
with lib.writing(timeout=60):
    for k, v in json.load(open(os.path.join(root, "records.json"))):
        lib[k] = bytes.fromhex(v)
with lib.reading(timeout=60):
    seen = {k: lib[k].hex() for k in lib.keys()}
print(json.dumps({"seen": seen}))
"""

# (session inside, how the surviving handle was opened, what the creator stores: "any" = records of random sizes; "same-size" =
#  a size-preserving rewrite of the old contents (same comment length, same key lengths, same value lengths, other keys and
#  values: the nightly job that rebuilds "run-0007" as "run-0008"); "same-size-same-last-record" = the same, but the LAST record
#  keeps its key.  With equal sizes nothing but the contents tells a long-lived handle that its index is out of date.)
RECREATE_VARIANTS = [("reading", "ro", "any"), ("reading", "rw", "any"), ("writing", "rw", "any"),
                     ("reading", "ro", "same-size"), ("reading", "rw", "same-size"),
                     ("reading", "ro", "same-size-same-last-record"), ("reading", "rw", "same-size-same-last-record")]


def run_recreate(spec, ctx):
    """The session that is inside keeps a complete view (every key it listed reads back with the value that was stored, its
    own accepted records stay listed) whatever the other process does meanwhile; afterwards the library is exactly what
    the creator's completed session stored, for the creator, for the handle that lived through it and on disk."""
    import time
    from molli.storage import Collection, UkvCollectionBackend
    from vmon.models.kvmap import scan, ScanError

    for j in range(spec["n"]):
        kind, how, sizes = RECREATE_VARIANTS[(spec["chunk"] * spec["n"] + j) % len(RECREATE_VARIANTS)]
        case = ("recreate", spec["chunk"], j, kind, how) if sizes == "any" else ("recreate", spec["chunk"], j, kind, how, sizes)
        vtag = "recreate" if sizes == "any" else f"recreate[{sizes}]"
        if not ctx.want(case):
            continue
        rng = ctx.rng(*case)
        root = ctx.tmp / f"rc{j}"
        root.mkdir()
        path = root / "lib.ukv"
        old_comment = "c" * rng.choice([0, 5, 50])
        maker = Collection(path, UkvCollectionBackend, readonly=False, overwrite=True, comment=old_comment)
        want = {f"k{i}": rng.randbytes(rng.choice([1, 40, 3000, 20000])) for i in range(rng.randrange(3, 7))}
        with maker.writing():
            for k, val in want.items():
                maker[k] = val
        new = [(f"n{i}", rng.randbytes(rng.choice([0, 10, 500])).hex()) for i in range(rng.randrange(1, 4))]
        bufsize = rng.choice([0, 4096, 10**6])
        par = {"syspath": [p for p in sys.path if p], "root": str(root), "path": str(path),
               "comment": "r" * rng.choice([0, 5, 64]), "bufsize": rng.choice([0, 4096])}
        if sizes != "any":
            # same file layout, other contents (record order = insertion order of the first session)
            ks = list(want)
            keep = {ks[-1]} if sizes == "same-size-same-last-record" else set()
            if sizes == "same-size" and rng.random() < 0.5:
                keep = set(ks[:-1])                 # ... or only the last key is another one
            new = [(k if k in keep else "n" + k[1:], rng.randbytes(len(val)).hex()) for k, val in want.items()]
            par.update(comment="r" * len(old_comment))
        # (handed over in a file: a command line takes no more than 128 KiB per argument)
        (root / "records.json").write_text(json.dumps(new))
        b = subprocess.Popen([sys.executable, "-c", RECREATE_B % par], stdout=subprocess.PIPE, stderr=subprocess.PIPE, text=True,
                             env=HashEnv(ctx, case)())

        def wait_file(name, limit):
            t0 = time.monotonic()
            while not (root / name).exists():
                if b.poll() is not None or time.monotonic() - t0 > limit:
                    return False
                time.sleep(0.01)
            return True

        mine = Collection(path, UkvCollectionBackend) if how == "ro" else \
            Collection(path, UkvCollectionBackend, readonly=False, bufsize=bufsize)
        if how == "ro" or sizes != "any" or rng.random() < 0.5:
            with mine.reading():        # the handle has run a session before
                pass
        if not wait_file("b_ready", 120):
            b.kill()
            ctx.inconclusive.append(f"recreate {spec['chunk']}/{j}: the other process did not get ready")
            continue
        bad = []
        own = {}
        returned_early = False
        try:
            with (mine.writing(timeout=30) if kind == "writing" else mine.reading(timeout=30)):
                listed = sorted(mine.keys())
                if listed != sorted(want):
                    bad.append(("session-begin:listed-keys-differ", sorted(set(want) ^ set(listed))[:4]))
                if kind == "writing":
                    own["m0"] = rng.randbytes(rng.choice([5, 300]))
                    mine["m0"] = own["m0"]
                size0 = path.stat().st_size
                (root / "go").touch()
                if not wait_file("b_started", 120):
                    ctx.inconclusive.append(f"recreate {spec['chunk']}/{j}: the other process did not start")
                    raise RuntimeError("harness")
                # give the other process the time to do whatever its constructor does before it has to wait for this
                # session (only shapes the schedule: the verdict comes from what this session reads afterwards)
                t0 = time.monotonic()
                while time.monotonic() - t0 < spec.get("settle", 1.0):
                    if (root / "b_constructed").exists() or path.stat().st_size < size0:
                        break
                    time.sleep(0.01)
                returned_early = (root / "b_constructed").exists()
                if kind == "writing":
                    own["m1"] = rng.randbytes(rng.choice([5, 300, 9000]))
                    mine["m1"] = own["m1"]
                now = set(mine.keys())
                for k in listed:
                    if k not in now:
                        bad.append(("listed-key-vanished-inside-the-session", k))
                        continue
                    try:
                        got = mine[k]
                    except Exception as e:  # noqa
                        bad.append((f"listed-record-unreadable-inside-the-session:{type(e).__name__}", k))
                        continue
                    if got != want[k]:
                        bad.append(("incomplete-or-altered-record-inside-the-session", k))
                for k, val in own.items():
                    try:
                        if k not in now or mine[k] != val:
                            bad.append(("own-accepted-record-not-readable-inside-the-session", k))
                    except Exception as e:  # noqa
                        bad.append((f"own-accepted-record-unreadable-inside-the-session:{type(e).__name__}", k))
        except RuntimeError as e:
            if str(e) == "harness":
                b.kill()
                continue
            bad.append((f"session-raises:{type(e).__name__}", repr(e)[:200]))
        except Exception as e:  # noqa
            bad.append((f"session-raises:{type(e).__name__}", repr(e)[:200]))
        try:
            out, err = b.communicate(timeout=180)
        except subprocess.TimeoutExpired:
            b.kill()
            ctx.inconclusive.append(f"recreate {spec['chunk']}/{j}: the other process did not finish (watchdog)")
            continue
        ctx.count("recreate.schedules")
        if sizes != "any":
            ctx.count("recreate.new-contents-of-the-" + sizes)
        ctx.count(f"recreate.{kind}-session-inside" + ("-on-a-read-only-handle" if how == "ro" else ""))
        if returned_early:
            ctx.count("recreate.constructor-returned-while-the-session-was-inside")
        ctx.case(case, dkey=(kind, how, sizes, len(want), len(new), bufsize), nontrivial=True,
                 sample={"session_inside": kind, "handle": how, "new_contents": sizes, "records_before": len(want), "records_of_the_creator": len(new),
                         "constructor_returned_while_inside": returned_early})
        seen_keys = set()
        for key, wit in bad:
            if key not in seen_keys:
                seen_keys.add(key)
                ctx.violation(f"recreate:{kind}-session{'-on-read-only-handle' if how == 'ro' else ''}:{key}", case=case,
                              witness=wit, constructor_returned_while_inside=returned_early)
        try:
            seen = {k: bytes.fromhex(x) for k, x in json.loads(out.strip().splitlines()[-1])["seen"].items()}
        except Exception:  # noqa
            ctx.violation("recreate:creating-process-failed", case=case, session_inside=kind, stderr=(err or "")[-300:])
            continue
        # the creator got the lock after the session had ended: the library is what its completed session stored
        hard = {k: bytes.fromhex(x) for k, x in new}
        if seen != hard:
            ctx.violation("recreate:creator-does-not-read-back-what-its-completed-session-stored", case=case, session_inside=kind,
                          missing=sorted(set(hard) - set(seen))[:4], extra=sorted(set(seen) - set(hard))[:4],
                          altered=sorted(k for k in hard if k in seen and seen[k] != hard[k])[:4])
        try:
            with mine.reading(timeout=30):
                ks = set(mine.keys())
                if ks != set(hard):
                    ctx.violation(f"{vtag}:surviving-handle:listed-keys-differ-afterwards", case=case, session_inside=kind,
                                  missing=sorted(set(hard) - ks)[:4], extra=sorted(ks - set(hard))[:4])
                elif any(mine[k] != hard[k] for k in hard):
                    ctx.violation(f"{vtag}:surviving-handle:record-altered-afterwards", case=case, session_inside=kind)
        except Exception as e:  # noqa
            ctx.violation(f"{vtag}:surviving-handle:next-session-raises:{type(e).__name__}", case=case, err=repr(e)[:200])
        try:
            _, _, _, recs, _ = scan(path.read_bytes())
            if {k.decode(): val for k, val, _ in recs} != hard or len(recs) != len(hard):
                ctx.violation("recreate:final-file-differs", case=case, session_inside=kind, n_file=len(recs), n_expected=len(hard))
        except ScanError as e:
            ctx.violation("recreate:final-file-not-a-clean-record-sequence", case=case, session_inside=kind, err=str(e))


# ------------------------------------------------------------------------------------------------
# exitqueue: a process ENDS while its buffered handle still holds queued records, another process is inside a session

EXIT_P = LATE_COMMON + r"""
lib = Collection(path, UkvCollectionBackend, readonly=False, bufsize=10**6)
if %(prior)r:
    with lib.reading(timeout=30):
        pass
err = None
try:
    with lib.writing(timeout=30):
        for k, v in %(records)r:
            lib[k] = bytes.fromhex(v)
except Exception as e:
    err = type(e).__name__
print(json.dumps({"raised": err}), flush=True)
touch("p_failed")
wait_for("p_exit", timeout=120)
# ... the process ends here (%(how)s); whatever its handle still holds in its buffer is not inside any session any more
if %(how)r == "sys.exit":
    sys.exit(0)
"""


def run_exitqueue(spec, ctx):
    """Process P runs a writing session on a buffered handle whose exit flush is interrupted by a rejected record (a key too
    long for the file format): the records queued behind it stay in the buffer.  P then terminates normally WHILE a session
    of this process is inside.  Rule: nothing but a session touches the file, so the file's bytes do not change while this
    process is inside its session, whatever P's termination does; afterwards the records of all completed sessions are
    there, complete, and anything else in the file is a record P had accepted (in limbo), complete as well."""
    import time
    from molli.storage import Collection, UkvCollectionBackend
    from vmon.models.kvmap import scan, ScanError

    for j in range(spec["n"]):
        kind = ("writing", "reading")[(spec["chunk"] + j) % 2]
        case = ("exitqueue", spec["chunk"], j, kind)
        if not ctx.want(case):
            continue
        rng = ctx.rng(*case)
        root = ctx.tmp / f"eq{j}"
        root.mkdir()
        path = root / "lib.ukv"
        c0 = Collection(path, UkvCollectionBackend, readonly=False, overwrite=True, bufsize=0)
        hard = {f"a{i}": rng.randbytes(rng.choice([3, 40, 400])) for i in range(rng.randrange(1, 4))}
        with c0.writing():
            for k, val in hard.items():
                c0[k] = val
        limbo = {f"p{i}": rng.randbytes(rng.choice([10, 40, 300])) for i in range(rng.randrange(1, 4))}
        records = [(k, val.hex()) for k, val in limbo.items()]
        # the rejected record: first in the queue, or behind one that the flush stores before it is interrupted
        records.insert(rng.choice([0, 0, 1]), ("K" * rng.randrange(256, 400), b"rejected by the exit flush".hex()))
        par = {"syspath": [p for p in sys.path if p], "root": str(root), "path": str(path), "records": records,
               "prior": rng.random() < 0.5, "how": rng.choice(["falling off the end", "sys.exit"])}
        p = subprocess.Popen([sys.executable, "-c", EXIT_P % par], stdout=subprocess.PIPE, stderr=subprocess.PIPE, text=True,
                             env=HashEnv(ctx, case)())
        t0 = time.monotonic()
        while not (root / "p_failed").exists() and p.poll() is None and time.monotonic() - t0 < 120:
            time.sleep(0.01)
        if not (root / "p_failed").exists():
            p.kill()
            ctx.inconclusive.append(f"exitqueue {spec['chunk']}/{j}: the process did not reach the end of its failing session")
            continue
        mine = c0 if kind == "writing" else Collection(path, UkvCollectionBackend)
        changed, ended_inside, own = None, False, {}
        try:
            with (mine.writing(timeout=30) if kind == "writing" else mine.reading(timeout=30)):
                if kind == "writing":
                    own["m0"] = rng.randbytes(rng.choice([5, 60]))
                    mine["m0"] = own["m0"]
                before = path.read_bytes()          # (what is in the file, seen through a descriptor of its own)
                (root / "p_exit").touch()
                try:
                    # only shapes the schedule: P gets the time to terminate (a P that waits for the lock does not)
                    p.wait(timeout=spec.get("settle", 20.0))
                    ended_inside = True
                except subprocess.TimeoutExpired:
                    pass
                changed = path.read_bytes() != before
                if kind == "writing":
                    own["m1"] = rng.randbytes(rng.choice([5, 60, 2000]))
                    mine["m1"] = own["m1"]
        except Exception as e:  # noqa
            ctx.violation(f"exitqueue:{kind}-session-raises:{type(e).__name__}", case=case, err=repr(e)[:200])
        try:
            out, err = p.communicate(timeout=180)
            rep = json.loads(out.strip().splitlines()[0])
        except Exception as e:  # noqa
            p.kill()
            ctx.inconclusive.append(f"exitqueue {spec['chunk']}/{j}: the process did not report / finish: {e!r}"[:200])
            continue
        if rep["raised"] is None:
            ctx.violation("exitqueue:oversize-key-accepted-silently", case=case)
            continue
        ctx.count("exitqueue.schedules")
        if ended_inside:
            ctx.count(f"exitqueue.process-ended-with-queued-records-while-a-{kind}-session-was-inside")
        ctx.case(case, dkey=(kind, len(limbo), par["prior"], par["how"], records[0][0][0]), nontrivial=ended_inside,
                 sample={"session_inside": kind, "queued_behind_the_rejected_record": len(records) - 1 - (records[0][0][0] != "K"),
                         "process_ended_while_inside": ended_inside, "process_end": par["how"]})
        if changed:
            ctx.violation(f"exitqueue:file-changed-by-a-terminating-process-while-a-{kind}-session-of-another-process-was-inside",
                          case=case, process_ended_while_inside=ended_inside)
        hard.update(own)
        try:
            fh = Collection(path, UkvCollectionBackend)
            with fh.reading(timeout=30):
                got = {k: fh[k] for k in fh.keys()}
            lost = sorted(k for k in hard if k not in got)
            if lost:
                ctx.violation("exitqueue:record-of-a-completed-session-lost", case=case, missing=lost[:4])
            elif any(got[k] != hard[k] for k in hard):
                ctx.violation("exitqueue:record-of-a-completed-session-altered", case=case,
                              keys=sorted(k for k in hard if got[k] != hard[k])[:4])
            extra = sorted(k for k in got if k not in hard and (k not in limbo or got[k] != limbo[k]))
            if extra:
                ctx.violation("exitqueue:unknown-or-incomplete-record-afterwards", case=case, keys=[k[:12] for k in extra][:4])
            scan(path.read_bytes())
        except ScanError as e:
            ctx.violation("exitqueue:final-file-not-a-clean-record-sequence", case=case, err=str(e))
        except Exception as e:  # noqa
            ctx.violation(f"exitqueue:fresh-handle-session-raises:{type(e).__name__}", case=case, err=repr(e)[:200])


# ------------------------------------------------------------------------------------------------
# seq

def run_seq(spec, ctx):
    from molli.storage import Collection, UkvCollectionBackend
    from vmon.models.kvmap import scan

    # alphabet: (handle, kind) with kind in R, W0, W1, W2
    alpha = [(h, k) for h in range(3) for k in ("R", "W0", "W1", "W2")]
    first = alpha[spec["first"]]
    K = spec["k"]
    path = ctx.tmp / "seq.ukv"
    bufs = [-1, 0, 10**6]

    def execute(seq):
        case = ("seq", "".join(f"{h}{k}" for h, k in seq))
        if not ctx.want(case):
            return
        cols = [Collection(path, UkvCollectionBackend, readonly=False, overwrite=(i == 0), bufsize=bufs[i]) for i in range(3)]
        committed = {}
        n = 0
        for h, kind in seq:
            col = cols[h]
            if kind == "R":
                with col.reading():
                    check_view(col, committed, case, ctx, "reader")
            else:
                with col.writing():
                    check_view(col, committed, case, ctx, "writer")
                    for _ in range(int(kind[1])):
                        key = f"k{n}"
                        n += 1
                        col[key] = f"v-{key}".encode() * (n % 3)
                        committed[key] = f"v-{key}".encode() * (n % 3)
        _, _, _, recs, _ = scan(path.read_bytes())
        if {k.decode(): v for k, v, _ in recs} != committed or len(recs) != len(committed):
            ctx.violation("seq:file-differs-from-model-after-sessions", case=case, n_file=len(recs), n_model=len(committed))
        ctx.count("seq.sequences")
        ctx.case(case, dkey=case[1], nontrivial=len({h for h, _ in seq}) >= 2 and any(k[0] == "W" and k != "W0" for _, k in seq),
                 sample={"sequence": case[1]} if len(seq) == K and hash(case[1]) % 501 == 0 else None)

    def rec(seq):
        execute(seq)
        if len(seq) < K:
            for a in alpha:
                # symmetry: handle i+1 is first used only after handle i
                used = {h for h, _ in seq}
                if a[0] > 0 and (a[0] - 1) not in used and a[0] not in used:
                    continue
                rec(seq + [a])

    if first[0] == 0:
        rec([first])


def check_view(col, committed, case, ctx, who):
    keys = set(col.keys())
    if keys != set(committed):
        ctx.violation(f"seq:{who}-session-begins-with-stale-or-wrong-keys", case=case,
                      missing=sorted(set(committed) - keys)[:3], extra=sorted(keys - set(committed))[:3])
        return
    for k in keys:
        try:
            if col[k] != committed[k]:
                ctx.violation(f"seq:{who}-reads-wrong-value", case=case, key=k)
        except Exception as e:  # noqa
            ctx.violation(f"seq:{who}-cannot-read-listed-key:{type(e).__name__}", case=case, key=k)


# ------------------------------------------------------------------------------------------------
# fail

class Boom(Exception):
    pass


class Stop(BaseException):
    """not an Exception: what `except Exception` does not see (as KeyboardInterrupt, SystemExit, GeneratorExit)"""


EXC_KINDS = {"Boom": Boom, "KeyboardInterrupt": KeyboardInterrupt, "SystemExit": SystemExit,
             "GeneratorExit": GeneratorExit, "BaseException-subclass": Stop}


PROBE = r"""
import sys, json
sys.path[:0] = %(syspath)r
from molli.storage import Collection, UkvCollectionBackend
path = %(path)r
try:
    try:
        from molli._aux.lock import rwlock
    except ImportError:
        from molli.aux import rwlock
    from fasteners import InterProcessReaderWriterLock
    lk = InterProcessReaderWriterLock(rwlock(path))
except Exception:
    lk = None          # lock helper not where the harness expects it: the timed session below still decides
if lk is not None:
    if not lk.acquire_write_lock(timeout=10):
        print(json.dumps({"lock": "timeout"})); sys.exit(0)
    lk.release_write_lock()
c = Collection(path, UkvCollectionBackend, readonly=False)
with c.writing(timeout=10):
    c[%(newkey)r] = b"from-fresh-process"
with c.reading(timeout=10):
    out = {k: c[k].hex() for k in c.keys()}
print(json.dumps({"lock": "ok", "records": out}))
"""


def fail_cases():
    """(failing step, bufsize, what is raised, how the failing handle was opened)"""
    cases = []
    for bufsize in (-1, 0, 64, 10**6):
        for step in ("body", "body-after-put", "encoder", "backend-write-1", "backend-write-2", "end_write",
                     "duplicate-key", "oversize-key", "reader-body", "end_read"):
            cases.append((step, bufsize, "Boom", "rw"))
    # the session is ended by something that is not an Exception (Ctrl-C in a notebook, sys.exit() caught by a framework,
    # a generator closed around the with statement): raised by the body, by the encoder, by the backend write
    for bufsize in (0, 10**6):
        for step in ("body", "body-after-put", "encoder", "backend-write-1", "end_write", "reader-body", "end_read"):
            for exc in ("KeyboardInterrupt", "SystemExit", "GeneratorExit", "BaseException-subclass"):
                if step in ("end_write", "end_read", "encoder", "backend-write-1") and exc in ("SystemExit", "GeneratorExit"):
                    continue
                cases.append((step, bufsize, exc, "rw"))
    # the failing reading session runs on a handle opened read-only (the default way to open a library)
    for step in ("reader-body", "end_read"):
        for exc in ("Boom", "KeyboardInterrupt", "SystemExit", "BaseException-subclass"):
            cases.append((step, 0, exc, "ro"))
    return cases


def run_fail_first_put(ctx):
    """A session whose FIRST (only) put is rejected by the backend because the encoder handed over text instead of bytes;
    nothing else touches the file before the same long-lived handle runs its next sessions: the rejected key is not
    listed, is unknown to get, and can be stored properly afterwards; a fresh handle agrees."""
    from molli.storage import Collection, UkvCollectionBackend
    from vmon.models.kvmap import scan, ScanError

    for bufsize in (-1, 0, 4096, 10**6):
        case = ("fail", "first-put-not-bytes", bufsize)
        if not ctx.want(case):
            continue
        path = ctx.tmp / f"firstput-{bufsize}.ukv"
        armed = [False]
        col = Collection(path, UkvCollectionBackend, value_encoder=lambda v: v.decode("latin-1") if armed[0] else v,
                         readonly=False, overwrite=True, bufsize=bufsize)
        with col.writing():
            col["old0"] = b"old-value-0"
            col["old1"] = b"old-value-1"
        raised = None
        armed[0] = True
        try:
            with col.writing():
                col["bad"] = b"text, not bytes, reaches the file layer"
        except BaseException as e:  # noqa
            raised = e
        armed[0] = False
        ctx.count("fail.cases")
        ctx.count("fail.first-put-rejected-then-same-handle")
        ctx.case(case, dkey=case, nontrivial=True, sample={"step": "first-put-not-bytes", "bufsize": bufsize, "raised": repr(raised)[:80]})
        tag = "first-put-not-bytes"
        if raised is None:
            ctx.violation(f"fail:{tag}:accepted-silently", case=case)
            continue
        try:
            with col.reading(timeout=10):
                ks = set(col.keys())
                if ks != {"old0", "old1"}:
                    ctx.violation(f"fail:{tag}:same-handle-lists-a-record-that-was-never-written", case=case, listed=sorted(ks))
                    continue
            with col.writing(timeout=10):
                col["bad"] = b"now bytes"
            fresh = Collection(path, UkvCollectionBackend, readonly=True)
            with fresh.reading(timeout=10):
                got = {k: fresh[k] for k in fresh.keys()}
            if got != {"old0": b"old-value-0", "old1": b"old-value-1", "bad": b"now bytes"}:
                ctx.violation(f"fail:{tag}:records-differ-after-the-key-was-stored-properly", case=case, listed=sorted(got))
            scan(path.read_bytes())
        except ScanError as e:
            ctx.violation(f"fail:{tag}:file-not-a-clean-record-sequence", case=case, err=str(e))
        except Exception as e:  # noqa
            ctx.violation(f"fail:{tag}:same-handle-next-session-raises:{type(e).__name__}", case=case, err=repr(e)[:200])


PARTIAL_WRITER = r"""
import sys, json, resource, signal
sys.path[:0] = %(syspath)r
from molli.storage import Collection, UkvCollectionBackend
path = %(path)r
c = Collection(path, UkvCollectionBackend, readonly=False, bufsize=%(bufsize)r)
import os
limit = os.path.getsize(path) + %(room)r
signal.signal(signal.SIGXFSZ, signal.SIG_IGN)          # the write then fails with EFBIG after a partial write
resource.setrlimit(resource.RLIMIT_FSIZE, (limit, limit))
err = None
try:
    with c.writing(timeout=20):
        c["big"] = bytes(%(size)r)                     # zero-filled: what is left of it can look like record headers
except BaseException as e:
    err = type(e).__name__
print(json.dumps({"raised": err}))
"""


def run_fail_partial_write(ctx):
    """The operating system accepts only part of a record (file-size limit, full disk): the session fails, the file ends
    in a torn record.  Later sessions of OTHER processes append short records; every reader then sees exactly the records
    of completed sessions - nothing made of the left-over bytes."""
    from molli.storage import Collection, UkvCollectionBackend
    from vmon.models.kvmap import scan, ScanError

    for bufsize, size, room in ((0, 20000, 9000), (10**6, 70000, 30000), (0, 9000, 40), (4096, 20000, 5)):
        case = ("fail", "partial-write", bufsize, size, room)
        if not ctx.want(case):
            continue
        path = ctx.tmp / f"partial-{bufsize}-{size}-{room}.ukv"
        c0 = Collection(path, UkvCollectionBackend, readonly=False, overwrite=True, bufsize=0)
        want = {f"a{i}": f"value-{i}".encode() * 3 for i in range(3)}
        with c0.writing():
            for k, v in want.items():
                c0[k] = v
        par = {"syspath": [p for p in sys.path if p], "path": str(path), "bufsize": bufsize, "size": size, "room": room}
        try:
            hashenv = HashEnv(ctx, case)
            p = subprocess.run([sys.executable, "-c", PARTIAL_WRITER % par], capture_output=True, text=True, timeout=120, env=hashenv())
            out = json.loads(p.stdout.strip().splitlines()[-1])
        except Exception as e:  # noqa
            ctx.inconclusive.append(f"partial-write writer did not report: {e!r}"[:200])
            continue
        ctx.count("fail.cases")
        ctx.count("fail.partial-write-by-the-os")
        torn = path.stat().st_size
        ctx.case(case, dkey=case, nontrivial=True, sample={"step": "partial-write", "bufsize": bufsize, "value": size,
                                                           "room_left": room, "writer_raised": out["raised"]})
        if out["raised"] is None:
            ctx.inconclusive.append("partial-write: the size limit did not make the writer fail")
            continue
        tag = "partial-write"
        # a fresh process appends a SHORT record, then readers (long-lived handle c0 and a fresh one) look
        code = PROBE % {"syspath": [p for p in sys.path if p], "path": str(path), "newkey": "after"}
        try:
            pr = subprocess.run([sys.executable, "-c", code], capture_output=True, text=True, timeout=60, env=hashenv())
            seen = json.loads(pr.stdout.strip().splitlines()[-1])
        except Exception as e:  # noqa
            ctx.violation(f"fail:{tag}:fresh-process-session-failed", case=case, err=repr(e)[:200])
            continue
        if seen.get("lock") != "ok":
            ctx.violation(f"fail:{tag}:lock-not-released-after-failed-session", case=case)
            continue
        expect = dict(want, after=b"from-fresh-process")
        views = {"fresh-process": {k: bytes.fromhex(v) for k, v in seen["records"].items()}}
        try:
            with c0.reading(timeout=10):
                views["long-lived-handle"] = {k: c0[k] for k in c0.keys()}
            fh = Collection(path, UkvCollectionBackend, readonly=True)
            with fh.reading(timeout=10):
                views["fresh-handle"] = {k: fh[k] for k in fh.keys()}
        except Exception as e:  # noqa
            ctx.violation(f"fail:{tag}:reader-raises:{type(e).__name__}", case=case, err=repr(e)[:200])
            continue
        for who, got in views.items():
            if got != expect:
                ctx.violation(f"fail:{tag}:{who}-sees-other-than-the-completed-records", case=case,
                              extra=[k[:12] for k in sorted(set(got) - set(expect))][:4], missing=sorted(set(expect) - set(got))[:4],
                              torn_file_size=torn)
        try:
            scan(path.read_bytes())
        except ScanError as e:
            ctx.violation(f"fail:{tag}:file-not-a-clean-record-sequence", case=case, err=str(e))


CLOSE_REFUSED = LATE_COMMON + r"""
import resource, signal
lib = Collection(path, UkvCollectionBackend, readonly=False, bufsize=%(bufsize)r)
if %(prior)r:
    with lib.reading(timeout=20):
        pass
def fds():
    out = []
    for f in os.listdir("/proc/self/fd"):
        try:
            if os.path.realpath("/proc/self/fd/" + f) == os.path.realpath(path):
                out.append(f)
        except OSError:
            pass
    return out
signal.signal(signal.SIGXFSZ, signal.SIG_IGN)          # the write then fails with EFBIG
resource.setrlimit(resource.RLIMIT_FSIZE, (os.path.getsize(path) + %(room)r, resource.RLIM_INFINITY))
raised = None
try:
    with lib.writing(timeout=20):
        # smaller than the stream buffer: the bytes are handed to the operating system when the file is closed
        lib["b"] = b"B" * %(size)r
except BaseException as e:
    raised = type(e).__name__
resource.setrlimit(resource.RLIMIT_FSIZE, (resource.RLIM_INFINITY, resource.RLIM_INFINITY))       # room again
rep = {"raised": raised, "file_left_open": len(fds()), "next": []}
touch("a_failed")
wait_for("go_on", timeout=120)
# the SAME handle goes on: two more rounds of a reading and a writing session
for attempt in (1, 2):
    r = {"listed": None, "unreadable": {}, "values": {}, "reading_raises": None, "writing_raises": None}
    try:
        with lib.reading(timeout=20):
            r["listed"] = sorted(lib.keys())
            for k in r["listed"]:
                try:
                    r["values"][k] = lib[k].hex()
                except Exception as e:
                    r["unreadable"][k] = type(e).__name__
    except Exception as e:
        r["reading_raises"] = type(e).__name__ + ": " + str(e)[:80]
    try:
        with lib.writing(timeout=20):
            lib["c%%d" %% attempt] = b"value-of-c%%d" %% attempt
    except Exception as e:
        r["writing_raises"] = type(e).__name__ + ": " + str(e)[:80]
    rep["next"].append(r)
rep["file_left_open_at_the_end"] = len(fds())
print(json.dumps(rep))
"""


def run_fail_close_refused(ctx):
    """The operating system refuses the bytes the stream still buffers when the file is closed at session exit (file-size
    limit; a full disk does the same): the REAL close fails.  The session ends with that exception; the file is closed
    (no descriptor left), a fresh process runs a session, the SAME handle then runs further sessions (each proceeds, lists
    only records that are there and complete), and after the failing process has ended the records of all completed
    sessions are intact."""
    import time
    from molli.storage import Collection, UkvCollectionBackend
    from vmon.models.kvmap import scan, ScanError

    tag = "close-refused-by-os"
    for bufsize, size, room, prior in ((0, 100, 20, False), (10**6, 100, 20, True), (4096, 1500, 0, False), (0, 3000, 700, True),
                                       (-1, 40, 3, True)):
        case = ("fail", tag, bufsize, size, room, prior)
        if not ctx.want(case):
            continue
        root = ctx.tmp / f"closeref-{bufsize}-{size}"
        root.mkdir()
        path = root / "lib.ukv"
        c0 = Collection(path, UkvCollectionBackend, readonly=False, overwrite=True, bufsize=0)
        committed = {f"a{i}": f"value-{i}".encode() * 3 for i in range(3)}
        with c0.writing():
            for k, v in committed.items():
                c0[k] = v
        hashenv = HashEnv(ctx, case)
        par = {"syspath": [p for p in sys.path if p], "root": str(root), "path": str(path), "bufsize": bufsize, "size": size,
               "room": room, "prior": prior}
        a = subprocess.Popen([sys.executable, "-c", CLOSE_REFUSED % par], stdout=subprocess.PIPE, stderr=subprocess.PIPE, text=True,
                             env=hashenv())
        t0 = time.monotonic()
        while not (root / "a_failed").exists() and a.poll() is None and time.monotonic() - t0 < 120:
            time.sleep(0.01)
        if not (root / "a_failed").exists():
            a.kill()
            ctx.inconclusive.append(f"close-refused: the writer did not reach the end of its session: {a.communicate()[1][-200:]}")
            continue
        # a fresh process gets the lock, stores a record in a completed session (the failing process is still alive)
        code = PROBE % {"syspath": [p for p in sys.path if p], "path": str(path), "newkey": "probe"}
        probe = None
        try:
            pr = subprocess.run([sys.executable, "-c", code], capture_output=True, text=True, timeout=60, env=hashenv())
            probe = json.loads(pr.stdout.strip().splitlines()[-1])
        except subprocess.TimeoutExpired:
            ctx.violation(f"fail:{tag}:fresh-process-blocked-forever", case=case)
        except Exception:  # noqa
            ctx.violation(f"fail:{tag}:fresh-process-session-failed", case=case, stderr=pr.stderr[-300:])
        (root / "go_on").touch()
        try:
            out, err = a.communicate(timeout=180)
            rep = json.loads(out.strip().splitlines()[-1])
        except Exception as e:  # noqa
            a.kill()
            ctx.violation(f"fail:{tag}:failing-process-did-not-finish-its-later-sessions", case=case, err=repr(e)[:200])
            continue
        ctx.count("fail.cases")
        ctx.case(case, dkey=case, nontrivial=True, sample={"step": tag, "bufsize": bufsize, "value": size, "room_left": room,
                                                           "raised": rep["raised"]})
        if rep["raised"] is None:
            ctx.inconclusive.append("close-refused: the size limit did not make the session fail")
            continue
        ctx.count("fail.close-refused-by-the-os")
        if rep["file_left_open"]:
            ctx.violation(f"fail:{tag}:file-left-open-after-failed-session", case=case, fds=rep["file_left_open"])
        if probe is not None:
            if probe.get("lock") != "ok":
                ctx.violation(f"fail:{tag}:lock-not-released-after-failed-session", case=case)
            else:
                ctx.count("fail.fresh-process-acquired")
                got = {k: bytes.fromhex(v) for k, v in probe["records"].items()}
                if got != dict(committed, probe=b"from-fresh-process"):
                    ctx.violation(f"fail:{tag}:fresh-process-sees-other-than-the-completed-records", case=case,
                                  listed=[k[:12] for k in sorted(got)][:8])
        # the same handle afterwards
        stored = dict(committed)
        if probe is not None and probe.get("lock") == "ok":
            stored["probe"] = b"from-fresh-process"
        for n, r in enumerate(rep["next"], 1):
            which = "next-session" if n == 1 else "second-next-session"
            ctx.count("fail.sessions-of-the-same-handle-after-a-refused-close")
            if r["reading_raises"]:
                ctx.violation(f"fail:{tag}:same-handle-{which}-raises:{r['reading_raises'].split(':')[0]}", case=case,
                              err=r["reading_raises"], session="reading")
            if r["listed"] is not None:
                never = sorted(k for k in r["listed"] if k not in stored)
                if never:
                    ctx.violation(f"fail:{tag}:same-handle-{which}-lists-a-record-that-was-never-stored", case=case, listed=r["listed"][:8])
                missing = sorted(k for k in stored if k not in r["listed"])
                if missing:
                    ctx.violation(f"fail:{tag}:same-handle-{which}-misses-records", case=case, missing=missing[:4])
                if r["unreadable"]:
                    ctx.violation(f"fail:{tag}:same-handle-{which}-listed-record-unreadable:{sorted(set(r['unreadable'].values()))[0]}",
                                  case=case, keys=sorted(r["unreadable"])[:4])
                if any(k in stored and bytes.fromhex(v) != stored[k] for k, v in r["values"].items()):
                    ctx.violation(f"fail:{tag}:same-handle-{which}-earlier-record-altered", case=case)
            if r["writing_raises"]:
                ctx.violation(f"fail:{tag}:same-handle-{which}-raises:{r['writing_raises'].split(':')[0]}", case=case,
                              err=r["writing_raises"], session="writing")
            else:
                stored[f"c{n}"] = f"value-of-c{n}".encode()
        if rep["file_left_open_at_the_end"]:
            ctx.violation(f"fail:{tag}:file-left-open-after-later-sessions", case=case)
        # the failing process has ended: every completed session's records are there, nothing else
        try:
            views = {}
            with c0.reading(timeout=10):
                views["long-lived-handle"] = {k: c0[k] for k in c0.keys()}
            fh = Collection(path, UkvCollectionBackend, readonly=True)
            with fh.reading(timeout=10):
                views["fresh-handle"] = {k: fh[k] for k in fh.keys()}
            for who, got in views.items():
                if got != stored:
                    ctx.violation(f"fail:{tag}:{who}-sees-other-than-the-completed-records-after-the-process-ended", case=case,
                                  extra=[k[:12] for k in sorted(set(got) - set(stored))][:4],
                                  missing=sorted(set(stored) - set(got))[:4],
                                  altered=sorted(k for k in stored if k in got and got[k] != stored[k])[:4])
            scan(path.read_bytes())
        except ScanError as e:
            ctx.violation(f"fail:{tag}:file-not-a-clean-record-sequence", case=case, err=str(e))
        except Exception as e:  # noqa
            ctx.violation(f"fail:{tag}:reader-raises:{type(e).__name__}", case=case, err=repr(e)[:200])


def run_fail(spec, ctx):
    from molli.storage import Collection, UkvCollectionBackend
    from vmon.models.kvmap import scan, ScanError

    if spec["chunk"] == 2:
        run_fail_close_refused(ctx)
    if spec["chunk"] == 0:
        run_fail_first_put(ctx)
    if spec["chunk"] == 1:
        run_fail_partial_write(ctx)
    allc = fail_cases()
    for idx, (step, bufsize, exc, how) in enumerate(allc):
        if idx % spec["of"] != spec["chunk"]:
            continue
        case = ("fail", step, bufsize, exc, how)
        if not ctx.want(case):
            continue
        path = ctx.tmp / f"fail-{idx}.ukv"
        encoder_armed = [False]
        Exc = EXC_KINDS[exc]
        tag = step if exc == "Boom" and how == "rw" else f"{step}[{exc if exc == 'Boom' else 'not-an-Exception'},{how}]"

        def encoder(v):
            if encoder_armed[0]:
                raise Exc("encoder")
            return v

        maker = Collection(path, UkvCollectionBackend, value_encoder=encoder, readonly=False, overwrite=True, bufsize=bufsize)
        other = Collection(path, UkvCollectionBackend, readonly=False, bufsize=0)
        committed = {}
        with maker.writing():
            for i in range(3):
                maker[f"old{i}"] = f"old-value-{i}".encode() * 5
                committed[f"old{i}"] = f"old-value-{i}".encode() * 5
        # the handle whose session fails: the maker itself, or a read-only handle that has already run a session
        if how == "ro":
            col = Collection(path, UkvCollectionBackend)
            with col.reading():
                _ = col["old2"]
        else:
            col = maker
        be = col._backend
        restore = []
        raised = None
        maybe = {}
        try:
            if step in ("reader-body", "end_read"):
                if step == "end_read":
                    orig = be.end_read

                    def bad_end_read():
                        orig()
                        raise Exc("end_read")
                    be.end_read = bad_end_read
                    restore.append(("end_read", orig))
                with col.reading():
                    _ = col["old0"]
                    if step == "reader-body":
                        raise Exc("reader body")
            else:
                if step.startswith("backend-write"):
                    j = int(step[-1])
                    orig = be._write
                    n = [0]

                    def bad_write(k, v):
                        n[0] += 1
                        if n[0] == j:
                            raise Exc(f"backend write #{j}")
                        return orig(k, v)
                    be._write = bad_write
                    restore.append(("_write", orig))
                if step == "end_write":
                    orig = be.end_write

                    def bad_end_write():
                        orig()
                        raise Exc("end_write")
                    be.end_write = bad_end_write
                    restore.append(("end_write", orig))
                with col.writing():
                    maybe.update({"new0": b"new-value-0", "new1": b"new-value-1" * 3, "new3": b"new-value-3"})
                    col["new0"] = b"new-value-0"
                    if step == "body":
                        raise Exc("body")
                    col["new1"] = b"new-value-1" * 3
                    if step == "body-after-put":
                        raise Exc("body after put")
                    if step == "encoder":
                        encoder_armed[0] = True
                        col["new2"] = b"never encoded"
                    if step == "duplicate-key":
                        col["old1"] = b"duplicate"      # immediate KeyError when unbuffered, at the exit flush otherwise
                    if step == "oversize-key":
                        col["K" * 256] = b"oversize"
                    col["new3"] = b"new-value-3"
        except BaseException as e:  # noqa  (the session is the only thing running here: whatever arrives was raised in it)
            raised = e
        finally:
            for name, orig in restore:
                setattr(be, name, orig)
            encoder_armed[0] = False
        ctx.count("fail.cases")
        if exc != "Boom":
            ctx.count("fail.cases-ended-by-something-that-is-not-an-Exception")
        if how == "ro":
            ctx.count("fail.cases-on-a-read-only-handle")
        ctx.case(case, dkey=case, nontrivial=True,
                 sample={"step": step, "bufsize": bufsize, "handle": how, "raised": repr(raised)[:80]})
        if raised is None:
            ctx.violation(f"fail:{tag}:exception-swallowed", case=case)
        elif exc != "Boom" and not isinstance(raised, Exc):
            ctx.violation(f"fail:{tag}:exception-replaced-by-another:{type(raised).__name__}", case=case, err=repr(raised)[:200])
        # the file must be closed: no descriptor of this process points at it any more
        open_fds = []
        for fd in os.listdir("/proc/self/fd"):
            try:
                if os.readlink(f"/proc/self/fd/{fd}") == str(path):
                    open_fds.append(fd)
            except OSError:
                pass
        if open_fds:
            ctx.violation(f"fail:{tag}:file-left-open-after-failed-session", case=case, fds=len(open_fds))
        # a fresh process must get the write lock (this process, the only possible holder, is still alive)
        code = PROBE % {"syspath": [p for p in sys.path if p], "path": str(path), "newkey": "probe"}
        try:
            p = subprocess.run([sys.executable, "-c", code], capture_output=True, text=True, timeout=60,
                               env=HashEnv(ctx, case)())
        except subprocess.TimeoutExpired:
            ctx.violation(f"fail:{tag}:fresh-process-blocked-forever", case=case)
            continue
        try:
            out = json.loads(p.stdout.strip().splitlines()[-1])
        except Exception:  # noqa
            ctx.violation(f"fail:{tag}:fresh-process-session-failed", case=case, stderr=p.stderr[-300:])
            continue
        if out["lock"] != "ok":
            ctx.violation(f"fail:{tag}:lock-not-released-after-failed-session", case=case, raised=repr(raised)[:100])
            continue
        ctx.count("fail.fresh-process-acquired")
        recs = {k: bytes.fromhex(v) for k, v in out["records"].items()}
        for k, v in committed.items():
            if recs.get(k) != v:
                ctx.violation(f"fail:{tag}:earlier-record-lost-or-altered", case=case, key=k)
        for k, v in recs.items():
            if k in committed or k == "probe":
                continue
            if k not in maybe or maybe[k] != v:
                ctx.violation(f"fail:{tag}:unexpected-record-after-failed-session", case=case, key=k[:20])
        # the next session on the same handle and on another handle of this process succeeds and sees what the completed
        # sessions (the earlier ones, the one of the fresh process, the ones just run here) stored
        stored = dict(committed, probe=b"from-fresh-process")
        for name, c in (("other-handle", other), ("same-handle", col)) if how == "ro" else (("same-handle", col), ("other-handle", other)):
            try:
                if c is not col or how != "ro":
                    with c.writing(timeout=10):
                        c[f"after-{name}"] = b"x"
                    stored[f"after-{name}"] = b"x"
                with c.reading(timeout=10):
                    ks = set(c.keys())
                    if not set(stored) <= ks:
                        ctx.violation(f"fail:{tag}:{name}-next-session-misses-records", case=case,
                                      missing=sorted(set(stored) - ks)[:4])
                        continue
                    for k in stored:
                        if c[k] != stored[k]:
                            ctx.violation(f"fail:{tag}:{name}-earlier-record-altered", case=case, key=k)
            except Exception as e:  # noqa
                ctx.violation(f"fail:{tag}:{name}-next-session-raises:{type(e).__name__}", case=case, err=repr(e)[:200])
        try:
            scan(path.read_bytes())
        except ScanError as e:
            ctx.violation(f"fail:{tag}:file-not-a-clean-record-sequence", case=case, err=str(e))
