"""
C05 -- atoms, bonds, coordinates and charges stay aligned under every edit history.

Monitor shape: identity-keyed reference model (vmon/models/editmodel.py) stepped beside the real Molecule /
Structure; after every top-level edit issued by the harness the object is inspected through public accessors only
(quiescent-point invariant + comparison with the model).
"""
from __future__ import annotations

ID = "C05"
LEVEL = "exploration"
RULE = ("random edit sequences (length <= 40) over {add_atom with/without charge, new_atom, del_atom by Atom/index/label/"
        "Element, connect, append_bond (incl. a foreign atom), append_bonds, extend_bonds, del_bond, remove_substituent, "
        "add_implicit_hydrogens} starting from empty, mol2-loaded (dendrobine, hadd_test, dmf, benzene, propyne, "
        "isornitrate, pdb_4a05/nanotube in thorough), xyz-loaded, copy-constructed and unpickled molecules, for Molecule and "
        "Structure; plus every sequence of <=3 (quick) / 4 (thorough) operations over a 14-operation alphabet on a 5-atom "
        "seed molecule. Sentinel coordinates/charges per atom. non-trivial = sequence has a deletion and an addition "
        "after it; distinct by operation-kind string. Second extension: bulk bond calls (append_bonds / extend_bonds / "
        "repeated append_bond) whose bonds bring one, two or several new atoms (both ends new, a new atom shared by several "
        "bonds as first and as second end, molecules built from bonds only), deleted / donor-owned atoms and donor-owned bonds "
        "through the bulk calls, connect_like (source kept or dropped), add_atom with charge=None given explicitly, starts from "
        "every constructor form (element list, copy_atoms=True, n_atoms=k, concatenate / |) and from CDXML files, index_bond of "
        "every bond, add_atom of an atom that is already a member (last operation of a history)")
ASSUMPTIONS = [
    "operations that change the atom count are not issued on Conformer/Substructure views (not defined there); views are "
    "only inspected for alignment",
    "negative integer indices are not generated; with several bonds on one atom pair del_bond may remove any one of them",
    "an atom adopted through append_bond (foreign atom) was given no coordinate: any row / any numeric charge is accepted "
    "for it, after which it must keep them",
    "atoms adopted by one bulk bond call may be listed in any order after the atoms that were there before",
    "connect_like(other): afterwards the bonds join the same positions as in other (as a multiset of unordered pairs); bond "
    "attributes are not compared",
    "add_atom of an atom that is already a member: a refusal that changes nothing, or any outcome in which the atom is still "
    "listed once, is accepted",
]
# Behaviours of the UNCHANGED tree that break the property as written (see tools/findings/C05-ext.json). The check counts
# them instead of reporting them; remove a key once the library is repaired.
KNOWN_ON_UNCHANGED_TREE = set()      # (its three entries were repaired in the library)
import os as _os
if _os.environ.get("VERIF_C05_REPORT_KNOWN"):      # used to confirm that the proposed repairs silence these keys
    KNOWN_ON_UNCHANGED_TREE = set()
REQUIRED = {"op.readd_atom": 100, "op.add_atom_bad_row": 30, "op.adopt_owned_atom": 50, "op.append_owned_bond": 10, "op.remove_substituent.by-index": 20, "start.from-library": 5, "op.del_atom": 500, "op.del_atom.by-element": 50, "op.del_atom.by-label": 50, "op.add_atom.no-charge": 100,
            "op.append_bond.foreign": 50, "op.remove_substituent": 50, "op.add_implicit_hydrogens": 50,
            "inspect": 5000, "op.raised": 50, "view.held-substructure-checked": 500, "op.extend_bonds.generator": 10, "op.del_bond.parallel": 5, "op.connect.stale-or-foreign-atom": 20, "start.unpickled": 5, "start.mol2": 20, "exh.sequences": 1000,
            # second extension
            "op.bulk_new.both-ends-new": 50, "op.bulk_new.centre-as-first-end": 50, "op.bulk_new.centre-as-second-end": 50,
            "op.bulk_new.chain": 50, "op.bulk_new.chain-reversed": 50, "op.bulk_new.mixed": 50,
            "op.bulk_new.on-empty-molecule": 10, "op.bulk_new.hooked-to-an-existing-atom": 200,
            "op.bulk_new.free-fragment": 150, "bonds-with-new-atoms.via-append_bonds": 300,
            "bonds-with-new-atoms.via-extend_bonds": 300, "op.connect_like": 150, "op.connect_like.no-bonds": 5,
            "op.connect_like.source-dropped": 80, "op.connect_like.source-kept": 80, "op.add_atom.explicit-none": 250,
            "op.readd_atom.via-append_bonds": 20, "op.readd_atom.via-extend_bonds": 20,
            "op.adopt_owned_atom.via-append_bonds": 40, "op.adopt_owned_atom.via-extend_bonds": 40,
            "op.append_owned_bond.via-append_bonds": 60, "op.append_owned_bond.via-extend_bonds": 60,
            "start.elements": 15, "start.copy_atoms": 20, "start.n_atoms": 20, "start.concatenate": 20, "start.cdxml": 15,
            "inspect.index_bond": 100000, "op.add_member_atom": 60}
CHUNK_TIMEOUT = 900
TECHNIQUE = "runtime monitoring: identity-keyed edit model stepped beside real Molecule/Structure, invariant at quiescent points"
LEVEL_TEXT = ("Held on the edit histories produced (random long + bounded-exhaustive short): after every edit the real object "
              "is inspected through public accessors and compared with an independent model of what the edit should do.")
LEVEL_NOTE = "Trusted: vmon/models/editmodel.py. Bit-exact comparison of rows/charges (edits never recompute them)."

SEED_FILES = ["dendrobine.mol2", "hadd_test.mol2", "dmf.mol2", "benzene.mol2", "propyne.mol2", "isornitrate.mol2",
              "dimethyl_sulfone.mol2", "fxyl.mol2", "dummy.mol2", "bpa_core.mol2"]
BIG_FILES = ["pdb_4a05.mol2", "nanotube.mol2"]


def plan(tier, seed):
    specs = []
    n = 32 if tier == "quick" else 256
    per = 20 if tier == "quick" else 120
    for i in range(n):
        specs.append({"kind": "rand", "chunk": i, "n": per, "cls": "Molecule" if i % 4 else "Structure"})
    for f in range(14):
        specs.append({"kind": "exh", "first": f, "L": 3 if tier == "quick" else 4, "cls": "Molecule"})
    for f in range(14):
        specs.append({"kind": "exh", "first": f, "L": 2 if tier == "quick" else 3, "cls": "Structure"})
    return specs


def run_chunk(spec, ctx):
    if spec["kind"] == "rand":
        run_random(spec, ctx)
    else:
        run_exh(spec, ctx)


# ------------------------------------------------------------------------------------------------

class Driver:
    def __init__(self, ctx, mol, case, is_mol, start_label="start"):
        from vmon.models.editmodel import EditModel

        self.ctx, self.mol, self.case, self.is_mol = ctx, mol, case, is_mol
        self.ops = []
        self.k = 1000
        self.ok = True
        charges = list(mol.atomic_charges) if is_mol else []
        self.model = EditModel(list(mol.atoms), [tuple(r) for r in mol.coords], charges, list(mol.bonds), has_charges=is_mol)
        self.free = set()      # atoms whose row/charge is "whatever it is now" (adopted, hydrogens)
        self.view = None       # a Substructure view taken at the start and kept across all edits
        if mol.n_atoms >= 4:
            members = list(mol.atoms)[1::2][:6]
            try:
                sub = mol.substructure(members)
                _ = sub.coords
                self.view = (sub, members)
            except Exception:  # noqa
                self.view = None
        self.exempt = set()    # bonds that showed a KNOWN_ON_UNCHANGED_TREE defect at the start (their parent is not re-read)
        self._hold = []
        self.inspect(start_label, False)

    def v(self, key, **detail):
        if key in KNOWN_ON_UNCHANGED_TREE:
            self.ctx.count("known-on-unchanged-tree:" + key)
            return "known"
        self.ok = False
        self.ctx.violation(key, case=self.case, ops=self.ops[-8:], cls=type(self.mol).__name__, **detail)

    def sentinel(self):
        # full-mantissa values (no rounding, no narrower float type leaves them as they are), unique per call
        import random

        self.k += 1
        r = random.Random(self.k * 7919)
        return (r.uniform(-60, 60), r.uniform(-60, 60) + self.k, -r.uniform(1, 60)), r.uniform(-2, 2) + 1e-9 * self.k

    # ---- inspection at a quiescent point (public accessors only)
    def inspect(self, after, raised):
        import numpy as np
        from vmon.models.editmodel import same_float

        m, mod = self.mol, self.model
        self.ctx.count("inspect")
        atoms = list(m.atoms)
        n = len(atoms)
        coords = m.coords
        if getattr(coords, "shape", None) != (n, 3):
            return self.v(f"{after}:coords-shape-differs-from-atom-count", shape=getattr(coords, "shape", None), n_atoms=n)
        if self.is_mol:
            q = m.atomic_charges
            if getattr(q, "shape", None) != (n,):
                return self.v(f"{after}:charges-length-differs-from-atom-count", shape=getattr(q, "shape", None), n_atoms=n)
            if q.dtype.kind != "f":
                return self.v(f"{after}:charges-not-numeric", dtype=str(q.dtype),
                              sample=[repr(x) for x in list(q[-3:])])
        if len({id(a) for a in atoms}) != n:
            if self.v(f"{after}:atom-listed-twice") == "known":
                self.ok = False      # the object is damaged in a known way: the history ends here, nothing is reported
            return
        if not raised:
            if [id(a) for a in atoms] != [id(a) for a in mod.atoms]:
                return self.v(f"{after}:atom-sequence-differs-from-expected", n_got=n, n_want=len(mod.atoms),
                              got=[a.element.name for a in atoms[:12]], want=[a.element.name for a in mod.atoms[:12]])
        else:
            # after a failed operation the model resynchronises its atom and bond sets from the object
            known = {id(a) for a in mod.atoms}
            if any(id(a) not in known for a in atoms):
                return self.v(f"{after}:failed-operation-added-an-atom")
            mod.atoms = atoms
            mod.bonds = [(b, b.a1, b.a2) for b in m.bonds]
        for i, a in enumerate(atoms):
            if id(a) in self.free:
                mod.row[id(a)] = tuple(float(x) for x in coords[i])
                if self.is_mol:
                    mod.charge[id(a)] = float(m.atomic_charges[i])
                self.free.discard(id(a))
                continue
            want = mod.row[id(a)]
            if not all(same_float(x, y) for x, y in zip(coords[i], want)):
                return self.v(f"{after}:surviving-atom-has-another-atoms-coordinates", index=i, got=[float(x) for x in coords[i]],
                              want=list(want))
            if self.is_mol and not same_float(m.atomic_charges[i], mod.charge[id(a)]):
                return self.v(f"{after}:surviving-atom-has-another-atoms-charge", index=i, got=float(m.atomic_charges[i]),
                              want=mod.charge[id(a)])
        ids = {id(a) for a in atoms}
        bonds = list(m.bonds)
        for j, b in enumerate(bonds):
            if id(b.a1) not in ids or id(b.a2) not in ids:
                return self.v(f"{after}:bond-endpoint-not-in-molecule", bond=j)
        if not raised:
            got = sorted((id(b), id(b.a1), id(b.a2)) for b in bonds)
            want = sorted((id(b), id(p), id(q)) for b, p, q in mod.bonds)
            if got != want:
                return self.v(f"{after}:bond-set-differs-from-expected", n_got=len(got), n_want=len(want))
        # a view taken before the edits still addresses its own atoms (while all of them are in the molecule)
        if self.view is not None:
            sub, members = self.view
            if all(id(a) in ids for a in members):
                self.ctx.count("view.held-substructure-checked")
                try:
                    rows = sub.coords
                    idx = list(sub.parent_atom_indices)
                except Exception as e:  # noqa
                    return self.v(f"{after}:held-substructure-view-raises:{type(e).__name__}", err=repr(e)[:200])
                want_idx = [next(i for i, x in enumerate(atoms) if x is a) for a in members]
                if idx != want_idx:
                    return self.v(f"{after}:held-substructure-view-addresses-other-atoms", got=idx[:6], want=want_idx[:6])
                for a, r in zip(members, rows):
                    if id(a) not in self.free and not all(same_float(x, y) for x, y in zip(r, mod.row[id(a)])):
                        return self.v(f"{after}:held-substructure-view-shows-other-atoms-coordinates")
            else:
                self.view = None
        # parents and indices
        for i, a in enumerate(atoms):
            try:
                par = a.parent
                idx = a.idx if par is not None else None
            except Exception as e:  # noqa
                return self.v(f"{after}:atom-parent-raises:{type(e).__name__}", index=i)
            if par is not m:
                return self.v(f"{after}:atom-parent-is-not-the-molecule", index=i, parent=type(par).__name__)
            if idx != i:
                return self.v(f"{after}:atom-idx-wrong", index=i, got=idx)
            if m.get_atom_index(a) != i:
                return self.v(f"{after}:get_atom_index-wrong", index=i)
        for j, b in enumerate(bonds):
            try:
                par = b.parent
            except Exception as e:  # noqa
                return self.v(f"{after}:bond-parent-raises:{type(e).__name__}", bond=j)
            if id(b) in self.exempt:
                continue
            if par is not m:
                if self.v(f"{after}:bond-parent-is-not-the-molecule", bond=j, parent=type(par).__name__) == "known":
                    self.exempt.add(id(b))
                    self._hold.append(b)
                    continue
                return
        # every bond reports its position (all bonds of small molecules, an evenly spaced sample of large ones)
        step = max(1, len(bonds) // 40) if len(bonds) > 150 else 1
        for j in range(0, len(bonds), step):
            b = bonds[j]
            self.ctx.count("inspect.index_bond")
            try:
                got = m.index_bond(b)
            except Exception as e:  # noqa
                return self.v(f"{after}:index_bond-raises:{type(e).__name__}", bond=j)
            if got != j:
                twin = (isinstance(got, int) and 0 <= got < len(bonds) and bonds[got] is not b
                        and {id(bonds[got].a1), id(bonds[got].a2)} == {id(b.a1), id(b.a2)})
                if twin:
                    if self.v("index_bond:parallel-bonds:position-of-the-twin-reported", bond=j, got=got) == "known":
                        continue
                    return
                return self.v(f"{after}:index_bond-wrong", bond=j, got=got if isinstance(got, int) else repr(got)[:40])

    # ---- helpers for bond additions that bring atoms
    def give(self, bonds, via, rng):
        """hand bonds to the molecule through one of the three entry points"""
        m = self.mol
        self.ctx.count(f"bonds-with-new-atoms.via-{via}")
        if via == "append_bond":
            for b in bonds:
                m.append_bond(b)
        elif via == "append_bonds":
            m.append_bonds(*bonds)
        else:
            form = rng.choice(["list", "tuple", "generator", "iterator"])
            self.ctx.count(f"op.extend_bonds.{form}")
            m.extend_bonds({"list": bonds, "tuple": tuple(bonds), "generator": (b for b in bonds),
                            "iterator": iter(bonds)}[form])

    def adopted(self, kind, new_atoms, bonds):
        """after a bond addition: the atoms that were there stay where they were, each new end is listed exactly once (any
        order among themselves); the model takes over that order, the rows / charges of the new atoms are free"""
        m, mod = self.mol, self.model
        atoms = list(m.atoms)
        n0 = len(mod.atoms)
        if len({id(a) for a in atoms}) != len(atoms):
            self.v(f"{kind}:atom-listed-twice", n_atoms=len(atoms), n_before=n0, n_new_ends=len(new_atoms))
            return False
        if [id(a) for a in atoms[:n0]] != [id(a) for a in mod.atoms]:
            self.v(f"{kind}:existing-atoms-changed")
            return False
        if sorted(id(a) for a in atoms[n0:]) != sorted(id(a) for a in new_atoms):
            self.v(f"{kind}:new-bond-ends-not-adopted-exactly-once", n_adopted=len(atoms) - n0, n_new_ends=len(new_atoms))
            return False
        for a in atoms[n0:]:
            mod.add(a, (0, 0, 0), 0.0)
            self.free.add(id(a))
        for b in bonds:
            mod.add_bond(b)
        return True

    # ---- operations
    def do(self, op, rng):
        import numpy as np
        from molli.chem import Atom, AtomType, Bond, Element

        m, mod, ctx = self.mol, self.model, self.ctx
        kind = op[0]
        self.ops.append(op if len(op) < 4 else op[:3])
        raised = None
        expect_raise = False
        ctx.count(f"op.{kind}")
        try:
            if kind == "add_atom":
                row, q = self.sentinel()
                a = Atom(rng.choice(["C", "N", "O", "H", "Cl", "Unknown"]), label=f"L{self.k}")
                if op[1] == "charge" and self.is_mol:
                    m.add_atom(a, row, q)
                    mod.add(a, row, q)
                elif op[1].startswith("explicit-none") and self.is_mol:
                    # "no charge" said explicitly (the documented default value handed through by a wrapper)
                    ctx.count("op.add_atom.explicit-none")
                    if op[1] == "explicit-none-pos":
                        m.add_atom(a, row, None)
                    else:
                        m.add_atom(a, coord=row, charge=None)
                    mod.add(a, row, 0.0)
                else:
                    ctx.count("op.add_atom.no-charge")
                    m.add_atom(a, row)
                    mod.add(a, row, 0.0)
            elif kind == "readd_atom":
                # an Atom object that was part of this molecule and was deleted is put back (undo of a deletion, moving
                # a group around): it is an atom like any other and gets its row and charge at the end
                a = op[1]
                if op[2] == "add_atom":
                    row, q = self.sentinel()
                    if self.is_mol and rng.random() < 0.5:
                        m.add_atom(a, row, q)
                        mod.add(a, row, q)
                    else:
                        m.add_atom(a, row)
                        mod.add(a, row, 0.0)
                else:
                    via = op[4] if len(op) > 4 else "append_bond"
                    bonds = [Bond(mod.resolve(op[3]), a)] if rng.random() < 0.5 else [Bond(a, mod.resolve(op[3]))]
                    if len(mod.atoms) > 1 and rng.random() < 0.4:
                        other = mod.atoms[(op[3] + 1) % len(mod.atoms)]
                        bonds.append(Bond(a, other) if rng.random() < 0.5 else Bond(other, a))
                    ctx.count(f"op.readd_atom.via-{via}")
                    self.give(bonds, via, rng)
                    if not self.adopted(kind, [a], bonds):
                        return
            elif kind == "add_atom_bad_row":
                # a row that is not three numbers is refused, and the refusal leaves nothing behind
                expect_raise = True
                a = Atom("C", label=f"B{self.k}")
                self.k += 1
                m.add_atom(a, op[1])
                return self.v("add_atom:malformed-coordinate-row-accepted", row=repr(op[1])[:40])
            elif kind == "adopt_owned_atom":
                # an Atom object that is (or was) part of ANOTHER molecule: whatever that does to the other molecule, this
                # one stays aligned, lists the atom once and never keeps a bond to a non-member
                donor, a, still_member = op[1], op[2], op[3]
                ctx.count("op.adopt_owned_atom." + ("member-of-another-molecule" if still_member else "deleted-from-another-molecule"))
                self._donors = getattr(self, "_donors", []) + [donor]
                if op[4] == "add_atom":
                    row, q = self.sentinel()
                    m.add_atom(a, row)
                    mod.add(a, row, 0.0)
                else:
                    via = op[6] if len(op) > 6 else "append_bond"
                    bonds = [Bond(mod.resolve(op[5]), a)] if rng.random() < 0.5 else [Bond(a, mod.resolve(op[5]))]
                    if len(mod.atoms) > 1 and rng.random() < 0.4:
                        other = mod.atoms[(op[5] + 1) % len(mod.atoms)]
                        bonds.append(Bond(a, other) if rng.random() < 0.5 else Bond(other, a))
                    ctx.count(f"op.adopt_owned_atom.via-{via}")
                    self.give(bonds, via, rng)
                    if not self.adopted(kind, [a], bonds):
                        return
            elif kind == "append_owned_bond":
                # a Bond object that was part of another molecule, re-pointed at two atoms of this one
                donor, b = op[1], op[2]
                self._donors = getattr(self, "_donors", []) + [donor]
                b.a1, b.a2 = mod.resolve(op[3]), mod.resolve(op[4])
                via = op[5] if len(op) > 5 else "append_bond"
                ctx.count(f"op.append_owned_bond.via-{via}")
                bonds = [b]
                if via != "append_bond" and rng.random() < 0.5:
                    # the donor's bond arrives together with a bond that brings a new atom
                    f = Atom("H", label=f"F{self.k}")
                    self.k += 1
                    bonds.insert(rng.randrange(2), Bond(f, b.a1))
                    self.give(bonds, via, rng)
                    if not self.adopted(kind, [f], bonds):
                        return
                else:
                    self.give(bonds, via, rng)
                    mod.add_bond(b)
            elif kind == "bulk_new":
                # a fragment given by its bonds: several ends are new to the molecule, a new atom may be shared by
                # several bonds of the call, as first and as second end
                shape, via, anchor = op[1], op[2], op[3]
                ctx.count(f"op.bulk_new.{shape}")
                ex = mod.resolve(anchor) if anchor is not None else None
                new = [Atom(rng.choice(["C", "O", "H", "N"]), label=f"F{self.k + i}") for i in range(4)]
                self.k += 4
                n1, n2, n3, n4 = new
                if shape == "both-ends-new":
                    bonds, used = [Bond(n1, n2)], [n1, n2]
                elif shape == "centre-as-first-end":
                    bonds, used = [Bond(n1, n2), Bond(n1, n3), Bond(n1, n4)], new
                elif shape == "centre-as-second-end":
                    bonds, used = [Bond(n2, n1), Bond(n3, n1)], [n1, n2, n3]
                elif shape == "chain":
                    bonds, used = [Bond(n1, n2), Bond(n2, n3), Bond(n3, n4)], new
                elif shape == "chain-reversed":
                    bonds, used = [Bond(n2, n1), Bond(n3, n2), Bond(n4, n3)], new
                else:   # "mixed": new atom second end first, then first end; an unrelated pair of new atoms in between
                    bonds, used = [Bond(n1, n2), Bond(n3, n4), Bond(n2, n3)], new
                if ex is not None:
                    # hooked to the molecule through one existing atom, at a random place of the call
                    link = Bond(ex, used[0]) if rng.random() < 0.5 else Bond(used[-1], ex)
                    bonds.insert(rng.randrange(len(bonds) + 1), link)
                    ctx.count("op.bulk_new.hooked-to-an-existing-atom")
                else:
                    ctx.count("op.bulk_new.free-fragment")
                if not mod.atoms:
                    ctx.count("op.bulk_new.on-empty-molecule")
                if any(any(b.a1 is u for u in used) and any(b.a2 is u for u in used) for b in bonds):
                    ctx.count("op.bulk_new.bond-with-both-ends-new")
                self.give(bonds, via, rng)
                if not self.adopted(kind, used, bonds):
                    return
            elif kind == "connect_like":
                # the bonds of this molecule are replaced by copies of the bonds of another object with the same atoms
                import gc
                import molli as ml
                mode, keep = op[1], op[2]
                ocls = {"same-class": type(m), "Structure": ml.Structure, "Molecule": ml.Molecule}[op[3]]
                ctx.count("op.connect_like." + ("has-bonds" if mod.bonds else "no-bonds"))
                ctx.count("op.connect_like." + ("source-kept" if keep else "source-dropped"))
                if mode == "copy-edited":
                    other = ocls(m)
                else:
                    other = ocls([a.element for a in mod.atoms])
                    for i in range(1, len(mod.atoms)):
                        if rng.random() < 0.7:
                            other.connect(rng.randrange(i), i)
                for _ in range(rng.randrange(3)):
                    if other.n_bonds:
                        other.del_bond(rng.choice(list(other.bonds)))
                for _ in range(rng.randrange(3)):
                    if other.n_atoms >= 2:
                        i, j = rng.sample(range(other.n_atoms), 2)
                        other.connect(i, j)
                oat = list(other.atoms)
                opos = {id(a): i for i, a in enumerate(oat)}
                want = sorted(tuple(sorted((opos[id(b.a1)], opos[id(b.a2)]))) for b in other.bonds)
                m.connect_like(other)
                pos = {id(a): i for i, a in enumerate(m.atoms)}
                nb = list(m.bonds)
                if any(id(b.a1) not in pos or id(b.a2) not in pos for b in nb):
                    return self.v("connect_like:bond-endpoint-not-in-molecule")
                got = sorted(tuple(sorted((pos[id(b.a1)], pos[id(b.a2)]))) for b in nb)
                if got != want:
                    return self.v("connect_like:bonds-join-other-positions-than-in-the-source", n_got=len(got), n_want=len(want))
                mod.bonds = [(b, b.a1, b.a2) for b in nb]
                self._hold.extend(nb)
                if keep:
                    self._hold.append(other)
                else:
                    del other, oat
                    gc.collect()
            elif kind == "add_member_atom":
                # an atom that is already part of the molecule is "added": refused, or at least never listed twice
                expect_raise = True
                row, _ = self.sentinel()
                m.add_atom(op[1], row)
                ctx.count("op.add_member_atom.accepted")
            elif kind == "new_atom":
                row, _ = self.sentinel()
                a = m.new_atom(rng.choice(["C", "N", "O", "S"]), coord=row, label=f"N{self.k}")
                mod.add(a, row, 0.0)
            elif kind == "del_atom":
                how, arg = op[1], op[2]
                ctx.count(f"op.del_atom.by-{how}")
                target = mod.resolve(arg)
                expect_raise = target is None
                m.del_atom(arg)
                if target is not None:
                    mod.delete(target)
                # a target that does not exist: raising is what the code does today; silently doing nothing would also
                # satisfy the statement, so only "nothing changed" is required (the inspection below compares with the model)
            elif kind == "connect":
                a, b = mod.resolve(op[1]), mod.resolve(op[2])
                expect_raise = a is None or b is None
                if expect_raise:
                    ctx.count("op.connect.stale-or-foreign-atom")
                bond = m.connect(op[1], op[2])
                if expect_raise:
                    return self.v("connect:bond-to-an-atom-that-is-not-in-the-molecule-accepted")
                mod.add_bond(bond)
                if (bond.a1 is not a or bond.a2 is not b) and (bond.a1 is not b or bond.a2 is not a):
                    return self.v("connect:bond-joins-other-atoms-than-requested")
            elif kind == "append_bond":
                a = mod.resolve(op[1])
                if op[2] == "foreign":
                    ctx.count("op.append_bond.foreign")
                    f = Atom(rng.choice(["H", "F", "C"]), label=f"F{self.k}")
                    self.k += 1
                    bond = Bond(a, f)
                    m.append_bond(bond)
                    mod.add(f, (0, 0, 0), 0.0)
                    self.free.add(id(f))
                    mod.add_bond(bond)
                else:
                    b = mod.resolve(op[2])
                    bond = Bond(a, b)
                    m.append_bond(bond)
                    mod.add_bond(bond)
            elif kind in ("append_bonds", "extend_bonds"):
                pairs = op[1]
                bonds = [Bond(mod.resolve(i), mod.resolve(j)) for i, j in pairs]
                if rng.random() < 0.4:
                    # one of the bonds brings an atom that is not yet part of the molecule
                    f = Atom(rng.choice(["H", "F"]), label=f"F{self.k}")
                    self.k += 1
                    bonds.append(Bond(mod.resolve(pairs[0][0]), f))
                    mod.add(f, (0, 0, 0), 0.0)
                    self.free.add(id(f))
                    ctx.count("op.extend_or_append_bonds.foreign")
                if kind == "append_bonds":
                    m.append_bonds(*bonds)
                else:
                    # the argument is documented as an Iterable: a list, a tuple, a generator or an iterator
                    form = rng.choice(["list", "tuple", "generator", "iterator"])
                    ctx.count(f"op.extend_bonds.{form}")
                    m.extend_bonds({"list": bonds, "tuple": tuple(bonds), "generator": (b for b in bonds),
                                    "iterator": iter(bonds)}[form])
                for b in bonds:
                    mod.add_bond(b)
            elif kind == "del_bond":
                b = op[1]
                twins = [x for x, p, q in mod.bonds if x is not b and {id(p), id(q)} == {id(b.a1), id(b.a2)}]
                m.del_bond(b)
                if twins:
                    # with several bonds on one atom pair, exactly one of them goes (which one is not prescribed)
                    ctx.count("op.del_bond.parallel")
                    left = {id(x) for x in m.bonds}
                    gone = [x for x in [b] + twins if id(x) not in left]
                    if len(gone) != 1:
                        return self.v("del_bond:parallel-bonds:not-exactly-one-bond-removed", removed=len(gone))
                    mod.del_bond(gone[0])
                else:
                    mod.del_bond(b)
            elif kind == "remove_substituent":
                a1, a2 = op[1], op[2]
                gone = mod.reach(a1, a2)
                i2 = mod.index(a2)
                c2 = mod.row[id(a2)]
                if len(op) > 3 and op[3] == "by-index":
                    ctx.count("op.remove_substituent.by-index")
                    m.remove_substituent(mod.index(a1), mod.index(a2), ap_label="AP")
                else:
                    m.remove_substituent(a1, a2, ap_label="AP")
                for g in gone:
                    mod.delete(g)
                new = [a for a in m.atoms if mod.index(a) < 0]
                if len(new) != 1:
                    return self.v("remove_substituent:not-exactly-one-attachment-point-added", n_new=len(new))
                ap = new[0]
                if ap.atype != AtomType.AttachmentPoint or ap.label != "AP":
                    return self.v("remove_substituent:new-atom-is-not-the-labelled-attachment-point")
                mod.add(ap, c2, 0.0)
                nb = [b for b in m.bonds if (b.a1 is ap or b.a2 is ap)]
                if len(nb) != 1 or (nb[0].a1 is not a1 and nb[0].a2 is not a1):
                    return self.v("remove_substituent:attachment-point-not-bonded-to-the-anchor", n=len(nb))
                mod.add_bond(nb[0])
            elif kind == "add_implicit_hydrogens":
                old_atoms = list(mod.atoms)
                old_bonds = len(mod.bonds)
                hyd_err = None
                try:
                    m.add_implicit_hydrogens()
                except Exception as e:  # noqa  (degenerate geometry is C16's subject; here: whatever was added stays aligned)
                    hyd_err = e
                    ctx.count("op.add_implicit_hydrogens.raised")
                atoms = list(m.atoms)
                if [id(a) for a in atoms[:len(old_atoms)]] != [id(a) for a in old_atoms]:
                    return self.v("add_implicit_hydrogens:existing-atoms-changed")
                newb = list(m.bonds)[old_bonds:]
                for a in atoms[len(old_atoms):]:
                    if a.element != Element.H:
                        return self.v("add_implicit_hydrogens:added-a-non-hydrogen")
                    mod.add(a, (0, 0, 0), 0.0)
                    self.free.add(id(a))
                for b in newb:
                    mod.add_bond(b)
        except Exception as e:  # noqa
            raised = e
        if raised is not None:
            ctx.count("op.raised")
            if not expect_raise and kind not in ("add_implicit_hydrogens",):
                self.v(f"{kind}:{op[1] if kind == 'del_atom' else ''}:valid-operation-raises:{type(raised).__name__}",
                       err=repr(raised)[:200])
                return
            # roll the model back to what the object shows (the failed op must not have changed anything that matters)
            self.free = {i for i in self.free if any(id(a) == i for a in self.mol.atoms)}
        if kind == "add_member_atom" and raised is None:
            # accepted: the only thing demanded is that the atom is still listed once and everything stays aligned
            a = op[1]
            if sum(1 for x in m.atoms if x is a) == 1:
                self.free.add(id(a))
            return self.inspect(kind, True)
        self.inspect(kind if kind != "del_atom" else f"del_atom:by-{op[1]}", raised is not None)


def pick_op(rng, d):
    from molli.chem import Element

    mod = d.model
    n = len(mod.atoms)
    r = rng.random()
    if rng.random() < 0.03:
        return ("add_atom_bad_row", rng.choice([[1.0, 2.0], [1.0, 2.0, 3.0, 4.0], [[1.0, 2.0, 3.0]], [], 5.0]))
    vias = ["append_bond", "append_bonds", "extend_bonds", "append_bonds", "extend_bonds"]
    if rng.random() < (0.06 if n else 0.5):
        shape = rng.choice(["both-ends-new", "centre-as-first-end", "centre-as-second-end", "chain", "chain-reversed", "mixed"])
        anchor = rng.randrange(n) if n and rng.random() < 0.6 else None
        return ("bulk_new", shape, rng.choice(vias), anchor)
    if n >= 1 and rng.random() < 0.03:
        return ("connect_like", rng.choice(["copy-edited", "copy-edited", "from-elements"]), rng.random() < 0.5,
                rng.choice(["same-class", "same-class", "Structure", "Molecule"]))
    if n >= 2 and rng.random() < 0.08:
        donor = make_donor(rng)
        if rng.random() < 0.4 and donor.bonds:
            b = rng.choice(list(donor.bonds))
            donor.del_bond(b)
            bonded = {frozenset((id(p), id(q))) for _, p, q in mod.bonds}
            for _ in range(6):
                i, j = rng.sample(range(n), 2)
                if frozenset((id(mod.atoms[i]), id(mod.atoms[j]))) not in bonded:
                    return ("append_owned_bond", donor, b, i, j, rng.choice(vias))
        a = rng.choice(list(donor.atoms))
        still = rng.random() < 0.5
        if not still:
            donor.del_atom(a)
        if rng.random() < 0.5:
            return ("adopt_owned_atom", donor, a, still, "add_atom")
        return ("adopt_owned_atom", donor, a, still, "bond", rng.randrange(n), rng.choice(vias))
    if n == 0 or r < 0.14:
        return ("add_atom", rng.choice(["charge", "none", "explicit-none-pos", "explicit-none-kw"]))
    if r < 0.20:
        gone = [a for a in mod._keep if mod.index(a) < 0]
        if gone and rng.random() < 0.5:
            a = rng.choice(gone)
            if n and rng.random() < 0.5:
                return ("readd_atom", a, "bond", rng.randrange(n), rng.choice(vias))
            return ("readd_atom", a, "add_atom")
        return ("new_atom",)
    if r < 0.48:
        how = rng.choice(["atom", "index", "label", "element", "index-bad", "label-bad", "atom-foreign"])
        if how == "atom":
            return ("del_atom", "atom", rng.choice(mod.atoms))
        if how == "index":
            return ("del_atom", "index", rng.randrange(n))
        if how == "label":
            labels = [a.label for a in mod.atoms if a.label]
            if labels:
                return ("del_atom", "label", rng.choice(labels))
            return ("del_atom", "index", rng.randrange(n))
        if how == "element":
            els = sorted({a.element for a in mod.atoms})
            # prefer elements whose atomic number is also a valid index of a DIFFERENT atom
            els2 = [e for e in els if int(e) < n] or els
            return ("del_atom", "element", rng.choice(els2))
        if how == "index-bad":
            return ("del_atom", "index", n + rng.randrange(3))
        if how == "label-bad":
            return ("del_atom", "label", "no-such-label")
        from molli.chem import Atom
        return ("del_atom", "atom", Atom("C"))
    if r < 0.60 and n >= 2:
        if mod.bonds and rng.random() < 0.06:
            # a second bond between an already bonded pair (a drawing with a doubled line, a ligand bond on top of a
            # covalent one): legal, and every member bond must keep reporting the molecule as its parent afterwards
            _, p, q = rng.choice(mod.bonds)
            return ("connect", p, q)
        if rng.random() < 0.15:
            # a stale handle (atom deleted earlier) or an atom of no molecule: must be refused, or at least never
            # leave a bond to a non-member behind
            from molli.chem import Atom
            gone = [a for a in mod._keep if mod.index(a) < 0]
            stale = rng.choice(gone) if gone and rng.random() < 0.7 else Atom("C", label="stranger")
            return ("connect", stale, rng.randrange(n)) if rng.random() < 0.5 else ("connect", rng.randrange(n), stale)
        bonded = {frozenset((id(p), id(q))) for _, p, q in mod.bonds}
        for _ in range(6):
            i, j = rng.sample(range(n), 2)
            if frozenset((id(mod.atoms[i]), id(mod.atoms[j]))) not in bonded:
                if rng.random() < 0.5:
                    return ("connect", i, j)
                return ("connect", mod.atoms[i], mod.atoms[j])
        return ("add_atom", "none")
    if r < 0.70 and n >= 1:
        if rng.random() < 0.5 or n < 2:
            return ("append_bond", rng.randrange(n), "foreign")
        bonded = {frozenset((id(p), id(q))) for _, p, q in mod.bonds}
        for _ in range(6):
            i, j = rng.sample(range(n), 2)
            if frozenset((id(mod.atoms[i]), id(mod.atoms[j]))) not in bonded:
                return ("append_bond", i, j)
        return ("append_bond", rng.randrange(n), "foreign")
    if r < 0.76 and n >= 4:
        bonded = {frozenset((id(p), id(q))) for _, p, q in mod.bonds}
        pairs = []
        for _ in range(8):
            i, j = rng.sample(range(n), 2)
            fs = frozenset((id(mod.atoms[i]), id(mod.atoms[j])))
            if fs not in bonded:
                bonded.add(fs)
                pairs.append((i, j))
            if len(pairs) == 2:
                break
        if pairs:
            return (rng.choice(["append_bonds", "extend_bonds"]), pairs)
    if r < 0.86 and mod.bonds:
        return ("del_bond", rng.choice(mod.bonds)[0])
    if r < 0.93 and mod.bonds:
        b, p, q = rng.choice(mod.bonds)
        form = "by-index" if rng.random() < 0.4 else "by-atom"
        return ("remove_substituent", p, q, form) if rng.random() < 0.5 else ("remove_substituent", q, p, form)
    if r < 0.97:
        return ("add_implicit_hydrogens",)
    return ("add_atom", "charge")


def make_donor(rng):
    """another, living molecule whose atoms / bonds are handed to the molecule under test"""
    import numpy as np
    import molli as ml

    k = rng.randrange(3, 7)
    d = ml.Molecule([ml.Atom(rng.choice(["C", "N", "O", "F"]), label=f"D{i}") for i in range(k)], name="donor",
                    coords=np.array([[float(i), 0.5 * i, -1.0] for i in range(k)]))
    for i in range(1, k):
        d.connect(i - 1, i)
    return d


m_src_hold = []
_cdxml_cache = {}
CDXML_ENTRIES = [("charges_mult_cdxml", k) for k in ("a1", "a2", "a3", "a5", "a6", "a8", "a11")] + \
                [("parser_demo_cdxml", k) for k in ("benzene", "naphthalene", "stereo", "isotopes", "toluene", "chiral_fragment",
                                                    "attachments", "taxadiene")]


def start_molecule(rng, cls_name, ctx):
    import pickle
    import numpy as np
    import molli as ml

    cls = getattr(ml, cls_name)
    how = rng.choice(["empty", "mol2", "mol2", "mol2", "xyz", "copy", "pickle", "library",
                      "elements", "copy_atoms", "n_atoms", "concatenate", "cdxml"])
    if how == "cdxml" and cls_name != "Molecule":
        how = "copy_atoms"      # a CDXML file yields Molecule objects only
    if ctx.tier == "thorough" and rng.random() < 0.02:
        how = "big"       # 744 / 3215 atoms: every inspection is quadratic in the atom count, so these are rare and short
    if how == "empty":
        m = cls()
    elif how == "n_atoms":
        # k placeholder atoms, then coordinates through the public setter
        k = rng.randrange(1, 9)
        m = cls(n_atoms=k)
        m.coords = np.array([[rng.uniform(-9, 9) for _ in range(3)] for _ in range(k)])
    elif how in ("elements", "copy_atoms", "concatenate"):
        src = cls.load_mol2(ml.files.ROOT / rng.choice(SEED_FILES))
        if how == "elements":
            # element given as symbol, Element or atomic number
            els = [rng.choice([a.element.symbol, a.element, int(a.element)]) for a in src.atoms]
            m = cls(els, coords=np.array(src.coords))
        elif how == "copy_atoms":
            m = cls(list(src.atoms), copy_atoms=True, coords=np.array(src.coords))
        else:
            src2 = cls.load_mol2(ml.files.ROOT / rng.choice(SEED_FILES[2:6]))
            m = cls.concatenate(src, src2) if rng.random() < 0.6 else cls(src | src2)
            if rng.random() < 0.5:
                del src2
        if how != "concatenate" and rng.random() < 0.6:
            m.connect_like(src)
            ctx.count("start.bonds-by-connect_like")
        if rng.random() < 0.5:
            del src         # the source object is dropped (weak parent links of anything taken from it die)
            import gc
            gc.collect()
        else:
            m_src_hold.append(src)
            del m_src_hold[:-8]
    elif how == "cdxml":
        fn, key = rng.choice(CDXML_ENTRIES)
        if fn not in _cdxml_cache:
            import warnings
            with warnings.catch_warnings():
                warnings.simplefilter("ignore")
                _cdxml_cache[fn] = ml.CDXMLFile(getattr(ml.files, fn))
        m = _cdxml_cache[fn][key]
    elif how == "xyz":
        m = cls.load_xyz(ml.files.dendrobine_xyz if rng.random() < 0.5 else ml.files.pentane_confs_xyz)
    elif how == "big":
        m = cls.load_mol2(ml.files.ROOT / rng.choice(BIG_FILES))
    else:
        m = cls.load_mol2(ml.files.ROOT / rng.choice(SEED_FILES))
        ctx.count("start.mol2")
        if how == "copy":
            q = getattr(m, "atomic_charges", None)
            m = cls(m)
            if q is not None and cls_name == "Molecule":
                m.atomic_charges = q
        elif how == "pickle":
            m = pickle.loads(pickle.dumps(m))
            ctx.count("start.unpickled")
        elif how == "library" and cls_name == "Molecule":
            # the object comes out of a molecule library (current or legacy format)
            from vmon.props.C01 import make_v1_file
            lp = ctx.tmp / f"start{rng.randrange(10**6)}.mlib"
            legacy = rng.random() < 0.3
            if legacy:
                make_v1_file(lp)
            lib = ml.MoleculeLibrary(lp, readonly=False, overwrite=not legacy)
            with lib.writing():
                lib["s"] = m
            with lib.reading():
                m = lib["s"]
            ctx.count("start.from-library")
    # distinct sentinel charges so that a mis-deleted charge is visible
    if cls_name == "Molecule" and m.n_atoms and float(np.abs(m.atomic_charges).sum()) == 0.0:
        m.atomic_charges = np.arange(1, m.n_atoms + 1) / 16.0
    ctx.count(f"start.{how}")
    return m, how


def run_random(spec, ctx):
    for j in range(spec["n"]):
        case = ("rand", spec["chunk"], j)
        if not ctx.want(case):
            continue
        rng = ctx.rng(*case)
        m, how = start_molecule(rng, spec["cls"], ctx)
        d = Driver(ctx, m, case, spec["cls"] == "Molecule", "start-cdxml" if how == "cdxml" else "start")
        L = rng.randrange(5, 41) if how != "big" else rng.randrange(3, 9)
        kinds = []
        for _ in range(L):
            if not d.ok:
                break
            op = pick_op(rng, d)
            kinds.append(op[0] + (":" + op[1] if op[0] == "del_atom" else ""))
            d.do(op, rng)
        # views are only inspected
        if d.ok and spec["cls"] == "Molecule" and m.n_atoms:
            check_views(ctx, m, case)
        # last operation of some histories: an atom that is already a member is added again
        if d.ok and d.model.atoms and rng.random() < 0.25:
            kinds.append("add_member_atom")
            d.do(("add_member_atom", rng.choice(d.model.atoms)), rng)
        sig = ",".join(kinds)
        di = next((i for i, k in enumerate(kinds) if k.startswith(("del_atom", "remove_substituent"))), None)
        nt = di is not None and any(k.startswith(("add_atom", "new_atom", "append_bond", "add_implicit")) for k in kinds[di + 1:])
        ctx.case(case, dkey=(spec["cls"], how, sig), nontrivial=nt,
                 sample={"cls": spec["cls"], "start": how, "ops": kinds[:12], "n_atoms_end": m.n_atoms})


def check_views(ctx, m, case):
    import molli as ml

    try:
        sub = m.substructure(list(range(0, m.n_atoms, 2)))
        if sub.coords.shape != (sub.n_atoms, 3):
            ctx.violation("view:substructure-coords-shape", case=case)
        ens = ml.ConformerEnsemble(m, n_conformers=2)
        for c in ens:
            if c.coords.shape != (c.n_atoms, 3) or c.atomic_charges.shape != (c.n_atoms,):
                ctx.violation("view:conformer-arrays-misaligned", case=case)
        ctx.count("views.inspected")
    except Exception as e:  # noqa
        ctx.violation(f"view:inspection-raises:{type(e).__name__}", case=case, err=repr(e)[:200])


# ------------------------------------------------------------------------------------------------

def exh_ops(d):
    """the 14-operation alphabet, instantiated against the current model state (None if not applicable)"""
    from molli.chem import Element

    mod = d.model
    n = len(mod.atoms)
    bonded = {frozenset((id(p), id(q))) for _, p, q in mod.bonds}

    def unbonded(i, j):
        return n > max(i, j) and i != j and frozenset((id(mod.atoms[i]), id(mod.atoms[j]))) not in bonded

    els = sorted({a.element for a in mod.atoms})
    lab = next((a.label for a in mod.atoms[1:] if a.label), None)
    return [
        ("add_atom", "charge"),
        ("add_atom", "none"),
        ("new_atom",),
        ("del_atom", "index", 0) if n else None,
        ("del_atom", "index", n - 1) if n else None,
        ("del_atom", "atom", mod.atoms[1]) if n > 1 else None,
        ("del_atom", "label", lab) if lab else None,
        ("del_atom", "element", els[-1]) if els else None,
        ("connect", 0, n - 1) if unbonded(0, n - 1) else None,
        ("del_bond", mod.bonds[0][0]) if mod.bonds else None,
        ("append_bond", 0, "foreign") if n else None,
        ("remove_substituent", mod.bonds[-1][1], mod.bonds[-1][2]) if mod.bonds else None,
        ("add_implicit_hydrogens",),
        ("del_atom", "index", n + 1),
    ]


def seed_molecule(cls_name):
    import numpy as np
    import molli as ml
    from molli.chem import Atom

    cls = getattr(ml, cls_name)
    # atomic numbers 6,7,8,1,6 with 5 atoms: Element arguments collide with valid indices (H == 1)
    atoms = [Atom("C", label="a0"), Atom("N", label="a1"), Atom("O", label="a2"), Atom("H", label="a3"), Atom("C", label="a4")]
    m = cls(atoms, name="seed", coords=np.array([[i, i + 0.5, -i] for i in range(5)], dtype=float))
    if cls_name == "Molecule":
        m.atomic_charges = np.array([0.5, -0.25, 0.125, 0.75, -0.5])
    m.connect(0, 1)
    m.connect(1, 2)
    m.connect(0, 3)
    return m


def run_exh(spec, ctx):
    L = spec["L"]

    def run(seq_idx):
        case = ("exh", spec["cls"], tuple(seq_idx))
        if not ctx.want(case):
            return True
        rng = ctx.rng(*case)
        d = Driver(ctx, seed_molecule(spec["cls"]), case, spec["cls"] == "Molecule")
        kinds = []
        for i in seq_idx:
            op = exh_ops(d)[i]
            if op is None:
                return False
            kinds.append(op[0] + (":" + op[1] if op[0] == "del_atom" else ""))
            d.do(op, rng)
            if not d.ok:
                break
        ctx.count("exh.sequences")
        di = next((i for i, k in enumerate(kinds) if k.startswith(("del_atom", "remove_substituent"))), None)
        nt = di is not None and any(k.startswith(("add_atom", "new_atom", "append_bond", "add_implicit")) for k in kinds[di + 1:])
        ctx.case(case, dkey=(spec["cls"], tuple(seq_idx)), nontrivial=nt,
                 sample={"cls": spec["cls"], "ops": kinds} if sum(seq_idx) % 97 == 5 else None)
        return True

    def rec(prefix):
        if not run(prefix):
            return
        if len(prefix) < L:
            for i in range(14):
                rec(prefix + [i])

    rec([spec["first"]])
