"""
C09 -- every public load/dump entry point agrees with the class-level codec.

Monitor shape: differential oracle.  Each cell of the matrix
   {load, loads, load_all, loads_all, dump, dumps} x {xyz, mol2, cdxml, pdb, qqq} x {path(str/Path), stream, str}
   x {molecule, ensemble, Molecule, Structure, ConformerEnsemble} x {name given, not given}
is executed on bundled and generated multi-molecule inputs and compared with the corresponding class methods.
"""
from __future__ import annotations

ID = "C09"
LEVEL = "exploration"
RULE = ("full matrix of ml.load / loads / load_all / loads_all / dump / dumps over formats {xyz, mol2, cdxml, pdb, qqq}, source / "
        "target kinds {Path, str path, open stream, text}, otype {not given,'molecule','ensemble',Molecule,Structure,ConformerEnsemble,"
        "a user subclass}, name {None,'Z'}, modes {default append, 'w'} on bundled files (dendrobine, pentane_confs, dummy, "
        "parser_demo.cdxml, charges_mult.cdxml) and seeded generated multi-molecule texts; file names with one dot, several dots "
        "(in a dotted directory, absolute and './relative'), an unrelated / no / another format's suffix; fmt given by keyword and "
        "by position; parser / writer name in mixed case; every call repeated after the caller edited (and shortened) the first "
        "result; every format name of the openbabel tables without a class-level codec as an error cell; the load half of the matrix again "
        "on damaged texts (cut / garbage after a complete first block, cut or garbled first block, empty, whitespace, zero-atom "
        "blocks) judged on 'same outcome as the class method'; zero-atom objects as dump objects; a user subclass of "
        "ConformerEnsemble as otype; cdxml keys the drawing does not have; mode='w'/'a' next to a stream target; dump path targets "
        "with the other native suffix / no suffix next to an explicit fmt; files compared byte for byte. non-trivial = not an "
        "error cell and the input has >=2 molecules / conformers; distinct by cell signature + input")
ASSUMPTIONS = [
    "an unsupported format must raise ValueError; loads / loads_all(...,'cdxml') may raise NotImplementedError (documented: file source only)",
    "a format is supported for reading iff Molecule has load_<fmt> (or it is cdxml), for writing iff Molecule has dumps_<fmt>",
    "cdxml: load without a key gives the first fragment of the document, load_all all fragments in document order "
    "(CDXMLFile.xfrags / _parse_fragment are used as the class-level codec when they exist; independent of them: load() equals "
    "load_all()[0] and every CDXMLFile[label] is among load_all())",
    "parser / writer names are matched case-insensitively (reader.py / writer.py: match parser.lower()); with parser='openbabel' "
    "only the refusal of a format openbabel does not list is judged (openbabel is not installed here)",
    "'ensemble' with load_all/loads_all is refused by design (ValueError)",
    "dump to a path with an unsupported format: only the ValueError is judged, not whether an empty file was created",
    "damaged input: the class method's outcome (an object / a list / an exception) is the reference; where both raise the exception "
    "types are not compared, except that an entry point must not turn another error into ValueError (the signal for an "
    "unsupported format); a damaged-input cell counts as non-trivial when the first block of the text is complete",
    "mode= of dump concerns file names only (documented): a stream is written at its position whatever the mode",
]
REQUIRED = {"source.multi-dot-name": 500, "call.positional-fmt": 200, "call.keyword-fmt": 250, "call.parser-name-mixed-case": 500,
            "call.default-otype": 20, "target.multi-dot-name": 150, "cell.loads-again-after-edit": 100, "cell.load_all-again-after-edit": 150,
            "cell.loads_all-again-after-edit": 80, "cdxml.load_all-elements-compared": 500, "cdxml.no-key-vs-first-of-load_all": 8,
            "cdxml.labelled-fragment-found-in-load_all": 100, "error.format-without-class-codec": 300,
            "error.openbabel-parser-unlisted-format": 60,
            "cell.load": 100, "cell.load-again-after-edit": 30, "cell.load-after-file-replaced": 9, "cell.loads": 60, "cell.load_all": 60, "cell.loads_all": 40, "cell.dump": 100, "cell.dumps": 20,
            "cell.error": 40, "dump.writer-option-forwarded": 10, "dump.positioned-stream": 20, "order.cdxml-after-other-entry-points": 1,
            "order.errors-after-other-entry-points": 1, "name-override.checked": 60, "dump.stream-left-open": 20, "dump.append-vs-truncate": 10,
            # second gap review: damaged / empty inputs, zero-atom objects, user ensemble type, absent cdxml key, mode= next to a stream,
            # other-native / no suffix next to an explicit fmt, bytes on disk
            "call.user-ensemble-otype": 120, "cdxml.absent-key": 90, "damaged.class-method-raises": 1500,
            "damaged.class-method-returns": 600, "dump.bytes-on-disk-compared": 150, "dump.stream-with-mode": 700,
            "dump.zero-atom-object": 3, "input.damaged-or-empty": 45, "input.tail-cut-in-last-block": 15, "input.empty-text": 1,
            "input.zero-atom-block": 2, "judge.both-raise": 10000, "target.no-suffix+fmt": 350, "target.other-native-suffix+fmt": 150}
CHUNK_TIMEOUT = 1800        # a guard against hangs only; nothing is decided on time
TECHNIQUE = "runtime monitoring: differential oracle, public entry points vs class-level codecs over the full call matrix"
LEVEL_TEXT = ("The call matrix is small and is executed completely on every run for each input; each cell's result is compared "
              "(deep snapshot / exact text) with the class method it must agree with.")
LEVEL_NOTE = "Trusted: the class-level codecs themselves (their own correctness is C07/C08), vmon/snap.py."


def plan(tier, seed):
    specs = [{"kind": "bundled", "file": f} for f in ("dendrobine", "pentane_confs", "dummy")]
    specs.append({"kind": "cdxml"})
    specs.append({"kind": "errors"})
    specs += [{"kind": "cdxml-load_all", "file": f} for f in ("parser_demo.cdxml", "charges_mult.cdxml")]
    specs.append({"kind": "format-table"})
    specs += [{"kind": "damaged", "file": f, "fmt": fmt} for f in ("pentane_confs", "dendrobine") for fmt in ("xyz", "mol2")]
    specs.append({"kind": "edge"})
    # thorough: the same 384 generated inputs as 128 small chunks (each input brings two damaged variants of itself along;
    # a chunk of 6 inputs met the watchdog at load average 500)
    n = 8 if tier == "quick" else 128
    for i in range(n):
        specs.append({"kind": "generated", "chunk": i, "n": 2 if tier == "quick" else 3})
    return specs


def run_chunk(spec, ctx):
    import molli as ml

    if spec["kind"] == "bundled":
        for fmt in ("mol2", "xyz"):
            p = ml.files.ROOT / f"{spec['file']}.{fmt}"
            if p.exists():
                matrix(ctx, ("bundled", spec["file"], fmt), p.read_text(), fmt)
    elif spec["kind"] == "generated":
        from vmon.props.C07 import mol2_safe_molecule
        for j in range(spec["n"]):
            rng = ctx.rng(spec["chunk"], j)
            k = rng.choice([1, 2, 3, 4])
            base = mol2_safe_molecule(rng, ml.Molecule)
            # conformers of one molecule (so that ensembles can be formed) with distinct coordinates
            mols = []
            for i in range(k):
                m = ml.Molecule(base)
                if m.n_atoms:
                    m.coords = m.coords + float(i)
                mols.append(m)
            for fmt in ("mol2", "xyz"):
                text = "".join(m.dumps_mol2() if fmt == "mol2" else m.dumps_xyz() for m in mols)
                if base.n_atoms == 0:
                    continue
                matrix(ctx, ("generated", spec["chunk"], j, fmt), text, fmt)
                # the same text damaged: what the class method does with it (first object, a list, an error) the entry point does too
                variants = damaged_variants(fmt, text, ctx.rng(spec["chunk"], j, fmt, "damage"))
                picks = [v for v in variants if v[0].startswith("tail-")][:1] + [rng.choice(variants)]
                for label, bad in picks:
                    matrix(ctx, ("generated-damaged", spec["chunk"], j, fmt, label), bad, fmt, damaged=label)
    elif spec["kind"] == "damaged":
        fmt = spec["fmt"]
        text = (ml.files.ROOT / f"{spec['file']}.{fmt}").read_text()
        for rnd in range(2):
            for label, bad in damaged_variants(fmt, text, ctx.rng("damaged", spec["file"], fmt, rnd)):
                matrix(ctx, ("bundled-damaged", spec["file"], fmt, label, rnd), bad, fmt, damaged=label)
    elif spec["kind"] == "edge":
        run_edge(ctx)
    elif spec["kind"] == "cdxml-load_all":
        run_cdxml_load_all(ctx, spec["file"])
    elif spec["kind"] == "format-table":
        run_format_table(ctx)
    elif spec["kind"] == "cdxml":
        run_cdxml(ctx)
        run_cdxml_load_all(ctx, "charges_mult.cdxml", light=True)
        run_replaced_files(ctx)
        # the entry points are independent of each other: what one of them was asked before (also a refused request)
        # does not change what another one answers -- the cdxml cells once more after every other entry point ran
        run_errors(ctx, again="before-second-cdxml-pass")
        p = ml.files.ROOT / "dendrobine.mol2"
        matrix(ctx, ("bundled-in-cdxml-chunk", "dendrobine", "mol2"), p.read_text(), "mol2")
        ctx.count("order.cdxml-after-other-entry-points")
        run_cdxml(ctx, again="second-pass")
    else:
        run_errors(ctx)
        p = ml.files.ROOT / "pentane_confs.xyz"
        if p.exists():
            matrix(ctx, ("bundled-in-error-chunk", "pentane_confs", "xyz"), p.read_text(), "xyz")
        ctx.count("order.errors-after-other-entry-points")
        run_errors(ctx, again="second-pass")


def damaged_variants(fmt, text, rng):
    """(class of damage, text) pairs made of a well-formed text: 'tail-*' keep the first block complete"""
    lines = text.splitlines(True)
    starts = [i for i, l in enumerate(lines) if l.startswith("@<TRIPOS>MOLECULE")] if fmt == "mol2" else []
    if fmt == "xyz":
        i = 0
        while i < len(lines):
            starts.append(i)
            i += int(lines[i].split()[0]) + 2
    if len(starts) < 2:
        starts = starts + [len(lines) + starts[0]]
        lines = lines + lines
    first_end, last = starts[1], starts[-1]
    out = [("tail-cut-in-last-block", "".join(lines[:rng.randint(last + 1, len(lines) - 1)])),
           ("tail-cut-in-second-block", "".join(lines[:rng.randint(first_end + 1, min(len(lines) - 1, first_end + 12))])),
           ("tail-garbage-after-last-block", "".join(lines) + rng.choice(["garbage\n", "12 not a block\n", "@<TRIPOS>WHAT\n?\n", "-1\n"])),
           ("first-block-cut", "".join(lines[:rng.randint(starts[0] + 1, first_end - 1)]))]
    k = rng.randint(starts[0], first_end - 1)
    out.append(("first-block-garbled-line", "".join(lines[:k] + [rng.choice(["???\n", "C 1.0 x 2.0\n", "1 1 999 1\n"])] + lines[k + 1:])))
    if fmt == "mol2" and "@<TRIPOS>BOND" in text:
        out.append(("first-block-bond-to-absent-atom", text[:text.index("@<TRIPOS>BOND")] + "@<TRIPOS>BOND\n1 1 999 1\n"))
    return out


def run_edge(ctx):
    """empty and zero-atom inputs, zero-atom objects"""
    import molli as ml

    nothing = ml.Molecule(name="nothing")
    for fmt in ("xyz", "mol2"):
        zero = nothing.dumps_xyz() if fmt == "xyz" else nothing.dumps_mol2()
        for label, text in (("empty-text", ""), ("whitespace-only-text", "\n\n"), ("whitespace-only-text", "  "),
                            ("zero-atom-block", zero), ("zero-atom-block", zero + zero)):
            matrix(ctx, ("edge", fmt, label, len(text)), text, fmt, damaged=label)
    sets = [[("Molecule", ml.Molecule(name="nothing")), ("Structure", ml.Structure()),
             ("ConformerEnsemble", ml.ConformerEnsemble(ml.Molecule(name="no atoms"), n_conformers=2))],
            [("Molecule", ml.Molecule()), ("Structure", ml.Structure(name="αβ")),
             ("ConformerEnsemble", ml.ConformerEnsemble(ml.Molecule(name="no conformers"), n_conformers=0))]]
    for k, objs in enumerate(sets):
        ctx.count("dump.zero-atom-object", len(objs))
        dump_cells(ctx, ("edge", "zero-atom-objects", k), objs, False)


def same(ctx, case, key, a, b, **kw):
    """deep-snapshot equality of two results (objects or lists of objects)"""
    from vmon.snap import snap, diff

    if isinstance(a, (list, tuple)) != isinstance(b, (list, tuple)):
        ctx.violation(f"{key}:{'list' if isinstance(b, (list, tuple)) else 'single-object'}-promised-but-"
                      f"{type(a).__name__}-returned", case=case, **kw)
        return False
    if isinstance(a, (list, tuple)):
        if len(a) != len(b):
            ctx.violation(f"{key}:list-length-differs", case=case, got=len(a), want=len(b), **kw)
            return False
        return all(same(ctx, case, key, x, y, **kw) for x, y in zip(a, b))
    if type(a) is not type(b):
        ctx.violation(f"{key}:type-differs", case=case, got=type(a).__name__, want=type(b).__name__, **kw)
        return False
    d = diff(snap(a), snap(b))
    if d:
        ctx.violation(f"{key}:differs-from-class-method:{d[0][0].split('[')[0].strip('.')}", case=case, diff=d[:3], **kw)
        return False
    return True


def attempt(fn):
    try:
        return fn(), None
    except Exception as e:  # noqa
        return None, e


def names_of(x):
    return [y.name for y in x] if isinstance(x, (list, tuple)) else [x.name]


DEFAULT = "<otype not given>"
# source kinds / call forms added by the gap review: they appear in the violation key (the older ones do not)
NAMED_FORMS = {"multi-dot-name", "multi-dot-name-str", "relative-str", "positional-fmt", "keyword-fmt", "parser-name-mixed-case"}
FORM_COUNTER = {"multi-dot-name": "source.multi-dot-name", "multi-dot-name-str": "source.multi-dot-name", "relative-str": "source.multi-dot-name",
                "positional-fmt": "call.positional-fmt", "keyword-fmt": "call.keyword-fmt",
                "parser-name-mixed-case": "call.parser-name-mixed-case"}


def form_key(key, form):
    return f"{key}:{form}" if form in NAMED_FORMS else key


def dotted_dir(ctx):
    """a directory whose own name has a dot, so that only the last suffix of the file NAME can say the format"""
    d = ctx.tmp / "run.1"
    d.mkdir(exist_ok=True)
    return d


def relative(path):
    import os
    return "./" + os.path.relpath(path)


def matrix(ctx, inp, text, fmt, damaged=None):
    """damaged: None for a well-formed input, else the class of damage ('tail-...': the first block is complete); then the
    class methods decide what is right -- return the first object, return a list, raise -- and the entry points do the same"""
    import io
    import molli as ml

    p = ctx.tmp / f"in-{abs(hash(inp)) % 10**8}.{fmt}"
    p.write_text(text)
    # the same content under names whose suffix says nothing, or something else: an explicit fmt decides
    podd, pnone, pwrong = ctx.tmp / "in-odd.dat", ctx.tmp / "in-nosuffix", ctx.tmp / f"in-wrong.{'xyz' if fmt == 'mol2' else 'mol2'}"
    # ... and under a name with several dots (lig.conf1.opt-2.xyz is an xyz file), absolute and relative
    pmd = dotted_dir(ctx) / f"lig.conf1.opt-2.{fmt}"
    for q in (podd, pnone, pwrong, pmd):
        q.write_text(text)
    prel = relative(pmd)
    if damaged is None:
        n_mols = text.count("@<TRIPOS>MOLECULE") if fmt == "mol2" else len(ml.Molecule.loads_all_xyz(text))
        nt = n_mols >= 2
    else:
        nt = damaged.startswith("tail-")
        ctx.count("input.damaged-or-empty")
        ctx.count(f"input.{damaged}")
    UserMolecule = type("UserMolecule", (ml.Molecule,), {})      # a user-defined output type is an output type like any other
    UserEnsemble = type("UserEnsemble", (ml.ConformerEnsemble,), {})
    otypes = [(DEFAULT, ml.Molecule), ("molecule", ml.Molecule), ("ensemble", ml.ConformerEnsemble), (ml.Molecule, ml.Molecule),
              (ml.Structure, ml.Structure), (ml.ConformerEnsemble, ml.ConformerEnsemble), (UserMolecule, UserMolecule),
              (UserEnsemble, UserEnsemble)]
    def attempt_cm(fn):
        r, e = attempt(fn)
        if damaged is not None:
            ctx.count("damaged.class-method-raises" if e is not None else "damaged.class-method-returns")
        return r, e

    for oarg, T in otypes:
        oname = "default-otype" if oarg is DEFAULT else oarg if isinstance(oarg, str) else oarg.__name__
        for name in (None, "Z"):
            sig = (oname, name)
            # otype / name are left out of the call altogether in the default cells
            okw = {} if oarg is DEFAULT else {"otype": oarg}
            if name is not None or oarg is not DEFAULT:
                okw["name"] = name
            if oarg is DEFAULT:
                ctx.count("call.default-otype")
            if T is UserEnsemble:
                ctx.count("call.user-ensemble-otype")
            # ---------------- load (Path, str path, explicit fmt by keyword and by position, names with several dots)
            want, werr = attempt_cm(lambda: getattr(T, f"load_{fmt}")(p, name=name))
            for src_kind, src, args, kw in (("Path", p, (), {}), ("str", str(p), (), {}), ("Path+fmt", p, (), {"fmt": fmt}),
                                            ("odd-suffix+fmt", podd, (), {"fmt": fmt}), ("no-suffix+fmt", pnone, (), {"fmt": fmt}),
                                            ("wrong-suffix+fmt", pwrong, (), {"fmt": fmt}),
                                            ("multi-dot-name", pmd, (), {}), ("multi-dot-name-str", str(pmd), (), {}),
                                            ("relative-str", prel, (), {}), ("positional-fmt", podd, (fmt,), {}),
                                            ("parser-name-mixed-case", p, (), {"parser": "Molli"})):
                case = inp + ("load", src_kind) + sig
                if not ctx.want(case):
                    continue
                ctx.count("cell.load")
                if src_kind in FORM_COUNTER:
                    ctx.count(FORM_COUNTER[src_kind])
                ctx.case(case, dkey=case, nontrivial=nt, sample={"call": "load", "fmt": fmt, "source": src_kind,
                                                                           "otype": oname, "name": name})
                got, gerr = attempt(lambda: ml.load(src, *args, **okw, **kw))
                judge(ctx, case, form_key(f"load:{fmt}:{oname}", src_kind), got, gerr, want, werr, name)
                if gerr is None and werr is None and src_kind in ("Path", "str"):
                    # loading again after the caller has edited the first result gives the file's content again
                    edit_result(got)
                    again, aerr = attempt(lambda: ml.load(src, *args, **okw, **kw))
                    ctx.count("cell.load-again-after-edit")
                    judge(ctx, case, f"load-again-after-editing-first-result:{fmt}:{oname}", again, aerr, want, werr, name)
            # ---------------- loads (fmt by position and by keyword)
            want, werr = attempt_cm(lambda: getattr(T, f"loads_{fmt}")(text, name=name))
            for form, args, kw in (("text", (fmt,), {}), ("keyword-fmt", (), {"fmt": fmt}),
                                   ("parser-name-mixed-case", (fmt,), {"parser": "MOLLI"})):
                case = inp + ("loads", form) + sig
                if not ctx.want(case):
                    continue
                ctx.count("cell.loads")
                if form in FORM_COUNTER:
                    ctx.count(FORM_COUNTER[form])
                ctx.case(case, dkey=case, nontrivial=nt, sample={"call": "loads", "fmt": fmt, "otype": oname, "name": name})
                got, gerr = attempt(lambda: ml.loads(text, *args, **okw, **kw))
                judge(ctx, case, form_key(f"loads:{fmt}:{oname}", form), got, gerr, want, werr, name)
                if gerr is None and werr is None and form == "text":
                    edit_result(got)
                    again, aerr = attempt(lambda: ml.loads(text, *args, **okw, **kw))
                    ctx.count("cell.loads-again-after-edit")
                    judge(ctx, case, f"loads-again-after-editing-first-result:{fmt}:{oname}", again, aerr, want, werr, name)
            # ---------------- load_all / loads_all
            if issubclass(T, ml.ConformerEnsemble):
                for fnname, call in (("load_all", lambda: ml.load_all(p, otype=oarg, name=name)),
                                     ("loads_all", lambda: ml.loads_all(text, fmt, otype=oarg, name=name))):
                    case = inp + (fnname, "ensemble-refused") + sig
                    if not ctx.want(case):
                        continue
                    ctx.count(f"cell.{fnname}")
                    ctx.count("cell.error")
                    ctx.case(case, dkey=case, nontrivial=False)
                    got, gerr = attempt(call)
                    if gerr is None and not isinstance(got, list):
                        ctx.violation(f"{fnname}:{fmt}:{oname}:list-promised-but-{type(got).__name__}-returned", case=case)
                    elif gerr is not None and not isinstance(gerr, ValueError):
                        ctx.violation(f"{fnname}:{fmt}:{oname}:raises-{type(gerr).__name__}-instead-of-ValueError", case=case,
                                      err=repr(gerr)[:200])
            else:
                want, werr = attempt_cm(lambda: getattr(T, f"load_all_{fmt}")(p, name=name))
                for src_kind, src, args, kw in (("Path", p, (), {}), ("str", str(p), (), {}), ("odd-suffix+fmt", podd, (), {"fmt": fmt}),
                                                ("wrong-suffix+fmt", pwrong, (), {"fmt": fmt}),
                                                ("multi-dot-name", pmd, (), {}), ("relative-str", prel, (), {}),
                                                ("positional-fmt", podd, (fmt,), {}),
                                                ("parser-name-mixed-case", p, (), {"parser": "MoLLi"})):
                    case = inp + ("load_all", src_kind) + sig
                    if not ctx.want(case):
                        continue
                    ctx.count("cell.load_all")
                    if src_kind in FORM_COUNTER:
                        ctx.count(FORM_COUNTER[src_kind])
                    ctx.case(case, dkey=case, nontrivial=nt, sample={"call": "load_all", "fmt": fmt, "otype": oname, "name": name})
                    got, gerr = attempt(lambda: ml.load_all(src, *args, **okw, **kw))
                    judge(ctx, case, form_key(f"load_all:{fmt}:{oname}", src_kind), got, gerr, want, werr, name, want_list=True)
                    if gerr is None and werr is None and src_kind in ("Path", "str"):
                        # ... the caller may also have shortened the list it was given
                        edit_result(got)
                        again, aerr = attempt(lambda: ml.load_all(src, *args, **okw, **kw))
                        ctx.count("cell.load_all-again-after-edit")
                        judge(ctx, case, f"load_all-again-after-editing-first-result:{fmt}:{oname}", again, aerr, want, werr, name,
                              want_list=True)
                want, werr = attempt_cm(lambda: getattr(T, f"loads_all_{fmt}")(text, name=name))
                for form, args, kw in (("text", (fmt,), {}), ("keyword-fmt", (), {"fmt": fmt}),
                                       ("parser-name-mixed-case", (fmt,), {"parser": "Molli"})):
                    case = inp + ("loads_all", form) + sig
                    if not ctx.want(case):
                        continue
                    ctx.count("cell.loads_all")
                    if form in FORM_COUNTER:
                        ctx.count(FORM_COUNTER[form])
                    ctx.case(case, dkey=case, nontrivial=nt, sample={"call": "loads_all", "fmt": fmt, "otype": oname, "name": name})
                    got, gerr = attempt(lambda: ml.loads_all(text, *args, **okw, **kw))
                    judge(ctx, case, form_key(f"loads_all:{fmt}:{oname}", form), got, gerr, want, werr, name, want_list=True)
                    if gerr is None and werr is None and form == "text":
                        edit_result(got)
                        again, aerr = attempt(lambda: ml.loads_all(text, *args, **okw, **kw))
                        ctx.count("cell.loads_all-again-after-edit")
                        judge(ctx, case, f"loads_all-again-after-editing-first-result:{fmt}:{oname}", again, aerr, want, werr, name,
                              want_list=True)
    # ---------------- dump / dumps
    if damaged is not None:
        return
    objs = [("Molecule", ml.Molecule.loads_all_mol2(text)[0] if fmt == "mol2" else ml.Molecule.loads_all_xyz(text)[0]),
            ("Structure", ml.Structure.loads_all_mol2(text)[0] if fmt == "mol2" else ml.Structure.loads_all_xyz(text)[0]),
            ("ConformerEnsemble", ml.ConformerEnsemble.loads_mol2(text) if fmt == "mol2" else ml.ConformerEnsemble.loads_xyz(text))]
    dump_cells(ctx, inp, objs, nt)


def written_by_class_method(ctx, obj, ofmt, times=1):
    """the bytes a file holds after the class method wrote the object into it (opened the way dump opens a file name)"""
    twin = ctx.tmp / "class-method-twin.out"
    with open(twin, "w") as fh:
        for _ in range(times):
            getattr(obj, f"dump_{ofmt}")(fh)
    return twin.read_bytes()


def dump_cells(ctx, inp, objs, nt):
    """every dump / dumps cell for the objects given, compared with obj.dump_<fmt> / obj.dumps_<fmt>"""
    import io
    import molli as ml

    for oname, obj in objs:
        for ofmt in ("mol2", "xyz"):
            expected, xerr = attempt(lambda: getattr(obj, f"dumps_{ofmt}")())
            if xerr is not None:
                # the class method cannot write this object: the entry points cannot either
                case = inp + ("dumps", oname, ofmt)
                if ctx.want(case):
                    ctx.count("cell.dumps")
                    ctx.case(case, dkey=case, nontrivial=False)
                    got, gerr = attempt(lambda: ml.dumps(obj, ofmt))
                    if gerr is None:
                        ctx.violation(f"dumps:{ofmt}:{oname}:returns-where-class-method-raises", case=case, err=repr(xerr)[:150])
                continue
            expected_b = written_by_class_method(ctx, obj, ofmt)
            expected_b2 = written_by_class_method(ctx, obj, ofmt, times=2)
            case = inp + ("dumps", oname, ofmt)
            if ctx.want(case):
                ctx.count("cell.dumps")
                ctx.case(case, dkey=case, nontrivial=nt, sample={"call": "dumps", "fmt": ofmt, "obj": oname})
                got, gerr = attempt(lambda: ml.dumps(obj, ofmt))
                if gerr is not None:
                    ctx.violation(f"dumps:{ofmt}:{oname}:raises:{type(gerr).__name__}", case=case, err=repr(gerr)[:200])
                elif got != expected:
                    ctx.violation(f"dumps:{ofmt}:{oname}:text-differs-from-class-method", case=case)
            # writer options are passed on to the class method whatever the target kind
            case = inp + ("dump", "writer-options", oname, ofmt)
            if ofmt == "xyz" and oname != "ConformerEnsemble" and ctx.want(case):
                ctx.count("cell.dump")
                ctx.count("dump.writer-option-forwarded")
                ctx.case(case, dkey=case, nontrivial=nt, sample={"call": "dump(..., write_header=False)", "obj": oname})
                exp_nh = obj.dumps_xyz(write_header=False)
                got, gerr = attempt(lambda: ml.dumps(obj, "xyz", write_header=False))
                if gerr is not None or got != exp_nh:
                    ctx.violation("dumps:xyz:writer-option-not-forwarded", case=case, err=repr(gerr)[:150])
                buf = io.StringIO()
                _, gerr = attempt(lambda: ml.dump(obj, buf, "xyz", write_header=False))
                if gerr is not None or buf.getvalue() != exp_nh:
                    ctx.violation("dump:stream:xyz:writer-option-not-forwarded", case=case, err=repr(gerr)[:150])
                for tkind in ("Path", "str", "Path-suffix-only"):
                    out = ctx.tmp / f"opt-{oname}-{tkind}.xyz"
                    if out.exists():
                        out.unlink()
                    tgt = str(out) if tkind == "str" else out
                    if tkind == "Path-suffix-only":
                        _, gerr = attempt(lambda: ml.dump(obj, tgt, write_header=False))
                    else:
                        _, gerr = attempt(lambda: ml.dump(obj, tgt, "xyz", write_header=False, mode="w"))
                    if gerr is not None or out.read_text() != exp_nh:
                        ctx.violation("dump:path:xyz:writer-option-not-forwarded", case=case, target=tkind, err=repr(gerr)[:150])
            # a stream is written at the position the caller left it at, exactly as the class method does (a buffer that is
            # rewound and reused, a file in which room was reserved): twin streams with the same history must end up equal
            case = inp + ("dump", "positioned-stream", oname, ofmt)
            if ctx.want(case):
                ctx.count("cell.dump")
                ctx.count("dump.positioned-stream")
                ctx.case(case, dkey=case, nontrivial=nt)
                # mode says how a file NAME is opened; a stream given by the caller is written where it stands whatever the mode
                for kind in ("StringIO", "file"):
                    for pos, who_s in ((0, ("entry-point", "class-method")), (7, ("entry-point", "class-method")),
                                       (41, ("mode-w", "class-method")), (0, ("mode-w", "class-method")), (7, ("mode-a", "class-method")),
                                       (41, ("mode-a", "class-method"))):
                        twins = []
                        for who in who_s:
                            st = io.StringIO() if kind == "StringIO" else open(ctx.tmp / f"pos-{who}-{oname}.{ofmt}", "w+")
                            st.write("#" * 40 + "\n")
                            st.seek(pos)
                            if who.startswith("mode-"):
                                ctx.count("dump.stream-with-mode")
                            _, e = attempt((lambda: ml.dump(obj, st, ofmt)) if who == "entry-point"
                                           else (lambda: ml.dump(obj, st, ofmt, mode=who[-1])) if who.startswith("mode-")
                                           else (lambda: getattr(obj, f"dump_{ofmt}")(st)))
                            where = None if e is not None or st.closed else st.tell()
                            if not st.closed:
                                st.seek(0)
                                twins.append((repr(e)[:80] if e else None, where, st.read()))
                                st.close()
                            else:
                                twins.append(("closed", None, None))
                        if twins[0] != twins[1]:
                            ctx.violation(f"dump:stream:{ofmt}:{who_s[0] + ':' if who_s[0] != 'entry-point' else ''}"
                                          "not-written-at-the-streams-position-like-the-class-method", case=case,
                                          stream=kind, position=pos, entry_point=[twins[0][0], twins[0][1]],
                                          class_method=[twins[1][0], twins[1][1]])
            # stream targets
            case = inp + ("dump", "stream", oname, ofmt)
            if ctx.want(case):
                ctx.count("cell.dump")
                ctx.case(case, dkey=case, nontrivial=nt, sample={"call": "dump", "target": "stream", "fmt": ofmt, "obj": oname})
                buf = io.StringIO()
                buf.write("PREFIX\n")
                _, gerr = attempt(lambda: ml.dump(obj, buf, ofmt))
                if gerr is not None:
                    ctx.violation(f"dump:stream:{ofmt}:raises:{type(gerr).__name__}", case=case, err=repr(gerr)[:200],
                                  text_was_written=(not buf.closed and buf.getvalue() == "PREFIX\n" + expected))
                if buf.closed:
                    ctx.violation(f"dump:stream:{ofmt}:closes-the-callers-stream", case=case)
                else:
                    ctx.count("dump.stream-left-open")
                    if buf.getvalue() != "PREFIX\n" + expected:
                        ctx.violation(f"dump:stream:{ofmt}:text-differs-from-class-method", case=case)
                fp = ctx.tmp / f"real-{oname}.{ofmt}"
                with open(fp, "w") as fh:
                    _, gerr = attempt(lambda: ml.dump(obj, fh, ofmt))
                    if fh.closed:
                        ctx.violation(f"dump:file-stream:{ofmt}:closes-the-callers-stream", case=case)
                    elif gerr is not None:
                        ctx.violation(f"dump:file-stream:{ofmt}:raises:{type(gerr).__name__}", case=case)
                if fp.read_text() != expected and gerr is None:
                    ctx.violation(f"dump:file-stream:{ofmt}:text-differs-from-class-method", case=case)
            # other writable text streams: a NamedTemporaryFile wrapper, a codecs stream, a user object with write()
            case = inp + ("dump", "other-streams", oname, ofmt)
            if ctx.want(case):
                import codecs
                import tempfile

                class Sink:
                    def __init__(self):
                        self.parts = []

                    def write(self, t):
                        self.parts.append(t)
                        return len(t)

                ctx.count("cell.dump")
                ctx.case(case, dkey=case, nontrivial=nt)
                sink = Sink()
                _, e = attempt(lambda: ml.dump(obj, sink, ofmt))
                if e is not None or "".join(sink.parts) != expected:
                    ctx.violation(f"dump:user-stream:{ofmt}:raises-or-text-differs", case=case, err=repr(e)[:150])
                with tempfile.NamedTemporaryFile("w+", dir=ctx.tmp, suffix=".tmp") as tf:
                    _, e = attempt(lambda: ml.dump(obj, tf, ofmt))
                    ok = e is None and not tf.closed
                    if ok:
                        tf.seek(0)
                        ok = tf.read() == expected
                    if not ok:
                        ctx.violation(f"dump:namedtemporaryfile:{ofmt}:raises-or-text-differs", case=case, err=repr(e)[:150])
                cp = ctx.tmp / f"codecs-{oname}.{ofmt}"
                with codecs.open(cp, "w", "utf-8") as cf_:
                    _, e = attempt(lambda: ml.dump(obj, cf_, ofmt))
                    closed = cf_.closed
                if e is not None or closed or cp.read_text(encoding="utf-8") != expected:
                    ctx.violation(f"dump:codecs-stream:{ofmt}:raises-or-text-differs", case=case, err=repr(e)[:150])
            # path targets: append by default, truncate with mode='w', fmt from suffix or explicit
            for tkind in ("Path", "str"):
                case = inp + ("dump", tkind, oname, ofmt)
                if not ctx.want(case):
                    continue
                ctx.count("cell.dump")
                ctx.case(case, dkey=case, nontrivial=nt, sample={"call": "dump", "target": tkind, "fmt": ofmt, "obj": oname})
                out = ctx.tmp / f"out-{oname}-{tkind}.{ofmt}"
                if out.exists():
                    out.unlink()
                tgt = out if tkind == "Path" else str(out)
                _, e1 = attempt(lambda: ml.dump(obj, tgt))
                _, e2 = attempt(lambda: ml.dump(obj, tgt, ofmt))
                if e1 is not None or e2 is not None:
                    ctx.violation(f"dump:path:{ofmt}:raises:{type(e1 or e2).__name__}", case=case, err=repr(e1 or e2)[:200])
                    continue
                ctx.count("dump.append-vs-truncate")
                if out.read_text() != expected + expected:
                    ctx.violation(f"dump:path:{ofmt}:default-mode-does-not-append", case=case)
                elif out.read_bytes() != expected_b2:
                    # the file on disk is compared byte for byte (no newline translation) with the one the class method writes
                    ctx.violation(f"dump:path:{ofmt}:bytes-on-disk-differ-from-class-method", case=case, mode="default")
                _, e3 = attempt(lambda: ml.dump(obj, tgt, mode="w"))
                if e3 is not None:
                    ctx.violation(f"dump:path:{ofmt}:mode-w-raises:{type(e3).__name__}", case=case)
                elif out.read_text() != expected:
                    ctx.violation(f"dump:path:{ofmt}:mode-w-does-not-truncate", case=case)
                elif out.read_bytes() != expected_b:
                    ctx.violation(f"dump:path:{ofmt}:bytes-on-disk-differ-from-class-method", case=case, mode="w")
                else:
                    ctx.count("dump.bytes-on-disk-compared")
                # extension other than the format, explicit fmt wins
                odd = ctx.tmp / f"odd-{oname}.txt"
                if odd.exists():
                    odd.unlink()
                _, e4 = attempt(lambda: ml.dump(obj, odd, ofmt))
                if e4 is not None or odd.read_text() != expected:
                    ctx.violation(f"dump:path:{ofmt}:explicit-fmt-with-other-suffix-fails", case=case, err=repr(e4)[:200])
                # ... also when the suffix is the one of the other native format, and when there is no suffix at all
                # (in a directory whose own name has a dot, too): default mode on a fresh file, then mode='w' over it
                other = "xyz" if ofmt == "mol2" else "mol2"
                for tform, q in (("other-native-suffix+fmt", ctx.tmp / f"geom-{oname}.{other}"),
                                 ("no-suffix+fmt", ctx.tmp / f"coordinates-{oname}"),
                                 ("no-suffix+fmt", dotted_dir(ctx) / f"POSCAR_like-{oname}")):
                    if q.exists():
                        q.unlink()
                    qt = q if tkind == "Path" else str(q)
                    ctx.count(f"target.{tform}")
                    for how, call, exp_b in (("default-mode", lambda: ml.dump(obj, qt, ofmt), expected_b),
                                             ("keyword-fmt-default-mode", lambda: ml.dump(obj, qt, fmt=ofmt), expected_b2),
                                             ("mode-w", lambda: ml.dump(obj, qt, ofmt, mode="w"), expected_b)):
                        _, e5 = attempt(call)
                        if e5 is not None:
                            ctx.violation(f"dump:path:{ofmt}:{tform}:raises:{type(e5).__name__}", case=case, call=how, err=repr(e5)[:200])
                            break
                        if not q.exists() or q.read_bytes() != exp_b:
                            ctx.violation(f"dump:path:{ofmt}:{tform}:file-differs-from-class-method", case=case, call=how)
                            break
            # path targets whose name has several dots (out.v2.xyz is an xyz file): Path, str, './relative', format from the suffix
            case = inp + ("dump", "multi-dot-target", oname, ofmt)
            if ctx.want(case):
                ctx.count("cell.dump")
                ctx.case(case, dkey=case, nontrivial=nt, sample={"call": "dump", "target": "name with several dots", "fmt": ofmt,
                                                                           "obj": oname})
                for tkind, fname in (("Path", f"out.v2.{ofmt}"), ("str", f"{oname}.run-1.opt.{ofmt}"), ("relative-str", f"rel.a.b.{ofmt}")):
                    out = dotted_dir(ctx) / fname
                    if out.exists():
                        out.unlink()
                    tgt = out if tkind == "Path" else str(out) if tkind == "str" else relative(out)
                    ctx.count("target.multi-dot-name")
                    r, e = attempt(lambda: ml.dump(obj, tgt))
                    if e is not None:
                        ctx.violation(f"dump:path:{ofmt}:multi-dot-name:raises:{type(e).__name__}", case=case, target=tkind, err=repr(e)[:200])
                    elif out.read_text() != expected or out.read_bytes() != expected_b:
                        ctx.violation(f"dump:path:{ofmt}:multi-dot-name:text-differs-from-class-method", case=case, target=tkind)
            # the other call forms: fmt by keyword, writer name in mixed case (matched case-insensitively)
            case = inp + ("dump", "call-forms", oname, ofmt)
            if ctx.want(case):
                ctx.count("cell.dump")
                ctx.count("cell.dumps")
                ctx.case(case, dkey=case, nontrivial=nt, sample={"call": "dump / dumps, fmt= keyword, writer='Molli'", "fmt": ofmt,
                                                                           "obj": oname})
                for form, args, kw in (("keyword-fmt", (), {"fmt": ofmt}), ("writer-name-mixed-case", (ofmt,), {"writer": "Molli"}),
                                       ("writer-name-mixed-case", (), {"fmt": ofmt, "writer": "MOLLI"})):
                    ctx.count(FORM_COUNTER.get(form, "call.parser-name-mixed-case"))
                    got, e = attempt(lambda: ml.dumps(obj, *args, **kw))
                    if e is not None:
                        ctx.violation(f"dumps:{ofmt}:{oname}:{form}:raises:{type(e).__name__}", case=case, err=repr(e)[:200])
                    elif got != expected:
                        ctx.violation(f"dumps:{ofmt}:{oname}:{form}:text-differs-from-class-method", case=case,
                                      returned=type(got).__name__)
                    buf = io.StringIO()
                    _, e = attempt(lambda: ml.dump(obj, buf, *args, **kw))
                    if e is not None:
                        ctx.violation(f"dump:stream:{ofmt}:{form}:raises:{type(e).__name__}", case=case, err=repr(e)[:200])
                    elif buf.closed or buf.getvalue() != expected:
                        ctx.violation(f"dump:stream:{ofmt}:{form}:text-differs-from-class-method", case=case)
                    out = ctx.tmp / f"form-{oname}.txt"
                    _, e = attempt(lambda: ml.dump(obj, out, *args, mode="w", **kw))
                    if e is not None:
                        ctx.violation(f"dump:path:{ofmt}:{form}:raises:{type(e).__name__}", case=case, err=repr(e)[:200])
                    elif out.read_text() != expected or out.read_bytes() != expected_b:
                        ctx.violation(f"dump:path:{ofmt}:{form}:text-differs-from-class-method", case=case)


def edit_result(x):
    """what a caller may do with a result that is his: rename, relabel, move atoms; drop an element of a list"""
    try:
        for y in (x if isinstance(x, (list, tuple)) else [x]):
            y.name = "edited-by-caller"
            if y.n_atoms:
                y.atoms[0].label = "EDITED"
                y.coords[...] = 4321.0
    except Exception:  # noqa
        pass
    if isinstance(x, list) and x:
        x.pop()


def judge(ctx, case, key, got, gerr, want, werr, name, want_list=False):
    if werr is not None and gerr is not None:
        # both refuse: agreement. The kind of error is not compared, except that ValueError is what the entry points answer to an
        # unsupported format: input of a supported format that the class method cannot parse is not reported as that
        ctx.count("judge.both-raise")
        if isinstance(gerr, ValueError) and not isinstance(werr, ValueError):
            ctx.violation(f"{key}:raises-ValueError-where-class-method-raises-another-kind-of-error", case=case, err=repr(gerr)[:200],
                          class_method=repr(werr)[:200])
        return
    if werr is not None:
        # the class method refuses the input but the entry point returned something
        ctx.violation(f"{key}:returns-where-class-method-raises", case=case, class_method=repr(werr)[:200],
                      returned=type(got).__name__, length=len(got) if isinstance(got, list) else None)
        return
    if gerr is not None:
        ctx.violation(f"{key}:raises:{type(gerr).__name__}", case=case, err=repr(gerr)[:200])
        return
    ctx.count("judge.both-return")
    if want_list and not isinstance(got, list):
        ctx.violation(f"{key}:list-promised-but-{type(got).__name__}-returned", case=case)
        return
    same(ctx, case, key, got, want)
    if name is not None:
        ctx.count("name-override.checked")
        if any(n != name for n in names_of(got)):
            ctx.violation(f"{key}:name-override-ignored", case=case, names=names_of(got)[:3], want=name)


def run_replaced_files(ctx):
    """a file is replaced by another one under the same path with its modification time preserved (cp -p, rsync -t):
    load / load_all must return what the file holds now"""
    import os
    import shutil
    import molli as ml
    from vmon.snap import snap, diff

    triples = [("cdxml", "parser_demo.cdxml", "charges_mult.cdxml"), ("mol2", "dendrobine.mol2", "dmf.mol2"),
               ("xyz", "dendrobine.xyz", "pentane_confs.xyz")]
    for fmt, fa, fb in triples:
        p = ctx.tmp / f"replaced.{fmt}"
        stamp = 1_600_000_000
        for which, src in (("first", fa), ("second", fb), ("first-again", fa)):
            shutil.copyfile(ml.files.ROOT / src, p)
            os.utime(p, (stamp, stamp))
            case = ("replaced", fmt, which)
            if not ctx.want(case):
                continue
            ctx.count("cell.load-after-file-replaced")
            ctx.case(case, dkey=case, nontrivial=True, sample={"call": "load/load_all after file replaced", "fmt": fmt, "content": src})
            if fmt == "cdxml":
                want_all = {k: snap(ml.CDXMLFile(p)[k]) for k in sorted(ml.CDXMLFile(p).keys())}
                got_all, err = attempt(lambda: ml.load_all(p))
                if err is not None:
                    ctx.violation(f"load_all:{fmt}:raises-after-file-replaced:{type(err).__name__}", case=case)
                    continue
                if len(got_all) != len(want_all):
                    ctx.violation(f"load_all:{fmt}:stale-content-after-file-replaced", case=case, got=len(got_all), want=len(want_all))
                key = sorted(want_all)[0]
                got, err = attempt(lambda: ml.load(p, key=key))
                if err is not None:
                    ctx.violation(f"load:{fmt}:raises-after-file-replaced:{type(err).__name__}", case=case, key=key)
                elif diff({k: v for k, v in snap(got).items() if k != "name"}, {k: v for k, v in want_all[key].items() if k != "name"},
                          rtol=1e-9, atol=1e-9):
                    ctx.violation(f"load:{fmt}:stale-content-after-file-replaced", case=case, key=key)
            else:
                want = getattr(ml.Molecule, f"load_all_{fmt}")(p)
                got, err = attempt(lambda: ml.load_all(p))
                if err is not None or not same(ctx, case, f"load_all-after-file-replaced:{fmt}", got, want):
                    if err is not None:
                        ctx.violation(f"load_all:{fmt}:raises-after-file-replaced:{type(err).__name__}", case=case)
                got1, err = attempt(lambda: ml.load(p))
                if err is None:
                    same(ctx, case, f"load-after-file-replaced:{fmt}", got1, want[0])


def fragment_oracle(cf):
    """(fragments in document order, parse function) of a CDXMLFile, or (None, None) when the class has no such members"""
    xf, pf = getattr(cf, "xfrags", None), getattr(cf, "_parse_fragment", None)
    if isinstance(xf, list) and xf and callable(pf):
        return xf, pf
    return None, None


def run_cdxml(ctx, again=None):
    import shutil
    import molli as ml
    from vmon.snap import snap, diff

    p = ml.files.ROOT / "parser_demo.cdxml"
    cf = ml.CDXMLFile(p)
    keys = sorted(cf.keys())
    xf, pf = fragment_oracle(cf)
    # the same drawing under a name with several dots and under a name whose suffix says nothing
    pmd, podd = dotted_dir(ctx) / "scheme.v2.final.cdxml", ctx.tmp / "scheme.dat"
    for q in (pmd, podd):
        shutil.copyfile(p, q)
    UserMolecule = type("UserMolecule", (ml.Molecule,), {})
    UserEnsemble = type("UserEnsemble", (ml.ConformerEnsemble,), {})
    for oarg, T in ((DEFAULT, ml.Molecule), ("molecule", ml.Molecule), (ml.Molecule, ml.Molecule), (ml.Structure, ml.Structure),
                    ("ensemble", ml.ConformerEnsemble), (ml.ConformerEnsemble, ml.ConformerEnsemble), (UserMolecule, UserMolecule),
                    (UserEnsemble, UserEnsemble)):
        oname = "default-otype" if oarg is DEFAULT else oarg if isinstance(oarg, str) else oarg.__name__
        okw = {} if oarg is DEFAULT else {"otype": oarg}
        for name in (None, "Z"):
            # a key that the drawing does not have (a label, a position past either end, an empty label, a key of another kind):
            # CDXMLFile[key] raises, so does load -- it does not hand out some other molecule instead
            for kclass, key in (("absent-label", "no-such-label-in-the-drawing"), ("absent-label", ""), ("absent-label", keys[0] + " "),
                                ("position-out-of-range", len(keys) + 1000), ("position-out-of-range", -len(keys) - 1000),
                                ("key-of-another-kind", 1.5)):
                case = ("cdxml", oname, name, "absent-key", kclass, key) + ((again,) if again else ())
                if not ctx.want(case):
                    continue
                ctx.count("cell.load")
                ctx.count("cdxml.absent-key")
                ctx.case(case, dkey=case, nontrivial=False, sample={"call": "load", "fmt": "cdxml", "otype": oname, "key": key, "name": name})
                _, werr = attempt(lambda: ml.CDXMLFile(p)[key])
                got, gerr = attempt(lambda: ml.load(p, key=key, name=name, **okw))
                if werr is None:
                    continue        # the drawing has it after all: nothing to say here
                if gerr is None:
                    ctx.violation(f"load:cdxml:{oname}:{kclass}:returns-where-CDXMLFile-getitem-raises", case=case,
                                  returned=type(got).__name__, formula=getattr(got, "formula", None), class_level=repr(werr)[:100])
                elif isinstance(gerr, ValueError) and not isinstance(werr, ValueError):
                    ctx.violation(f"load:cdxml:{oname}:{kclass}:raises-ValueError-where-CDXMLFile-getitem-raises-another-kind-of-error",
                                  case=case, err=repr(gerr)[:150], class_level=repr(werr)[:100])
            for key in [None, 0, 1, len(keys) - 1] + keys[:6]:     # a key is a label or a position (CDXMLFile accepts both)
                case = ("cdxml", oname, name, key) + ((again,) if again else ())
                if not ctx.want(case):
                    continue
                ctx.count("cell.load")
                ctx.case(case, dkey=case, nontrivial=True, sample={"call": "load", "fmt": "cdxml", "otype": oname, "key": key, "name": name})
                got, gerr = attempt(lambda: ml.load(p, key=key, name=name, **okw))
                if gerr is not None:
                    ctx.violation(f"load:cdxml:{oname}:raises:{type(gerr).__name__}", case=case, err=repr(gerr)[:200])
                    continue
                if type(got) is not T:
                    ctx.violation(f"load:cdxml:{oname}:type-differs", case=case, got=type(got).__name__)
                    continue
                if key is not None:
                    want = T(ml.CDXMLFile(p)[key])
                    sg, sw = snap(got), snap(want)
                    sg.pop("name", None), sw.pop("name", None)
                    d = diff(sg, sw, rtol=1e-9, atol=1e-9)
                    if d:
                        ctx.violation(f"load:cdxml:{oname}:differs-from-CDXMLFile-getitem:{d[0][0].split('[')[0].strip('.')}", case=case, diff=d[:3])
                    if name is None and got.name != want.name:
                        ctx.violation(f"load:cdxml:{oname}:name-differs-from-CDXMLFile-getitem", case=case, got=got.name, want=want.name)
                else:
                    want = None
                    # no key: the first fragment of the document, i.e. what load_all puts first ...
                    if not issubclass(T, ml.ConformerEnsemble):
                        ctx.count("cdxml.no-key-vs-first-of-load_all")
                        allf, aerr = attempt(lambda: ml.load_all(p, name=name, **okw))
                        if aerr is None and isinstance(allf, list) and allf:
                            same(ctx, case, f"load:cdxml:{oname}:no-key:differs-from-first-of-load_all", got, allf[0])
                    # ... and what the class-level parser makes of the first fragment element
                    if pf is not None:
                        ctx.count("cdxml.no-key-vs-first-fragment")
                        cf2 = ml.CDXMLFile(p)
                        xf2, pf2 = fragment_oracle(cf2)
                        want = T(pf2(xf2[0], name=name))
                        same(ctx, case, f"load:cdxml:{oname}:no-key:differs-from-first-fragment", got, want)
                if name is not None:
                    ctx.count("name-override.checked")
                    if got.name != name:
                        ctx.violation(f"load:cdxml:{oname}:name-override-ignored", case=case, got=got.name, key_given=key is not None)
                if again is None and want is not None and key in (None, 1, keys[0]):
                    # the other call forms give the same object; so does a second call after the caller edited the first result
                    want_snap = snap(want)
                    if key is not None and name is None:
                        want_snap["name"] = got.name
                    elif name is not None:
                        want_snap["name"] = name
                    edit_result(got)
                    forms = [("again-after-editing-first-result", lambda: ml.load(p, key=key, name=name, **okw)),
                             ("str", lambda: ml.load(str(p), key=key, name=name, **okw)),
                             ("multi-dot-name", lambda: ml.load(pmd, key=key, name=name, **okw)),
                             ("relative-str", lambda: ml.load(relative(pmd), key=key, name=name, **okw)),
                             ("positional-fmt", lambda: ml.load(podd, "cdxml", key, name=name, **okw)),
                             ("keyword-fmt", lambda: ml.load(podd, fmt="cdxml", key=key, name=name, **okw)),
                             ("parser-name-mixed-case", lambda: ml.load(p, key=key, name=name, parser="Molli", **okw))]
                    for form, call in forms:
                        ctx.count("cell.load")
                        ctx.count(FORM_COUNTER.get(form, "cell.load-again-after-edit"))
                        g2, e2 = attempt(call)
                        if e2 is not None:
                            ctx.violation(f"load:cdxml:{oname}:{form}:raises:{type(e2).__name__}", case=case, err=repr(e2)[:200])
                        elif type(g2) is not T:
                            ctx.violation(f"load:cdxml:{oname}:{form}:type-differs", case=case, got=type(g2).__name__)
                        else:
                            d = diff(snap(g2), want_snap, rtol=1e-9, atol=1e-9)
                            if d:
                                ctx.violation(f"load:cdxml:{oname}:{form}:differs-from-class-level-result:{d[0][0].split('[')[0].strip('.')}",
                                              case=case, diff=d[:3])
    # load_all
    for name in (None, "Z"):
        case = ("cdxml", "load_all", name) + ((again,) if again else ())
        ctx.count("cell.load_all")
        ctx.case(case, dkey=case, nontrivial=True)
        got, gerr = attempt(lambda: ml.load_all(p, name=name))
        if gerr is not None:
            ctx.violation(f"load_all:cdxml:raises:{type(gerr).__name__}", case=case, err=repr(gerr)[:200])
        elif not isinstance(got, list) or len(got) != len(keys):
            ctx.violation("load_all:cdxml:not-a-list-of-all-fragments", case=case, got=len(got) if isinstance(got, list) else type(got).__name__,
                          want=len(keys))
        elif name is not None and any(m.name != name for m in got):
            ctx.violation("load_all:cdxml:name-override-ignored", case=case)


def run_cdxml_load_all(ctx, fname, light=False):
    """load_all on a drawing: a list of otype objects, one per fragment, in document order, each equal to what the class-level
    parser makes of that fragment; every labelled molecule CDXMLFile[label] is among them; fresh objects on every call"""
    import shutil
    import molli as ml
    from vmon.snap import snap, diff

    p = ml.files.ROOT / fname
    pmd, podd = dotted_dir(ctx) / f"all.{fname}", ctx.tmp / "all-drawing.dat"
    for q in (pmd, podd):
        shutil.copyfile(p, q)
    UserMolecule = type("UserMolecule", (ml.Molecule,), {})
    tag = (fname,) + (("light",) if light else ())
    otypes = [(DEFAULT, ml.Molecule), (ml.Structure, ml.Structure)] if light else \
        [(DEFAULT, ml.Molecule), ("molecule", ml.Molecule), (ml.Molecule, ml.Molecule), (ml.Structure, ml.Structure), (UserMolecule, UserMolecule)]
    for oarg, T in otypes:
        oname = "default-otype" if oarg is DEFAULT else oarg if isinstance(oarg, str) else oarg.__name__
        okw = {} if oarg is DEFAULT else {"otype": oarg}
        for name in (None, "Z"):
            nkw = {} if name is None and oarg is DEFAULT else {"name": name}
            cf = ml.CDXMLFile(p)
            xf, pf = fragment_oracle(cf)
            want = None if pf is None else [T(pf(fg, name=name)) for fg in xf]
            forms = [("Path", lambda: ml.load_all(p, **okw, **nkw)), ("str", lambda: ml.load_all(str(p), **okw, **nkw))]
            if not light and (name is None or T is ml.Structure):
                forms += [("multi-dot-name", lambda: ml.load_all(pmd, **okw, **nkw)),
                          ("relative-str", lambda: ml.load_all(relative(pmd), **okw, **nkw)),
                          ("positional-fmt", lambda: ml.load_all(podd, "cdxml", **okw, **nkw)),
                          ("keyword-fmt", lambda: ml.load_all(podd, fmt="cdxml", **okw, **nkw)),
                          ("parser-name-mixed-case", lambda: ml.load_all(p, parser="Molli", **okw, **nkw))]
            for form, call in forms:
                case = ("cdxml-load_all",) + tag + (oname, name, form)
                if not ctx.want(case):
                    continue
                ctx.count("cell.load_all")
                if form in FORM_COUNTER:
                    ctx.count(FORM_COUNTER[form])
                ctx.case(case, dkey=case, nontrivial=True, sample={"call": "load_all", "fmt": "cdxml", "file": fname, "otype": oname,
                                                                    "name": name, "form": form})
                key = form_key(f"load_all:cdxml:{oname}", form)
                for rnd in ("", "again-after-editing-first-result:") if form in ("Path", "str") else ("",):
                    got, gerr = attempt(call)
                    if rnd:
                        ctx.count("cell.load_all-again-after-edit")
                    if gerr is not None:
                        ctx.violation(f"{rnd}{key}:raises:{type(gerr).__name__}", case=case, err=repr(gerr)[:200])
                        break
                    if not isinstance(got, list):
                        ctx.violation(f"{rnd}{key}:list-promised-but-{type(got).__name__}-returned", case=case)
                        break
                    bad = [type(m).__name__ for m in got if type(m) is not T]
                    if bad:
                        ctx.violation(f"{rnd}{key}:element-type-differs", case=case, got=bad[:3], want=T.__name__)
                        break
                    if name is not None:
                        ctx.count("name-override.checked")
                        if any(m.name != name for m in got):
                            ctx.violation(f"{rnd}{key}:name-override-ignored", case=case, names=[m.name for m in got][:3])
                    if want is not None:
                        ctx.count("cdxml.load_all-elements-compared", len(want))
                        same(ctx, case, f"{rnd}{key}", got, want)
                    if form == "Path" and not rnd:
                        # independent of the fragment list: a labelled molecule of the drawing is one of the molecules of the drawing
                        snaps = [snap(m) for m in got]
                        for s_ in snaps:
                            s_.pop("name", None)
                        cfl = ml.CDXMLFile(p)
                        for k in list(cfl.keys()):
                            lab, lerr = attempt(lambda: T(cfl[k]))
                            if lerr is not None:
                                continue
                            sl = snap(lab)
                            sl.pop("name", None)
                            ctx.count("cdxml.labelled-fragment-found-in-load_all")
                            if not any(not diff(sl, s_, rtol=1e-9, atol=1e-9) for s_ in snaps):
                                ctx.violation(f"{key}:labelled-molecule-of-the-drawing-missing-from-the-list", case=case, label=k,
                                              formula=getattr(lab, "formula", None))
                    edit_result(got)


def run_errors(ctx, again=None):
    import io
    import molli as ml

    _case = ctx.case
    _want = ctx.want
    if again:       # the same cells under another case id
        class _Ctx:
            def __getattr__(self, n):
                return getattr(_outer, n)

            def case(self, case, *a, **k):
                return _outer.case(tuple(case) + (again,), *a, **k)

            def want(self, case):
                return _outer.want(tuple(case) + (again,))

            def violation(self, key, /, case=None, **d):
                return _outer.violation(key, case=None if case is None else tuple(case) + (again,), **d)
        _outer = ctx
        ctx = _Ctx()

    mol = ml.Molecule.load_mol2(ml.files.ROOT / "dendrobine.mol2")
    text = mol.dumps_mol2()
    for fmt in ("pdb", "qqq", "", "MOL2"):
        p = ctx.tmp / f"x.{fmt or 'noext'}"
        p.write_text(text)
        cells = [("load", lambda: ml.load(p, fmt=fmt or None) if fmt else ml.load(ctx.tmp / "x", fmt="")),
                 ("loads", lambda: ml.loads(text, fmt)),
                 ("load_all", lambda: ml.load_all(p, fmt=fmt)),
                 ("loads_all", lambda: ml.loads_all(text, fmt)),
                 ("dumps", lambda: ml.dumps(mol, fmt)),
                 ("dump-stream", lambda: ml.dump(mol, io.StringIO(), fmt)),
                 ("dump-path", lambda: ml.dump(mol, ctx.tmp / f"out.{fmt or 'noext'}", fmt))]
        for cname, fn in cells:
            case = ("error", cname, fmt)
            if not ctx.want(case):
                continue
            ctx.count("cell.error")
            ctx.count(f"cell.{cname.split('-')[0]}")
            ctx.case(case, dkey=case, nontrivial=False, sample={"call": cname, "fmt": fmt})
            got, err = attempt(fn)
            if err is None:
                ctx.violation(f"{cname}:unsupported-format-accepted", case=case, fmt=fmt)
            elif not isinstance(err, ValueError):
                ctx.violation(f"{cname}:unsupported-format-raises-{type(err).__name__}-instead-of-ValueError", case=case, fmt=fmt,
                              err=repr(err)[:200])
    # an explicit unsupported fmt is refused even when the file name has a supported suffix
    good = ctx.tmp / "good.mol2"
    good.write_text(text)
    for cname, fn in (("load", lambda: ml.load(good, fmt="qqq")), ("load_all", lambda: ml.load_all(good, fmt="qqq")),
                      ("dump-path", lambda: ml.dump(mol, ctx.tmp / "o.mol2", "qqq"))):
        case = ("error", cname, "explicit-fmt-over-good-suffix")
        ctx.count("cell.error")
        ctx.case(case, dkey=case, nontrivial=False)
        _, err = attempt(fn)
        if err is None:
            ctx.violation(f"{cname}:explicit-unsupported-format-ignored-in-favour-of-suffix", case=case)
        elif not isinstance(err, ValueError):
            ctx.violation(f"{cname}:unsupported-format-raises-{type(err).__name__}-instead-of-ValueError", case=case)
    # cdxml can be read but not written
    for cname, fn in (("dumps", lambda: ml.dumps(mol, "cdxml")), ("dump-stream", lambda: ml.dump(mol, io.StringIO(), "cdxml")),
                      ("dump-path", lambda: ml.dump(mol, ctx.tmp / "o.cdxml")),
                      ("dump-path", lambda: ml.dump(mol, str(ctx.tmp / "o2.cdxml"), "cdxml", mode="w"))):
        case = ("error", cname, "cdxml-output")
        ctx.count("cell.error")
        ctx.case(case, dkey=case, nontrivial=False)
        got, err = attempt(fn)
        if err is None:
            ctx.violation(f"{cname}:unsupported-format-accepted", case=case, fmt="cdxml", returned=repr(got)[:40])
        elif not isinstance(err, ValueError):
            ctx.violation(f"{cname}:unsupported-format-raises-{type(err).__name__}-instead-of-ValueError", case=case, fmt="cdxml")
    # a refused format must not take the caller's stream away: it stays open and later dumps into it still work
    for bad in ("qqq", "pdb", "cdxml"):
        for target in ("StringIO", "file"):
            case = ("error", "dump-stream-then-continue", bad, target)
            ctx.count("cell.error")
            ctx.case(case, dkey=case, nontrivial=False)
            buf = io.StringIO() if target == "StringIO" else open(ctx.tmp / f"cont-{bad}.txt", "w+")
            try:
                ml.dump(mol, buf, "mol2")
                _, err = attempt(lambda: ml.dump(mol, buf, bad))
                if err is None:
                    ctx.violation("dump-stream:unsupported-format-accepted", case=case, fmt=bad)
                if buf.closed:
                    ctx.violation("dump-stream:refused-format-closes-the-callers-stream", case=case, fmt=bad)
                    continue
                _, err2 = attempt(lambda: ml.dump(mol, buf, "xyz"))
                buf.seek(0)
                if err2 is not None or buf.read() != mol.dumps_mol2() + mol.dumps_xyz():
                    ctx.violation("dump-stream:stream-unusable-or-content-wrong-after-refused-format", case=case, fmt=bad,
                                  err=repr(err2)[:100])
            finally:
                if not buf.closed:
                    buf.close()
    # cdxml from a string: documented as file-only
    drawing = (ml.files.ROOT / "charges_mult.cdxml").read_text()
    for cname, fn in (("loads", lambda: ml.loads("<CDXML/>", "cdxml")), ("loads", lambda: ml.loads(drawing, "cdxml", otype=ml.Structure)),
                      ("loads_all", lambda: ml.loads_all("<CDXML/>", "cdxml")), ("loads_all", lambda: ml.loads_all(drawing, fmt="cdxml")),
                      ("loads_all", lambda: ml.loads_all(drawing, "cdxml", otype=ml.Structure, name="Z"))):
        case = ("error", cname, "cdxml")
        ctx.count("cell.error")
        ctx.case(case, dkey=case, nontrivial=False)
        _, err = attempt(fn)
        if err is None or not isinstance(err, (ValueError, NotImplementedError)):
            ctx.violation(f"{cname}:cdxml:neither-ValueError-nor-NotImplementedError", case=case, err=repr(err)[:100])
    # another parser does not make an unknown format known: with parser / writer 'openbabel' a format that openbabel does not list
    # is refused with ValueError as well (decided before openbabel is needed, so also where it is not installed)
    qq = ctx.tmp / "y.qqq"
    qq.write_text(text)
    for pname in ("openbabel", "obabel", "OpenBabel"):
        for bad in ("qqq", "q.q"):
            cells = [("load", lambda: ml.load(good, fmt=bad, parser=pname)), ("load", lambda: ml.load(good, bad, parser=pname)),
                     ("loads", lambda: ml.loads(text, bad, parser=pname)),
                     ("load_all", lambda: ml.load_all(good, fmt=bad, parser=pname)),
                     ("loads_all", lambda: ml.loads_all(text, bad, parser=pname)),
                     ("dumps", lambda: ml.dumps(mol, bad, writer=pname)),
                     ("dump-stream", lambda: ml.dump(mol, io.StringIO(), bad, writer=pname)),
                     ("dump-path", lambda: ml.dump(mol, ctx.tmp / "ob-out.mol2", bad, writer=pname))]
            if bad == "qqq":
                cells += [("load", lambda: ml.load(qq, parser=pname)), ("load_all", lambda: ml.load_all(str(qq), parser=pname)),
                          ("dump-path", lambda: ml.dump(mol, ctx.tmp / "ob-out.qqq", writer=pname))]
            for cname, fn in cells:
                case = ("error", cname, "openbabel-parser", pname, bad)
                ctx.count("cell.error")
                ctx.count("error.openbabel-parser-unlisted-format")
                ctx.case(case, dkey=case, nontrivial=False)
                got, err = attempt(fn)
                if err is None:
                    ctx.violation(f"{cname}:openbabel-parser:unlisted-format-accepted", case=case, fmt=bad, returned=type(got).__name__)
                elif not isinstance(err, ValueError):
                    ctx.violation(f"{cname}:openbabel-parser:unlisted-format-raises-{type(err).__name__}-instead-of-ValueError", case=case,
                                  fmt=bad, err=repr(err)[:200])


WELL_KNOWN_FORMATS = ("mol", "sdf", "sd", "mdl", "pdb", "ent", "pqr", "cif", "mmcif", "smi", "smiles", "can", "inchi", "cml", "xml", "json",
                      "cdx", "gjf", "com", "log", "out", "inp", "txt", "dat", "gro", "cube", "fchk", "molden", "mopin", "gzmat", "ml2", "sy2",
                      "exyz", "txyz", "unixyz", "xyz2", "mol3", "mol2s", "xy", "POSCAR", "yaml", "mlib")


def run_format_table(ctx):
    """every format name without a class-level codec -- in particular every name the library lists as known to openbabel only --
    is refused with ValueError by all entry points of the native parser / writer, whichever way the format is given"""
    import io
    import molli as ml

    names = set(WELL_KNOWN_FORMATS)
    for mod in (getattr(ml, "reader", None), getattr(ml, "writer", None)):
        names |= {f for f in (getattr(mod, "supported_fmts_obabel", None) or ()) if isinstance(f, str)}
    readable = {f for f in names if hasattr(ml.Molecule, f"load_{f}")} | {"cdxml"}
    writable = {f for f in names if hasattr(ml.Molecule, f"dumps_{f}")}
    mol = ml.Molecule.load_mol2(ml.files.ROOT / "dummy.mol2") if (ml.files.ROOT / "dummy.mol2").exists() else \
        ml.Molecule.load_mol2(ml.files.ROOT / "dendrobine.mol2")
    text = mol.dumps_mol2()
    d = ctx.tmp / "fmt-table"
    d.mkdir(exist_ok=True)
    for fmt in sorted(names):
        p = d / f"in.{fmt}"
        p.write_text(text)
        cells = []
        if fmt not in readable:
            cells += [("load", "suffix", lambda: ml.load(p)), ("load", "keyword-fmt", lambda: ml.load(p, fmt=fmt)),
                      ("load", "positional-fmt", lambda: ml.load(str(p), fmt, otype=ml.Structure)),
                      ("load", "ensemble", lambda: ml.load(p, otype="ensemble", name="Z")),
                      ("loads", "positional-fmt", lambda: ml.loads(text, fmt)), ("loads", "keyword-fmt", lambda: ml.loads(text, fmt=fmt, otype="ensemble")),
                      ("load_all", "suffix", lambda: ml.load_all(p)), ("load_all", "positional-fmt", lambda: ml.load_all(p, fmt, otype=ml.Structure)),
                      ("loads_all", "positional-fmt", lambda: ml.loads_all(text, fmt)),
                      ("loads_all", "keyword-fmt", lambda: ml.loads_all(text, fmt=fmt, name="Z"))]
        if fmt not in writable:
            cells += [("dumps", "positional-fmt", lambda: ml.dumps(mol, fmt)), ("dumps", "keyword-fmt", lambda: ml.dumps(mol, fmt=fmt)),
                      ("dump-stream", "positional-fmt", lambda: ml.dump(mol, io.StringIO(), fmt)),
                      ("dump-path", "suffix", lambda: ml.dump(mol, d / f"out.{fmt}")),
                      ("dump-path", "suffix-mode-w", lambda: ml.dump(mol, str(d / f"out2.{fmt}"), mode="w")),
                      ("dump-path", "keyword-fmt", lambda: ml.dump(mol, d / "out.txt", fmt=fmt))]
        for cname, form, fn in cells:
            case = ("format-table", cname, form, fmt)
            if not ctx.want(case):
                continue
            ctx.count("cell.error")
            ctx.count("error.format-without-class-codec")
            ctx.case(case, dkey=case, nontrivial=False, sample={"call": cname, "fmt": fmt, "form": form})
            got, err = attempt(fn)
            if err is None:
                ctx.violation(f"{cname}:format-without-class-codec-accepted", case=case, fmt=fmt, form=form, returned=type(got).__name__)
            elif not isinstance(err, ValueError):
                ctx.violation(f"{cname}:format-without-class-codec-raises-{type(err).__name__}-instead-of-ValueError", case=case, fmt=fmt,
                              form=form, err=repr(err)[:200])
    # the bundled files in such formats
    for f in sorted(ml.files.ROOT.glob("*.mol")) + sorted(ml.files.ROOT.glob("*.sdf")) + sorted(ml.files.ROOT.glob("*.pdb")):
        for cname, fn in (("load", lambda: ml.load(f)), ("load_all", lambda: ml.load_all(f)),
                          ("loads", lambda: ml.loads(f.read_text(), f.suffix[1:])), ("loads_all", lambda: ml.loads_all(f.read_text(), f.suffix[1:]))):
            case = ("format-table", cname, "bundled-file", f.name)
            ctx.count("cell.error")
            ctx.count("error.format-without-class-codec")
            ctx.case(case, dkey=case, nontrivial=False)
            got, err = attempt(fn)
            if err is None:
                ctx.violation(f"{cname}:format-without-class-codec-accepted", case=case, file=f.name, returned=type(got).__name__)
            elif not isinstance(err, ValueError):
                ctx.violation(f"{cname}:format-without-class-codec-raises-{type(err).__name__}-instead-of-ValueError", case=case,
                              file=f.name, err=repr(err)[:200])
