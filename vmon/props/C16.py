"""
C16 -- adding implicit hydrogens only completes valences.

Monitor shape: a runtime contract wrapped around the real `Structure.add_implicit_hydrogens`
(snapshot at entry, named post-conditions with explicit error classes, evaluation counters).  The
contract stays installed for the whole chunk, so it is evaluated for the harness' direct calls on
generated molecules, for every molecule of every bundled CDXML file (the `__implicit_hydrogens`
hints of the parser are present) and for the bundled mol2 files (hadd_test.mol2 first).

Everything the oracle needs is computed by the harness from its own tables (groups / valence
electrons / bond orders below) and from the YAML tables under molli/data read directly; molli's
VALENCE_ELECTRONS, Element.group, cov_radius_1, Bond.order and bonded_valence are not consulted.
"""
from __future__ import annotations

import math
import os

ID = "C16"
LEVEL = "exploration"
RULE = ("seeded random organic-like 3-D molecules: 1-2 fragments grown from B/C/N/O/Si/P/S centres (about a fifth of the "
        "centres: the other elements of groups 13-16, Al..Lv) on jittered "
        "tetrahedral/trigonal/linear templates, 0-3 (rarely 4) neighbours per centre, halogens/metals (also p-block metals)/H/"
        "placeholder atoms as bonded or free "
        "bystanders, formal charges -1..+1, spins -1..2, bonds of every bond type (single/double/triple/quadruple/aromatic/"
        "amide/fractional with orders that are multiples of 0.25; dummy / not-connected / unknown / ligand / hydrogen-bond "
        "types mostly towards bystanders), atom types from the whole AtomType enumeration, "
        "optional drawing hints 0..4, Molecule or Structure, whole-molecule or explicit-atom calls (atoms named as objects, "
        "indices, negative indices, labels, Elements; atoms may be named twice); "
        "every molecule is evaluated in a random pose and in six poses with a hydrogen-gaining centre's bond (or mean "
        "neighbour direction) exactly along +-x, +-y, +-z; plus every molecule of every bundled CDXML file (its hints "
        "compared with the NumHydrogens attributes of the CDXML text) and the bundled "
        "mol2 files.  non-trivial = at least one hydrogen was added to an atom that had a neighbour; distinct by "
        "blueprint+pose (generated) or file+key (bundled)")
ASSUMPTIONS = [
    "expected hydrogen count = the `__implicit_hydrogens` hint present at entry, else max(0, 4-|4-(ve-q-|s|)|-ceil(bv)) with "
    "ve = own group number - 10 (frozen table OWN_GROUP: every element of groups 13-16, B..Lv) and bv = sum over the entry "
    "bond list of own bond orders; generated fractional orders are multiples of 0.25 so the sum is exact in any order",
    "bond orders that 'bonded valence' is taken to define: the named orders single..sextuple = 1..6, aromatic 1.5, "
    "fractional = its f_order, amide 1 (a single bond in every Lewis structure, and what every mol2 reader assumes), dummy 0 "
    "and not-connected 0 (by their names not chemical bonds).  NOT defined by the statement, both readings accepted: bonds "
    "typed Unknown, Ligand (dative), H_Donor, H_Acceptor may each count 0 or 1; an atom with n such bonds may receive the "
    "formula number for any bv + 0..n.  Neighbours reached only through a bond of order 0 / undefined order may or may not "
    "count as 'existing neighbours' for the direction (as with coordination centres)",
    "the count does not depend on the atom's type (AtomType) or label: a group 13-16 atom typed Dummy / AttachmentPoint / "
    "LonePair / CoordinationCenter / ... receives its number like any other",
    "atoms named explicitly are resolved by the harness itself: Atom object = itself, integer = position in the atom list at "
    "entry (negative from the end), label / Element = the first atom carrying it (as get_atom documents).  An atom named "
    "twice in one call receives its number once; if it carries a hint smaller than the formula number, the hint and the "
    "formula number (what two successive calls give) are both accepted",
    "for the bundled drawings 'the number its drawing hint states' is tied to the CDXML text: the multiset of (element, "
    "charge, NumHydrogens) of a parsed molecule's atoms must equal that of some drawn fragment of the file with the same "
    "composition (vmon/models/c16_drawing_hints.py; which fragment belongs to which label is left to the reader)",
    "bond length |r_H - r_a| compared with r_cov1(a)+r_cov1(H) from molli/data/element.covalent_radius_1.yml, abs tol 1e-6",
    "direction: (r_H-r_a).(centroid(entry neighbours of a)-r_a) < 0 strictly, for every input; it is not evaluated where "
    "the neighbour geometry is degenerate (centroid within 0.1 A of the atom, collinear neighbours, the atom within 0.1 A "
    "of the plane of its three neighbours -- flat CDXML drawings, planar sp2 centres of core fragments); neighbours of "
    "type CoordinationCenter (multi-centre bonds of drawings) may be counted or not, either reading is accepted",
    "degenerate geometries are not generated for atoms that gain hydrogens (two neighbours with |mean offset| < 0.2 A or "
    "collinear, three neighbours collinear or with the centre < 0.15 A off their plane, more than 3 neighbours, a "
    "three-neighbour centre gaining more than one hydrogen), all neighbours counted",
    "the consumed hint key is the only permitted change of an old atom; a hint must be consumed by the call that honours it",
    "beyond the literal statement, only as its weakest reading: a new bond has order 1, and two hydrogens placed on the same "
    "atom are more than 0.1 A apart",
    "the second call is made when the first left finite coordinates and the molecule was hint-free (or every hint equalled "
    "the formula value, so that the formula governs the second call and must give 0)",
]
CHUNK_TIMEOUT = 600
EXHAUSTIVE = False
TECHNIQUE = "runtime monitoring: entry-snapshot contract on the real add_implicit_hydrogens with an independent valence/geometry oracle"
LEVEL_TEXT = ("Held on the executions produced: every call of add_implicit_hydrogens made by the workload (tens of thousands "
              "of generated molecules in general and axis-aligned poses, all bundled CDXML molecules, bundled mol2 files, each "
              "followed by a second call) passed all named post-conditions, and each placement branch (1 H, 2 H with two "
              "neighbours / otherwise, 3 H, three-neighbour pyramid) was reached. Not a proof: reach is the generator's.")
LEVEL_NOTE = ("Trusted: the harness' own group/valence/bond-order tables, the covalent radii YAML, numpy, vmon/snap.py. "
              "Bond-length tolerance 1e-6 A; direction test strict (<0), skipped for degenerate (planar/collinear) neighbours.")


def REQUIRED(tier):
    k = 1 if tier == "quick" else 8
    return {
        "contract.calls": 4000 * k,
        "contract.cond.old-atoms-preserved": 4000 * k,
        "contract.cond.old-bonds-preserved": 4000 * k,
        "contract.cond.old-coordinates-bit-identical": 4000 * k,
        "contract.cond.old-partial-charges-bit-identical": 2000 * k,
        "contract.cond.hydrogen-count-per-atom": 4000 * k,
        "contract.cond.new-hydrogen-bonded-once-to-old-atom": 2000 * k,
        "contract.cond.bond-length": 2000 * k,
        "contract.cond.points-away-from-neighbour-centroid": 2000 * k,
        "branch.1H": 500 * k,
        "branch.2H.two-neighbours": 100 * k,
        "branch.2H.other": 100 * k,
        "branch.3H": 200 * k,
        "branch.1H.pyramid-three-neighbours": 100 * k,
        "pose.general": 500 * k,
        "pose.+x": 100 * k, "pose.-x": 100 * k, "pose.+y": 100 * k, "pose.-y": 100 * k,
        "pose.+z": 100 * k, "pose.-z": 100 * k,
        "pose.exact-single-bond-on-axis": 300 * k,
        "workload.non-integer-bonded-valence": 100 * k,
        "workload.charged-centre": 200 * k,
        "workload.radical-centre": 100 * k,
        "workload.hinted-centre": 100 * k,
        "workload.zero-neighbour-centre": 100 * k,
        "workload.explicit-atom-arguments": 100 * k, "workload.explicit-negative-index": 100 * k,
        # --- added after the gap review: argument forms, elements, bond types, atom types, hints against the CDXML text
        "workload.explicit-object": 500 * k, "workload.explicit-index": 100 * k,
        "workload.explicit-label": 100 * k, "workload.explicit-element": 100 * k,
        "workload.explicit-numpy-integer-index": 100 * k,
        "workload.explicit-atom-named-twice": 200 * k,
        "workload.explicit-atom-named-twice.gaining-by-formula": 100 * k,
        "workload.explicit-atom-named-twice.gaining-by-hint": 15 * k,
        "workload.heavy-p-block-atom-gaining": 200 * k,
        **{f"workload.gaining-element.{el}": 5 * k for el in HEAVY_PBLOCK},
        "workload.placeholder-typed-atom-gaining": 100 * k,
        "workload.specially-typed-atom-gaining": 200 * k,
        "workload.amide-bond-decides-count": 40 * k,
        "workload.zero-order-bond-decides-count": 40 * k,
        "workload.quadruple-or-higher-bond": 20 * k,
        "workload.bond-of-undefined-order": 40 * k,
        "mol2.amide-bond-decides-count": 10,
        "cdxml.text.molecules-compared": 50,
        "cdxml.text.zero-hints-compared": 50,
        "cdxml.text.nonzero-hints-compared": 10,
        "workload.structure-class": 100 * k,
        "idempotence.second-call-hint-free": 1000 * k,
        "parse-script.contract-calls": 20,
        "cdxml.molecules": 100,
        "cdxml.hinted-atoms": 100,
        "cdxml.nonzero-hint-honoured": 10,
        "mol2.hadd_test": 1,
        "tables.group-crosscheck": 1,
    }


# ------------------------------------------------------------------------------------------------
# the harness' own chemistry tables (NOT molli's)

OWN_GROUP = {
    "B": 13, "Al": 13, "Ga": 13, "In": 13, "Tl": 13, "Nh": 13,
    "C": 14, "Si": 14, "Ge": 14, "Sn": 14, "Pb": 14, "Fl": 14,
    "N": 15, "P": 15, "As": 15, "Sb": 15, "Bi": 15, "Mc": 15,
    "O": 16, "S": 16, "Se": 16, "Te": 16, "Po": 16, "Lv": 16,
}
# bond orders that "bonded valence" defines (by bond-type name; f_order for FractionalOrder) ...
OWN_ORDER = {"Single": 1.0, "Double": 2.0, "Triple": 3.0, "Quadruple": 4.0, "Quintuple": 5.0, "Sextuple": 6.0,
             "Aromatic": 1.5, "Amide": 1.0, "Dummy": 0.0, "NotConnected": 0.0}
# ... and the types whose order the statement leaves open: each such bond may count 0 or 1
OPEN_ORDER = ("Unknown", "Ligand", "H_Donor", "H_Acceptor")
HINT = "__implicit_hydrogens"
TOL_DIST = 1e-6

# Violation keys that the UNCHANGED library produces; written up with a tested fix in /verif/tools/findings/C16-ext.json.
# They are counted ("known.<key>") instead of reported.  REMOVE AFTER THE REPAIR (set VERIF_C16_REPORT_KNOWN=1 to have them
# reported, e.g. against a repaired worktree).
KNOWN_ON_UNCHANGED_TREE = set()      # (its one entry, the numpy-integer index, was repaired in the library)

ORGANIC = ["C"] * 8 + ["N"] * 4 + ["O"] * 4 + ["S"] * 2 + ["P"] * 2 + ["Si"] * 2 + ["B"] * 2
HEAVY_PBLOCK = ["Al", "Ga", "In", "Tl", "Ge", "Sn", "Pb", "As", "Sb", "Bi", "Se", "Te", "Po", "Nh", "Fl", "Mc", "Lv"]
CENTRES = ORGANIC * 2 + HEAVY_PBLOCK           # 17 of 65: the rest of groups 13-16
HALOGENS = ["F", "Cl", "Br", "I"]
METALS = ["Li", "Na", "Mg", "K", "Fe", "Pd", "Cu", "Zn", "Ti", "Al", "Sn", "Pb", "Bi"]   # the last four are targets too
GEN_RADIUS = {"B": .85, "C": .75, "N": .71, "O": .63, "Si": 1.16, "P": 1.11, "S": 1.03, "F": .64, "Cl": .99, "Br": 1.14,
              "I": 1.33, "H": .32, "Al": 1.26, "Ga": 1.24, "In": 1.42, "Tl": 1.44, "Ge": 1.21, "Sn": 1.40, "Pb": 1.44,
              "As": 1.21, "Sb": 1.40, "Bi": 1.51, "Se": 1.16, "Te": 1.36, "Po": 1.45}
FRACTIONS = [0.25, 0.5, 0.75, 1.25, 1.5, 1.75, 2.5]
# every member of the AtomType enumeration (names missing from the library's enumeration fall back to Regular)
BASIC_ATYPES = ["Regular", "Aromatic", "sp3", "sp2", "Unknown", "Hypervalent"]
PLACEHOLDER_ATYPES = ["Dummy", "AttachmentPoint", "LonePair"]
OTHER_ATYPES = ["CoordinationCenter", "sp", "sp3d", "sp3d2", "C_Guanidinium", "N_Amide", "N_Nitro", "N_Ammonium",
                "O_Sulfoxide", "O_Sulfone", "O_Carboxylate", "O_Nitro"]
ATYPES = ["Regular"] * 9 + BASIC_ATYPES + PLACEHOLDER_ATYPES * 2 + OTHER_ATYPES
POSES = ["gen", "+x", "-x", "+y", "-y", "+z", "-z"]
AXES = {"+x": (1.0, 0.0, 0.0), "-x": (-1.0, 0.0, 0.0), "+y": (0.0, 1.0, 0.0), "-y": (0.0, -1.0, 0.0),
        "+z": (0.0, 0.0, 1.0), "-z": (0.0, 0.0, -1.0)}
CDXML_FILES = ["BOX_4position_fragments.cdxml", "BOX_bridging_fragments.cdxml", "BOX_cores.cdxml", "charges_mult.cdxml",
               "parser_demo.cdxml", "parser_demo2.cdxml", "substituents.cdxml"]
MOL2_FILES = ["hadd_test.mol2", "benzene.mol2", "dendrobine.mol2", "dmf.mol2", "propyne.mol2", "fxyl.mol2",
              "dimethyl_sulfone.mol2", "isornitrate.mol2", "bpa_core.mol2", "box_alignment_core.mol2",
              "cinchonidine_query.mol2", "cinchonidine_mcs.mol2", "dummy.mol2"]
# a hydrogen-free protein structure (403 amide bonds): its first residues are used (the whole file costs minutes)
MOL2_HEAD_OF = ("pdb_4a05.mol2", 330)


def own_expected(symbol, formal_charge, formal_spin, bonded_valence):
    """hint-free hydrogen count of the statement, from the harness' own group table"""
    ve = OWN_GROUP[symbol] - 10
    electrons = ve - formal_charge - abs(formal_spin)
    return max(0, 4 - abs(4 - electrons) - math.ceil(bonded_valence))


# ------------------------------------------------------------------------------------------------
# contract

class ContractViolation(AssertionError):
    """base of all post-condition failures of the add_implicit_hydrogens contract"""
    condition = "?"

    def __init__(self, key, **detail):
        super().__init__(key)
        self.key = key
        self.detail = detail


class OldAtomsChanged(ContractViolation):
    condition = "old-atoms-preserved"


class HintNotConsumed(ContractViolation):
    condition = "hint-consumed"


class OldBondsChanged(ContractViolation):
    condition = "old-bonds-preserved"


class OldCoordinatesChanged(ContractViolation):
    condition = "old-coordinates-bit-identical"


class OldChargesChanged(ContractViolation):
    condition = "old-partial-charges-bit-identical"


class HeaderChanged(ContractViolation):
    condition = "molecule-header-unchanged"


class NewAtomNotHydrogen(ContractViolation):
    condition = "new-atoms-are-hydrogen"


class NewHydrogenBonding(ContractViolation):
    condition = "new-hydrogen-bonded-once-to-old-atom"


class HydrogenCountWrong(ContractViolation):
    condition = "hydrogen-count-per-atom"


class NewCoordinatesNotFinite(ContractViolation):
    condition = "new-coordinates-finite"


class BondLengthWrong(ContractViolation):
    condition = "bond-length"


class PointsTowardsNeighbours(ContractViolation):
    condition = "points-away-from-neighbour-centroid"


class NewHydrogensCoincide(ContractViolation):
    condition = "new-hydrogens-distinct-positions"


class CallRaised(ContractViolation):
    condition = "call-returns"


class HaddContract:
    """Runtime contract around Structure.add_implicit_hydrogens (installed on the class, so every caller sees it)."""

    def __init__(self, radii):
        self.radii = radii            # symbol -> single-bond covalent radius, from the YAML
        self.evaluations = {}         # condition name -> times evaluated
        self.counters = {}            # reach counters (branches observed, calls)
        self.failures = []            # ContractViolation instances since the last drain()
        self.mode = "3d"              # "3d": strict direction test (used for every workload); "drawing": cos <= 1e-6
        self.last = None              # summary of the last call
        self.max_len_err = 0.0
        self._depth = 0
        self._orig = None

    # -- installation
    def install(self):
        import functools
        from molli.chem.structure import Structure

        orig = Structure.add_implicit_hydrogens
        contract = self

        @functools.wraps(orig)
        def add_implicit_hydrogens(self, *atoms):
            if contract._depth:                      # re-entrant call: inner calls are not separate contract instances
                return orig(self, *atoms)
            contract._depth += 1
            try:
                pre = contract.snapshot(self, atoms)
                try:
                    ret = orig(self, *atoms)
                except Exception as e:  # noqa
                    contract._count("contract.calls")
                    how = {"numpy-integer": "explicit-numpy-integer-index-raises", "element": "explicit-element-argument-raises",
                           "label": "explicit-label-argument-raises", "index": "explicit-index-argument-raises",
                           }.get(pre["arg_form"], "call-raises")
                    contract._fail(CallRaised(f"{how}:{type(e).__name__}:{_where(e)}", error=repr(e)[:300],
                                              arguments=[repr(x)[:60] for x in atoms][:6],
                                              targets=pre["target_desc"][:8]))
                    raise
                contract.check(pre, self)
                return ret
            finally:
                contract._depth -= 1

        add_implicit_hydrogens.__c16_contract__ = self
        self._orig = orig
        Structure.add_implicit_hydrogens = add_implicit_hydrogens
        return self

    def uninstall(self):
        from molli.chem.structure import Structure

        if self._orig is not None:
            Structure.add_implicit_hydrogens = self._orig
            self._orig = None

    # -- bookkeeping
    def _count(self, name, n=1):
        self.counters[name] = self.counters.get(name, 0) + n

    def _evaluated(self, cls):
        self.evaluations[cls.condition] = self.evaluations.get(cls.condition, 0) + 1

    def _fail(self, err):
        self.failures.append(err)

    def drain(self):
        f, self.failures = self.failures, []
        return f

    # -- snapshot at entry
    def snapshot(self, mol, args):
        import numpy as np
        from vmon.snap import atom_snap, norm

        atoms = list(mol.atoms)
        index_of = {id(a): i for i, a in enumerate(atoms)}
        bonds = list(mol.bonds)
        pre = {
            "atoms": atoms,
            "atom_snaps": [atom_snap(a) for a in atoms],
            "bonds": bonds,
            "bond_snaps": [_bond_fields(b, index_of) for b in bonds],
            "coords": np.array(mol.coords, copy=True),
            "charges": _charges(mol),
            "header": {f: norm(getattr(mol, f)) for f in ("name", "charge", "mult", "attrib") if hasattr(mol, f)},
            "index_of": index_of,
        }
        symbols = [a.element.name for a in atoms]
        hints = [a.attrib.get(HINT) for a in atoms]
        neigh = [[] for _ in atoms]
        weak = [set() for _ in atoms]     # neighbours reached through a bond of order 0 / of undefined order
        bv = [0.0] * len(atoms)           # bonded valence, bonds of undefined order counted 0 ...
        n_open = [0] * len(atoms)         # ... and how many of those the atom has (each may also count 1)
        for b in bonds:
            i, j = index_of.get(id(b.a1), -1), index_of.get(id(b.a2), -1)
            if i < 0 or j < 0:
                continue
            neigh[i].append(j)
            neigh[j].append(i)
            lo, hi = _own_order_range(b, self)
            bv[i] += lo
            bv[j] += lo
            if hi != lo:
                n_open[i] += 1
                n_open[j] += 1
            if hi != lo or lo == 0.0:
                weak[i].add(j)
                weak[j].add(i)
        forms = [_arg_form(x) for x in args]
        pre["arg_form"] = next((f for f in ("numpy-integer", "element", "label", "index") if f in forms), None)
        mentions = {}
        if len(args):
            targets = []
            for x in args:
                i = _resolve(atoms, index_of, x)
                if i is not None:
                    targets.append(i)
                    mentions[i] = mentions.get(i, 0) + 1
            pre["explicit"] = True
        else:
            targets = [i for i, s in enumerate(symbols) if OWN_GROUP.get(s, 0) in (13, 14, 15, 16)]
            pre["explicit"] = False
        expected = {}       # the number under the first reading (description, workload bookkeeping)
        accept = {}         # every number the statement allows (None: the statement says nothing)
        source = {}
        formula = {}
        for i in set(targets):
            if symbols[i] in OWN_GROUP:
                formula[i] = sorted({own_expected(symbols[i], atoms[i].formal_charge, atoms[i].formal_spin, bv[i] + n)
                                     for n in range(n_open[i] + 1)}, reverse=True)
            if hints[i] is not None:
                h = int(hints[i])
                expected[i] = h
                accept[i] = {h}
                source[i] = "hint"
                if mentions.get(i, 0) > 1:      # named twice: the second mention finds no hint any more
                    accept[i] |= {max(h, f) for f in formula.get(i, [h])}
            elif symbols[i] in OWN_GROUP:
                expected[i] = formula[i][0]
                accept[i] = set(formula[i])
                source[i] = "formula"
            else:  # explicit call on an atom outside groups 13-16: the statement says nothing
                expected[i] = None
                accept[i] = None
                source[i] = "unspecified"
        # neighbours that are coordination centres (multi-centre bonds of drawings) or hang on a bond of order 0 / undefined
        # order are kept apart: the statement's "existing neighbours" is read as either all neighbours or the bound ones
        cov = [[j for j in nb if getattr(atoms[j].atype, "name", "") != "CoordinationCenter" and j not in weak[i]]
               for i, nb in enumerate(neigh)]
        pre.update(symbols=symbols, hints=hints, neigh=neigh, cov=cov, bv=bv, n_open=n_open, targets=targets,
                   expected=expected, accept=accept, source=source, mentions=mentions)
        # hints that say what the formula says anyway (then a second call must add nothing either)
        pre["hints_consistent"] = all(
            hints[i] is None or (i in formula and formula[i] == [int(hints[i])]) for i in range(len(atoms)))
        pre["target_desc"] = [self._desc(pre, i) for i in targets]
        return pre

    @staticmethod
    def _desc(pre, i):
        a = pre["atoms"][i]
        return {"index": i, "element": pre["symbols"][i], "formal_charge": a.formal_charge, "formal_spin": a.formal_spin,
                "hint": pre["hints"][i], "bonded_valence": pre["bv"][i], "n_neighbours": len(pre["neigh"][i]),
                "neighbours": [pre["symbols"][j] for j in pre["neigh"][i]][:6], "expected": pre["expected"].get(i),
                "accepted": sorted(pre["accept"][i]) if pre["accept"].get(i) else None,
                "bonds_of_undefined_order": pre["n_open"][i], "atom_type": getattr(a.atype, "name", str(a.atype)),
                "times_named": pre["mentions"].get(i, 0)}

    # -- post-conditions
    def check(self, pre, mol):
        import numpy as np
        from vmon.snap import atom_snap, diff, norm

        self._count("contract.calls")
        atoms = list(mol.atoms)
        bonds = list(mol.bonds)
        n_old, b_old = len(pre["atoms"]), len(pre["bonds"])
        targets = set(pre["targets"])

        # 1. old atoms: same objects, same order, identical fields (only the consumed hint may disappear)
        self._evaluated(OldAtomsChanged)
        if len(atoms) < n_old or any(x is not y for x, y in zip(atoms[:n_old], pre["atoms"])):
            self._fail(OldAtomsChanged("old-atoms-changed:identity-or-order", n_old=n_old, n_now=len(atoms)))
        else:
            for i, a in enumerate(pre["atoms"]):
                now = atom_snap(a)
                was = pre["atom_snaps"][i]
                if now == was:
                    continue
                if i in targets and HINT in was["attrib"]:
                    was = dict(was, attrib={k: v for k, v in was["attrib"].items() if k != HINT})
                    if now == was:
                        continue
                d = diff(was, now)
                field = d[0][0].strip(".").split(".")[0].split("[")[0] if d else "?"
                self._fail(OldAtomsChanged(f"old-atoms-changed:field:{field}", atom=self._desc(pre, i), diff=d[:3]))
                break

        # 2. a hint that was honoured is consumed
        self._evaluated(HintNotConsumed)
        for i in pre["targets"]:
            if pre["hints"][i] is not None and HINT in pre["atoms"][i].attrib:
                self._fail(HintNotConsumed("hint-not-consumed", atom=self._desc(pre, i)))
                break

        # 3. old bonds
        self._evaluated(OldBondsChanged)
        if len(bonds) < b_old or any(x is not y for x, y in zip(bonds[:b_old], pre["bonds"])):
            self._fail(OldBondsChanged("old-bonds-changed:identity-or-order", b_old=b_old, b_now=len(bonds)))
        else:
            for j, b in enumerate(pre["bonds"]):
                now = _bond_fields(b, pre["index_of"])
                if now != pre["bond_snaps"][j]:
                    d = diff(pre["bond_snaps"][j], now)
                    field = d[0][0].strip(".").split(".")[0] if d else "?"
                    self._fail(OldBondsChanged(f"old-bonds-changed:field:{field}", bond=j, diff=d[:3]))
                    break

        # 4. old coordinates bit-identical
        self._evaluated(OldCoordinatesChanged)
        coords = np.asarray(mol.coords)
        ok_shape = coords.ndim == 2 and coords.shape[1:] == (3,) and coords.shape[0] == len(atoms)
        if not ok_shape:
            self._fail(OldCoordinatesChanged("coordinates-shape-wrong", shape=list(coords.shape), n_atoms=len(atoms)))
        elif coords.dtype != pre["coords"].dtype or coords[:n_old].tobytes() != pre["coords"].tobytes():
            bad = [i for i in range(n_old) if coords[i].tobytes() != pre["coords"][i].tobytes()][:3]
            self._fail(OldCoordinatesChanged("old-coordinates-changed", rows=bad,
                                             was=[pre["coords"][i].tolist() for i in bad],
                                             now=[coords[i].tolist() for i in bad],
                                             atoms=[self._desc(pre, i) for i in bad]))

        # 5. old partial charges bit-identical (classes that have them)
        if pre["charges"] is not None:
            self._evaluated(OldChargesChanged)
            now = _charges(mol)
            if now is None or len(now) < n_old or not _same_floats(now[:n_old], pre["charges"]):
                self._fail(OldChargesChanged("old-partial-charges-changed", was=_tolist(pre["charges"])[:8],
                                             now=_tolist(now)[:8] if now is not None else None))

        # 6. header
        self._evaluated(HeaderChanged)
        for f, was in pre["header"].items():
            nowv = norm(getattr(mol, f))
            if nowv != was and not (isinstance(was, float) and isinstance(nowv, float) and was != was and nowv != nowv):
                self._fail(HeaderChanged(f"molecule-header-changed:{f}", was=was, now=nowv))

        if len(atoms) < n_old or len(bonds) < b_old:
            return

        # 7. new atoms are hydrogens
        new_atoms = atoms[n_old:]
        new_index = {id(a): n_old + k for k, a in enumerate(new_atoms)}
        self._evaluated(NewAtomNotHydrogen)
        for a in new_atoms:
            if a.element.name != "H" or int(a.element) != 1:
                self._fail(NewAtomNotHydrogen("new-atom-not-hydrogen", element=a.element.name))
                break

        # 8. each new atom has exactly one bond, a single bond, to an old atom; no other new bonds
        self._evaluated(NewHydrogenBonding)
        host = {}                       # new atom index -> old atom index
        nbonds_of = {n_old + k: 0 for k in range(len(new_atoms))}
        problems = []
        for b in bonds[b_old:]:
            i1 = pre["index_of"].get(id(b.a1), new_index.get(id(b.a1), -1))
            i2 = pre["index_of"].get(id(b.a2), new_index.get(id(b.a2), -1))
            if i1 < 0 or i2 < 0:
                problems.append(("new-bond-to-foreign-atom", i1, i2))
                continue
            new_ends = [i for i in (i1, i2) if i >= n_old]
            old_ends = [i for i in (i1, i2) if i < n_old]
            if len(new_ends) == 0:
                problems.append(("new-bond-between-old-atoms", i1, i2))
                continue
            for i in new_ends:
                nbonds_of[i] += 1
            if len(new_ends) == 2:
                problems.append(("new-hydrogen-bonded-to-new-atom", i1, i2))
                continue
            host[new_ends[0]] = old_ends[0]
            if _own_order_range(b, self) != (1.0, 1.0):
                problems.append(("new-bond-not-single", i1, i2))
        for i, n in nbonds_of.items():
            if n != 1:
                problems.append((f"new-hydrogen-bond-count:{min(n, 2)}" + ("+" if n > 2 else ""), i, n))
        for p in problems[:2]:
            self._fail(NewHydrogenBonding(p[0], atoms=list(p[1:]), n_old=n_old, n_new=len(new_atoms),
                                          targets=pre["target_desc"][:6]))

        # 9. counts per atom
        self._evaluated(HydrogenCountWrong)
        gained = {}
        for h, a in host.items():
            gained.setdefault(a, []).append(h)
        reported = set()
        for i in range(n_old):
            g = len(gained.get(i, ()))
            if i in targets:
                acc = pre["accept"][i]
                if acc is None or g in acc:
                    continue
                if acc == {4} and g == 0:
                    key = "four-hydrogens-not-added"
                else:
                    way = "too-many" if g > max(acc) else "too-few" if g < min(acc) else "between-the-accepted-readings"
                    key = f"hydrogen-count-wrong:{pre['source'][i]}:{way}" + \
                          (":atom-named-twice" if pre["mentions"].get(i, 0) > 1 else "")
            else:
                if g == 0:
                    continue
                key = "non-target-atom-gained-hydrogens:" + \
                      ("group-13-16" if pre["symbols"][i] in OWN_GROUP else "other-group")
            if key not in reported:
                reported.add(key)
                self._fail(HydrogenCountWrong(key, atom=self._desc(pre, i), gained=g, explicit_call=pre["explicit"]))

        # 10-12. geometry of every new hydrogen that has a host
        self._evaluated(NewCoordinatesNotFinite)
        geo_ok = ok_shape
        summary = []
        for a_idx, hs in sorted(gained.items()):
            k = len(pre["cov"][a_idx])
            g = len(hs)
            summary.append((pre["symbols"][a_idx], k, g))
            if pre["mentions"].get(a_idx, 0) > 1 and pre["hints"][a_idx] is not None and g != int(pre["hints"][a_idx]):
                # named twice, hint smaller than the formula number, completed in two batches: the second batch was
                # placed next to the first one, which an entry snapshot cannot judge
                self._count("geometry.skipped-two-batches-on-hinted-atom")
                continue
            if g == 1:
                self._count("branch.1H")
                if k == 3:
                    self._count("branch.1H.pyramid-three-neighbours")
            elif g == 2:
                self._count("branch.2H.two-neighbours" if k == 2 else "branch.2H.other")
            elif g == 3:
                self._count("branch.3H")
            else:
                self._count(f"branch.{g}H")
            if not geo_ok:
                continue
            r_a = pre["coords"][a_idx].astype(float)
            nb = pre["coords"][pre["cov"][a_idx]].astype(float) if k else None
            nb_all = pre["coords"][pre["neigh"][a_idx]].astype(float) if len(pre["neigh"][a_idx]) != k else None
            for h in hs:
                r_h = coords[h].astype(float)
                if not np.isfinite(r_h).all():
                    if k == 0:
                        key = "no-neighbour-nan-coordinates"
                    elif g == 2 and k != 2 and _parallel_to_z(nb, r_a, k):
                        key = "axis-aligned-ch2-nan"
                    else:
                        key = f"new-coordinates-not-finite:{g}H:{min(k, 4)}-neighbours"
                    self._fail(NewCoordinatesNotFinite(key, atom=self._desc(pre, a_idx), r_atom=r_a.tolist(),
                                                       r_neighbours=nb.tolist() if k else [], r_hydrogen=r_h.tolist()))
                    break
                # bond length
                self._evaluated(BondLengthWrong)
                want = self.radii[pre["symbols"][a_idx]] + self.radii["H"]
                got = float(np.linalg.norm(r_h - r_a))
                self.max_len_err = max(self.max_len_err, abs(got - want))
                if not abs(got - want) <= TOL_DIST and ("len", a_idx) not in reported:
                    reported.add(("len", a_idx))
                    size = ":relative-error-below-1e-4" if abs(got - want) <= 1e-4 * want else ""
                    self._fail(BondLengthWrong(f"bond-length-not-sum-of-covalent-radii:{g}H{size}", atom=self._desc(pre, a_idx),
                                               expected=want, observed=got, error=got - want))
                if not got > 0.0:
                    break
                # direction
                if k:
                    self._evaluated(PointsTowardsNeighbours)
                    if _degenerate(nb - r_a):
                        self._count("direction.skipped-degenerate-neighbour-geometry")
                        continue
                    self._count("direction.checked")
                    w = nb.mean(axis=0) - r_a
                    u = r_h - r_a
                    nw = float(np.linalg.norm(w))
                    cosang = float(np.dot(u, w)) / (nw * got)
                    bad = cosang > 1e-6 if self.mode == "drawing" else not (cosang < 0.0)
                    if bad and nb_all is not None and not _degenerate(nb_all - r_a):
                        self._count("direction.decided-with-coordination-centre-neighbours")
                        bad = not (float(np.dot(u, nb_all.mean(axis=0) - r_a)) < 0.0)
                    if bad:
                        self._fail(PointsTowardsNeighbours(
                            f"hydrogen-points-towards-neighbours:{g}H:{min(k, 4)}-neighbours", atom=self._desc(pre, a_idx),
                            cos_angle=cosang, r_atom=r_a.tolist(), r_neighbours=nb.tolist(), r_hydrogen=r_h.tolist()))
                        break
            else:
                # hydrogens placed on one atom occupy distinct positions (weakest reading of "adds hydrogen atoms")
                if g >= 2:
                    self._evaluated(NewHydrogensCoincide)
                    pts = coords[hs].astype(float)
                    dmin = min(float(np.linalg.norm(pts[x] - pts[y])) for x in range(g) for y in range(x))
                    if not dmin > 0.1:
                        self._fail(NewHydrogensCoincide(f"new-hydrogens-coincide:{g}H", atom=self._desc(pre, a_idx),
                                                        r_hydrogens=pts.tolist(), min_distance=dmin))
        # new atoms without host: still need finite coordinates
        if geo_ok:
            for k_, a in enumerate(new_atoms):
                if (n_old + k_) not in host and not np.isfinite(coords[n_old + k_]).all():
                    self._fail(NewCoordinatesNotFinite("new-coordinates-not-finite:unbonded-new-atom"))
                    break
        broken = any(isinstance(f, (NewCoordinatesNotFinite, CallRaised)) or f.key == "coordinates-shape-wrong"
                     for f in self.failures)
        self.last = {"n_old": n_old, "n_new": len(new_atoms), "gained": summary, "broken": broken,
                     "hints_consistent": pre["hints_consistent"],
                     "nontrivial": any(k >= 1 and g >= 1 for _, k, g in summary),
                     "hint_free": all(h is None for h in pre["hints"]),
                     "pre": pre}


def _bond_fields(b, index_of):
    from vmon.snap import norm

    return {"a1": index_of.get(id(b.a1), -1), "a2": index_of.get(id(b.a2), -1), "label": b.label, "btype": int(b.btype),
            "stereo": int(b.stereo), "f_order": float(b.f_order), "attrib": norm(b.attrib)}


def _own_order_range(b, contract=None):
    """(lowest, highest) order the statement allows for this bond; equal where "bonded valence" defines it"""
    name = getattr(b.btype, "name", None)
    if name == "FractionalOrder":
        return float(b.f_order), float(b.f_order)
    if name in OWN_ORDER:
        return OWN_ORDER[name], OWN_ORDER[name]
    if name in OPEN_ORDER:
        return 0.0, 1.0
    if contract is not None:
        contract._count("order.unknown-bond-type-fallback")
    return float(b.order), float(b.order)


def _arg_form(x):
    """how an atom is named in an explicit call (AtomLike = Atom | int | str | Element)"""
    import numpy as np
    from molli.chem import Atom, Element

    if isinstance(x, Atom):
        return "object"
    if isinstance(x, Element):          # an IntEnum: before int
        return "element"
    if isinstance(x, np.integer):
        return "numpy-integer"
    if isinstance(x, int):
        return "index"
    if isinstance(x, str):
        return "label"
    return "other"


def _resolve(atoms, index_of, x):
    """the harness' own reading of an AtomLike: position (at entry) of the atom it names, None if it names none"""
    import operator

    form = _arg_form(x)
    if form == "object":
        return index_of.get(id(x))
    if form == "element":
        return next((i for i, a in enumerate(atoms) if a.element == x), None)
    if form in ("index", "numpy-integer"):
        i = operator.index(x)
        if -len(atoms) <= i < len(atoms):
            return i % len(atoms)
        return None
    if form == "label":
        return next((i for i, a in enumerate(atoms) if a.label == x), None)
    return None


def _charges(mol):
    import numpy as np

    try:
        q = mol.atomic_charges
    except AttributeError:
        return None
    if q is None:
        return None
    return np.array(q, copy=True)


def _same_floats(a, b):
    """bitwise equality of two 1-D sequences of numbers (object arrays allowed)"""
    import numpy as np

    try:
        x = np.asarray(a, dtype=np.float64)
        y = np.asarray(b, dtype=np.float64)
    except (TypeError, ValueError):
        return False
    return x.shape == y.shape and x.tobytes() == y.tobytes()


def _tolist(a):
    return [None if v is None else float(v) for v in list(a)]


def _degenerate(off):
    """neighbour offsets for which 'away from the neighbours' centroid' is ill-defined (outside the quantifier):
    centroid (almost) on the atom, collinear neighbours, or the atom (almost) in the plane of >= 3 neighbours"""
    import numpy as np

    k = len(off)
    if not np.isfinite(off).all() or min(np.linalg.norm(off, axis=1)) < 0.3:
        return True
    if np.linalg.norm(off.mean(axis=0)) < 0.1:
        return True
    if k == 2:
        return bool(np.linalg.norm(np.cross(off[0], off[1])) < 0.1)
    if k >= 3:
        c = off - off.mean(axis=0)
        sv = np.linalg.svd(c, compute_uv=True)
        if sv[1][1] < 0.1:                       # neighbours collinear
            return True
        normal = sv[2][-1] if k == 3 else None
        if k == 3:
            return bool(abs(float(np.dot(normal, off[0]))) < 0.1)
        return bool(sv[1][2] < 0.1 and abs(float(np.dot(sv[2][-1], off[0]))) < 0.1)
    return False


def _parallel_to_z(nb, r_a, k):
    """the implementation's reference direction (mean neighbour offset / plane normal) is exactly along z"""
    import numpy as np

    v = (nb - r_a).mean(axis=0)
    return bool(v[0] == 0.0 and v[1] == 0.0 and v[2] != 0.0)


def _where(e):
    import traceback

    tb = traceback.extract_tb(e.__traceback__)
    for fr in reversed(tb):
        if "/molli/" in fr.filename:
            return fr.name
    return tb[-1].name if tb else "?"


def load_radii():
    """single-bond covalent radii straight from the YAML table (not through molli.data / Element)"""
    import yaml
    import molli.data

    root = os.path.dirname(os.path.abspath(molli.data.__file__))
    with open(os.path.join(root, "element.covalent_radius_1.yml"), "rt") as f:
        radii = yaml.safe_load(f)["data"]
    with open(os.path.join(root, "element.group.yml"), "rt") as f:
        groups = yaml.safe_load(f)["data"]
    return {k: float(v) for k, v in radii.items() if v is not None}, groups


# ------------------------------------------------------------------------------------------------
# generator: blueprints (plain JSON-able data) -> molli objects

def _unit(v):
    import numpy as np

    return v / np.linalg.norm(v)


def _rot_u_to_v(u, v):
    """proper rotation matrix R with R @ u = v (u, v unit vectors): half-turn about the bisector"""
    import numpy as np

    s = u + v
    if float(np.dot(s, s)) < 1e-20:         # antiparallel: half-turn about any axis perpendicular to u
        w = np.cross(u, [1.0, 0.0, 0.0])
        if float(np.dot(w, w)) < 1e-6:
            w = np.cross(u, [0.0, 1.0, 0.0])
        w = _unit(w)
        return 2.0 * np.outer(w, w) - np.eye(3)
    return 2.0 * np.outer(s, s) / float(np.dot(s, s)) - np.eye(3)


def _random_rotation(rng):
    import numpy as np

    a = np.array([[rng.gauss(0, 1) for _ in range(3)] for _ in range(3)])
    q, r = np.linalg.qr(a)
    q = q @ np.diag(np.sign(np.diag(r)))
    if np.linalg.det(q) < 0:
        q[:, 0] = -q[:, 0]
    return q


def _template(rng, kind):
    import numpy as np

    s3 = math.sqrt(3.0) / 2.0
    if kind == "tet":
        t = np.array([[0, 0, 1.0], [math.sqrt(8.0) / 3.0, 0, -1 / 3.0], [-math.sqrt(2.0) / 3.0, math.sqrt(2.0 / 3.0), -1 / 3.0],
                      [-math.sqrt(2.0) / 3.0, -math.sqrt(2.0 / 3.0), -1 / 3.0]])
    elif kind == "trig":
        t = np.array([[1.0, 0, 0], [-0.5, s3, 0], [-0.5, -s3, 0]])
    else:
        t = np.array([[1.0, 0, 0], [-1.0, 0, 0]])
    return t


def _oriented_dirs(rng, kind, towards=None, jitter=0.08):
    """template directions in a random orientation; if `towards` is given, direction 0 points exactly there"""
    import numpy as np

    t = _template(rng, kind) @ _random_rotation(rng).T
    if towards is not None:
        t = t @ _rot_u_to_v(_unit(t[0]), _unit(towards)).T
    out = [t[0]]
    for d in t[1:]:
        d = d + np.array([rng.gauss(0, jitter) for _ in range(3)])
        out.append(_unit(d))
    return out


def make_blueprint(rng):
    """one random organic-like molecule as plain data; returns None when the draw is degenerate"""
    import numpy as np

    atoms, pos, bonds, open_dirs, degree = [], [], [], {}, []
    nmax = rng.choice([1, 2, 3, 3, 4, 5, 6, 8, 10, 12])

    def add_atom(el, p, kind):
        atoms.append({"el": el, "q": 0, "s": 0, "hint": None, "kind": kind})
        pos.append(np.array(p, dtype=float))
        degree.append(0)
        return len(atoms) - 1

    def add_centre(p, towards=None):
        el = rng.choice(CENTRES)
        i = add_atom(el, p, "centre")
        atoms[i]["q"] = rng.choice([0] * 7 + [1, -1, 1, -1][:3])
        atoms[i]["s"] = rng.choice([0] * 11 + [1, 1, 2, -1])
        tk = rng.choice(["tet"] * 6 + ["trig"] * 3 + ["lin"])
        atoms[i]["tmpl"] = tk
        dirs = _oriented_dirs(rng, tk, towards)
        open_dirs[i] = dirs[1:] if towards is not None else dirs
        return i

    def bond(i, j, bt, fo=1.0):
        bonds.append([i, j, bt, fo])
        degree[i] += 1
        degree[j] += 1

    nfrag = rng.choice([1, 1, 1, 2])
    origin = np.zeros(3)
    for f in range(nfrag):
        if len(atoms) >= nmax and f:
            break
        r = rng.random()
        if f and r < 0.35:       # a free bystander: halide / metal ion / hydrogen atom
            add_atom(rng.choice(HALOGENS + METALS + ["H"]), origin, "free")
            origin = origin + np.array([6.0, 1.0, -2.0])
            continue
        root = add_centre(origin)
        frontier = [root]
        while frontier:
            i = frontier.pop(0)
            total = rng.choice([0, 1, 1, 1, 2, 2, 2, 3, 3, 4] if atoms[i]["tmpl"] == "tet" else
                               [0, 1, 1, 2, 2, 3] if atoms[i]["tmpl"] == "trig" else [0, 1, 1, 1, 2])
            if total == 4 and rng.random() < 0.6:
                total = 3
            while degree[i] < total and open_dirs[i] and len(atoms) < nmax:
                d = open_dirs[i].pop(rng.randrange(len(open_dirs[i])))
                r = rng.random()
                if r < 0.55:
                    ekind = "centre"
                elif r < 0.70:
                    ekind = "halogen"
                elif r < 0.82:
                    ekind = "H"
                elif r < 0.95:
                    ekind = "metal"
                else:
                    ekind = "placeholder"          # a dummy atom / attachment point / lone pair of no element
                if ekind == "centre":
                    j = add_centre(pos[i], towards=-d)     # element decided inside; position fixed below
                    el = atoms[j]["el"]
                else:
                    el = rng.choice(HALOGENS) if ekind == "halogen" else "H" if ekind == "H" else \
                        rng.choice(METALS) if ekind == "metal" else "Unknown"
                    j = add_atom(el, pos[i], ekind)
                length = (GEN_RADIUS.get(atoms[i]["el"], 1.3) + GEN_RADIUS.get(el, 1.3)) * rng.uniform(0.92, 1.12)
                pos[j] = pos[i] + d * length
                bt, fo = "Single", 1.0
                if ekind == "centre":
                    r = rng.random()
                    if r < 0.42:
                        pass
                    elif r < 0.57:
                        bt = "Double"
                    elif r < 0.67:
                        bt = "Aromatic"
                    elif r < 0.72:
                        bt = "Triple"
                    elif r < 0.84:
                        bt, fo = "FractionalOrder", rng.choice(FRACTIONS)
                    elif r < 0.92:
                        bt = "Amide"
                    elif r < 0.94:
                        bt = rng.choice(["Quadruple", "Quadruple", "Quintuple", "Sextuple"])
                    elif r < 0.97:
                        bt = rng.choice(["Dummy", "NotConnected"])
                    else:
                        bt = rng.choice(OPEN_ORDER)
                    frontier.append(j)
                elif ekind == "metal":
                    r = rng.random()
                    if r < 0.3:
                        bt, fo = "FractionalOrder", rng.choice([0.25, 0.5, 0.75])
                    elif r < 0.42:
                        bt = rng.choice(["Dummy", "NotConnected"])
                    elif r < 0.54:
                        bt = rng.choice(OPEN_ORDER)
                elif ekind == "placeholder":
                    bt = rng.choice(["Dummy", "Dummy", "Single", "NotConnected", "Unknown"])
                elif rng.random() < 0.06:
                    bt = rng.choice(["Dummy", "NotConnected", "H_Donor", "H_Acceptor", "Unknown"])
                bond(i, j, bt, fo)
        origin = origin + np.array([7.0, -2.0, 3.0])

    n = len(atoms)
    neigh = [[] for _ in range(n)]
    bv = [0.0] * n
    for i, j, bt, fo in bonds:
        neigh[i].append(j)
        neigh[j].append(i)
        o = _bp_order(bt, fo)
        bv[i] += o
        bv[j] += o
    # hints (drawing style): a fifth of the molecules
    if rng.random() < 0.2:
        for i, a in enumerate(atoms):
            if a["kind"] == "centre" and rng.random() < 0.6:
                k = len(neigh[i])
                formula = own_expected(a["el"], a["q"], a["s"], bv[i])
                top = 4 if k == 0 else 3 if k == 1 else 2 if k == 2 else 1 if k == 3 else 0
                a["hint"] = min(formula, top) if rng.random() < 0.5 else rng.randrange(0, top + 1)
    # non-degeneracy for every atom that is to gain hydrogens
    P = np.array(pos)
    for i, a in enumerate(atoms):
        if a["el"] not in OWN_GROUP:
            continue
        a["formula"] = own_expected(a["el"], a["q"], a["s"], bv[i])
        e = a["hint"] if a["hint"] is not None else a["formula"]
        a["expected"] = e
        k = len(neigh[i])
        if e == 0 or k == 0:
            continue
        off = P[neigh[i]] - P[i]
        if min(np.linalg.norm(off, axis=1)) < 0.6:
            return None
        if k == 2:
            if np.linalg.norm(off.mean(axis=0)) < 0.2 or np.linalg.norm(np.cross(off[0], off[1])) < 0.3:
                return None
        elif k == 3:
            if e > 1:
                return None
            nrm = np.cross(off[1] - off[0], off[2] - off[0])
            if np.linalg.norm(nrm) < 0.5:
                return None
            if abs(float(np.dot(_unit(nrm), off[0]))) < 0.15:
                return None
        elif k >= 4:
            return None
    # pivot for the axis-aligned poses: a hydrogen-gaining centre, preferably with a single neighbour
    cands = [i for i, a in enumerate(atoms) if a.get("expected", 0) in (1, 2, 3) and len(neigh[i]) >= 1]
    single = [i for i in cands if len(neigh[i]) == 1]
    pivot = rng.choice(single) if single and rng.random() < 0.8 else (rng.choice(cands) if cands else None)
    # decoration that must survive untouched
    for i, a in enumerate(atoms):
        a["label"] = rng.choice([None, f"{a['el']}{i}", "x", ""])
        a["iso"] = rng.choice([None] * 8 + [2, 13])
        a["atype"] = rng.choice(PLACEHOLDER_ATYPES) if a["el"] == "Unknown" else rng.choice(ATYPES)
        a["geom"] = rng.choice(["Unknown"] * 4 + ["R2", "R4_Tetrahedral", "R3_Planar"])
        a["extra"] = rng.choice([None] * 4 + [{"tag": i}, {"__other": "keep", "w": 0.5}])
        a["pc"] = rng.choice([0.0, -0.0, 0.125, -0.4, rng.uniform(-1, 1)])
    return {
        "atoms": atoms, "bonds": bonds, "pos": [[float(x) for x in p] for p in pos], "pivot": pivot,
        "cls": "Structure" if rng.random() < 0.2 else "Molecule",
        "explicit": rng.random() < 0.25,
        "charge": rng.choice([0, 0, 1, -1]), "mult": rng.choice([1, 1, 2]),
    }


def _bp_order(bt, fo):
    """order of a blueprint bond; bonds of undefined order count 0 here (the reading that gives the larger number)"""
    return fo if bt == "FractionalOrder" else OWN_ORDER.get(bt, 0.0)


def pose_coords(bp, pose, rng):
    """coordinates of the blueprint in the requested pose; second value: the single bond lies exactly on the axis"""
    import numpy as np

    P = np.array(bp["pos"], dtype=float).reshape(-1, 3)
    shift = np.array([round(rng.uniform(-8, 8), 3) for _ in range(3)])
    if pose == "gen":
        return P @ _random_rotation(rng).T + shift, False
    piv = bp["pivot"]
    nb = [j if i == piv else i for i, j, _, _ in bp["bonds"] if piv in (i, j)]
    d = (P[nb] - P[piv]).mean(axis=0)
    axis = np.array(AXES[pose])
    R = _rot_u_to_v(_unit(d), axis)
    Q = (P - P[piv]) @ R.T + shift
    Q[piv] = shift
    exact = False
    if len(nb) == 1:
        Q[nb[0]] = shift + axis * float(np.linalg.norm(d))
        off = Q[nb[0]] - Q[piv]
        exact = sum(1 for c in off if c != 0.0) == 1
    return Q, exact


def build(bp, coords):
    import numpy as np
    from molli.chem import Atom, AtomGeom, AtomType, BondType, Molecule, Structure

    atoms = []
    for a in bp["atoms"]:
        attrib = dict(a["extra"] or {})
        if a["hint"] is not None:
            attrib[HINT] = a["hint"]
        geom = getattr(AtomGeom, a["geom"], AtomGeom.Unknown)
        atoms.append(Atom(a["el"], isotope=a["iso"], label=a["label"],
                          atype=getattr(AtomType, a["atype"], AtomType.Regular), geom=geom,
                          formal_charge=a["q"], formal_spin=a["s"], attrib=attrib))
    cls = Structure if bp["cls"] == "Structure" else Molecule
    m = cls(atoms, name="c16", coords=np.array(coords, dtype=float), charge=bp["charge"], mult=bp["mult"])
    for i, j, bt, fo in bp["bonds"]:
        m.connect(i, j, btype=BondType[bt], f_order=fo)
    if cls is Molecule:
        m.atomic_charges = np.array([a["pc"] for a in bp["atoms"]], dtype=float)
    return m


def brief_bp(bp, pose):
    return {"pose": pose, "cls": bp["cls"],
            "atoms": [f"{a['el']}{'+' if a['q'] > 0 else '-' if a['q'] < 0 else ''}{'.' * abs(a['s'])}"
                      + (f"[hint={a['hint']}]" if a["hint"] is not None else "") for a in bp["atoms"]][:12],
            "bonds": [f"{i}-{j}:{bt if bt != 'FractionalOrder' else fo}" for i, j, bt, fo in bp["bonds"]][:12]}


# ------------------------------------------------------------------------------------------------
# plan / chunks

def plan(tier, seed):
    if tier == "quick":
        nchunks, per = 46, 50
    else:
        nchunks, per = 116, 260
    specs = [{"kind": "gen", "chunk": c, "n": per} for c in range(nchunks)]
    specs[1:1] = [{"kind": "bundled"}, {"kind": "parse-script"}]      # early, so that the evidence samples show all kinds
    return specs


def run_chunk(spec, ctx):
    import warnings

    import numpy as np

    radii, groups = load_radii()
    contract = HaddContract(radii).install()
    try:
        with warnings.catch_warnings(), np.errstate(all="ignore"):
            warnings.simplefilter("ignore")
            if spec["kind"] == "gen":
                _run_generated(spec, ctx, contract)
            elif spec["kind"] == "parse-script":
                _run_parse_script(spec, ctx, contract)
            else:
                _crosscheck_tables(ctx, groups, radii)
                _run_bundled(spec, ctx, contract)
    finally:
        contract.uninstall()
        for k, v in contract.counters.items():
            ctx.count(k, v)
        for k, v in contract.evaluations.items():
            ctx.count(f"contract.cond.{k}", v)
        ctx.note("max_abs_bond_length_error_per_chunk", [contract.max_len_err])


def _report(ctx, contract, case, **extra):
    for f in contract.drain():
        if f.key in KNOWN_ON_UNCHANGED_TREE and not os.environ.get("VERIF_C16_REPORT_KNOWN"):
            ctx.count("known." + f.key)
            continue
        ctx.violation(f.key, case=case, condition=f.condition, error_class=type(f).__name__, **extra, **f.detail)


def _call(ctx, contract, mol, args, case, **extra):
    """one monitored call; an exception of the real function is already recorded by the contract"""
    contract.last = None
    try:
        mol.add_implicit_hydrogens(*args)
    except Exception:  # noqa
        pass
    _report(ctx, contract, case, **extra)
    return contract.last


def _state(mol):
    import numpy as np

    return (mol.n_atoms, mol.n_bonds, np.asarray(mol.coords).tobytes())


def _second_call(ctx, contract, mol, args, case, first, **extra):
    """idempotence: a second call on a molecule that was hint-free at the first entry adds nothing"""
    if first is None or first["broken"] or not (first["hint_free"] or first["hints_consistent"]):
        ctx.count("idempotence.second-call-skipped")
        return
    before = _state(mol)
    second = _call(ctx, contract, mol, args, case, call="second", **extra)
    ctx.count("idempotence.second-call-hint-free" if first["hint_free"] else "idempotence.second-call-consistent-hints")
    if True:
        after = _state(mol)
        if after != before:
            ctx.violation("second-call-adds-hydrogens" if after[0] > before[0] else "second-call-changes-molecule",
                          case=case, n_atoms_before=before[0], n_atoms_after=after[0], n_bonds_before=before[1],
                          n_bonds_after=after[1], gained=second["gained"][:6] if second else None, **extra)


def _run_generated(spec, ctx, contract):
    from vmon.child import h8

    contract.mode = "3d"
    for j in range(spec["n"]):
        bp = None
        for attempt in range(60):
            bp = make_blueprint(ctx.rng(spec["chunk"], j, "bp", attempt))
            if bp is not None:
                break
            ctx.count("generator.degenerate-draw-rejected")
        if bp is None:
            ctx.count("generator.gave-up")
            continue
        _count_workload(ctx, bp)
        for pose in POSES:
            case = [spec["chunk"], j, pose]
            if pose != "gen" and bp["pivot"] is None:
                continue
            if not ctx.want(case):
                continue
            coords, exact = pose_coords(bp, pose, ctx.rng(spec["chunk"], j, "pose", pose))
            mol = build(bp, coords)
            if bp["explicit"]:
                args, chosen = _explicit_args(ctx, bp, mol, ctx.rng(spec["chunk"], j, "args"))
            else:
                args, chosen = (), []
            witness = {"molecule": brief_bp(bp, pose), "coords": np_round(coords)}
            first = _call(ctx, contract, mol, args, case, **witness)
            ctx.count("pose.general" if pose == "gen" else f"pose.{pose}")
            if exact:
                ctx.count("pose.exact-single-bond-on-axis")
            ctx.case(case, dkey=(h8(repr((bp["atoms"], bp["bonds"], bp["pos"]))), pose),
                     nontrivial=bool(first and first["nontrivial"]),
                     sample={"molecule": brief_bp(bp, pose),
                             "gained(element,neighbours,hydrogens)": first["gained"][:8]}
                     if first and first["nontrivial"] and pose in ("gen", "-z") else None)
            if first:
                ctx.count("hydrogens.added", first["n_new"])
            # the second call names the same atoms (an index counted from the end means another atom by now)
            args2 = tuple(x + len(bp["atoms"]) if type(x) is int and x < 0 else x for x in args)
            _second_call(ctx, contract, mol, args2, case, first, **witness)
            # the same atoms named by numpy integers (what np.argmin / np.where / np.flatnonzero hand out), on a fresh copy
            if chosen and pose == "gen":
                import numpy as np

                r = ctx.rng(spec["chunk"], j, "np-args")
                mol_np = build(bp, coords)
                kinds = [np.int64, np.int32, np.intp, np.uint8, np.int16]
                args_np = tuple(r.choice(kinds)(i) if n == 0 or r.random() < 0.6 else mol_np.get_atom(i)
                                for n, i in enumerate(dict.fromkeys(chosen)))
                ctx.count("workload.explicit-numpy-integer-index")
                _call(ctx, contract, mol_np, args_np, case, call="numpy-integer-indices", **witness)


def _explicit_args(ctx, bp, mol, r):
    """AtomLike arguments for an explicit call: a random subset of the group 13-16 atoms, in any order, each named as
    object / index / index from the end / label / Element (the last two only where they denote that atom: it is the first
    one with that label / of that element); sometimes an atom is named twice, in the same or in another form"""
    from molli.chem import Element

    atoms = bp["atoms"]
    n_at = len(atoms)
    elig = [i for i, a in enumerate(atoms) if a["el"] in OWN_GROUP]
    chosen = [i for i in elig if r.random() < 0.5] or elig[:1]
    if r.random() < 0.5:
        r.shuffle(chosen)
    style = r.choice(["objects", "mixed", "mixed", "mixed"])

    def name(i):
        a = atoms[i]
        forms = ["object"] * 3 + ["index"] * 2 + ["negative-index"] * 2
        if isinstance(a["label"], str) and next(k for k, b in enumerate(atoms) if b["label"] == a["label"]) == i:
            forms += ["label"] * 4
        if next(k for k, b in enumerate(atoms) if b["el"] == a["el"]) == i:
            forms += ["element"] * 3
        f = "object" if style == "objects" else r.choice(forms)
        ctx.count(f"workload.explicit-{f}")
        if f == "index":
            return i
        if f == "negative-index":      # counted from the end of the atom list as it is at the call
            return i - n_at
        if f == "label":
            return a["label"]
        if f == "element":
            return Element[a["el"]]
        return mol.get_atom(i)

    args = [name(i) for i in chosen]
    # a hinted atom whose hint is smaller than the formula number is not named twice: the second mention is then a second
    # call on a hinted atom, about which the statement says nothing (number and placement next to the first batch)
    twice_ok = [i for i in chosen if atoms[i]["hint"] is None or atoms[i]["hint"] >= atoms[i]["formula"]]
    if twice_ok and r.random() < 0.45:
        for i in r.sample(twice_ok, min(len(twice_ok), r.choice([1, 1, 2]))):
            args.insert(r.randrange(len(args) + 1), name(i))
            ctx.count("workload.explicit-atom-named-twice")
            e = atoms[i].get("expected", 0)
            if atoms[i]["hint"] is None and e:
                ctx.count("workload.explicit-atom-named-twice.gaining-by-formula")
            elif atoms[i]["hint"]:
                ctx.count("workload.explicit-atom-named-twice.gaining-by-hint")
    return tuple(args), chosen


def np_round(c):
    return [[round(float(x), 6) for x in row] for row in c][:14]


def _count_workload(ctx, bp):
    neigh = {}
    bv = {}
    types = {}
    for i, j, bt, fo in bp["bonds"]:
        o = _bp_order(bt, fo)
        for a, b in ((i, j), (j, i)):
            neigh.setdefault(a, []).append(b)
            bv[a] = bv.get(a, 0.0) + o
            types.setdefault(a, []).append(bt)
    for i, a in enumerate(bp["atoms"]):
        if a["el"] not in OWN_GROUP:
            continue
        if a["q"]:
            ctx.count("workload.charged-centre")
        if a["s"]:
            ctx.count("workload.radical-centre")
        if a["hint"] is not None:
            ctx.count("workload.hinted-centre")
        if not neigh.get(i):
            ctx.count("workload.zero-neighbour-centre")
        if a["hint"] is not None:
            continue
        # ---- what follows is counted for hint-free atoms only (the formula decides)
        v = bv.get(i, 0.0)
        if v != math.floor(v):
            ctx.count("workload.non-integer-bonded-valence")
        e = own_expected(a["el"], a["q"], a["s"], v)
        if a["el"] not in ORGANIC and e:
            ctx.count("workload.heavy-p-block-atom-gaining")
            ctx.count(f"workload.gaining-element.{a['el']}")
        if e and a["atype"] in PLACEHOLDER_ATYPES:
            ctx.count("workload.placeholder-typed-atom-gaining")
        elif e and a["atype"] not in BASIC_ATYPES:
            ctx.count("workload.specially-typed-atom-gaining")
        # bond types whose order decides the number for this atom (another order would give another number)
        mine = types.get(i, [])
        if "Amide" in mine and own_expected(a["el"], a["q"], a["s"], v + 0.5) != e:
            ctx.count("workload.amide-bond-decides-count")
        if ("Dummy" in mine or "NotConnected" in mine) and own_expected(a["el"], a["q"], a["s"], v + 1.0) != e:
            ctx.count("workload.zero-order-bond-decides-count")
        if any(t in ("Quadruple", "Quintuple", "Sextuple") for t in mine):
            ctx.count("workload.quadruple-or-higher-bond")
        if any(t in OPEN_ORDER for t in mine):
            ctx.count("workload.bond-of-undefined-order")
    if bp["explicit"]:
        ctx.count("workload.explicit-atom-arguments")
    if bp["cls"] == "Structure":
        ctx.count("workload.structure-class")


def _crosscheck_tables(ctx, groups, radii):
    """the harness' own group table against the YAML (evidence that the oracle is independent but not eccentric)"""
    ctx.count("tables.group-crosscheck")
    mine = {s for s, g in OWN_GROUP.items()}
    theirs = {s for s, g in groups.items() if g in (13, 14, 15, 16)}
    wrong = sorted(mine ^ theirs) + sorted(s for s in mine & theirs if OWN_GROUP[s] != groups[s])
    if wrong:
        ctx.violation("group-table-disagrees-with-periodic-table", case=["tables"], elements=wrong[:10])
    missing = [s for s in list(OWN_GROUP) + ["H"] if s not in radii]
    if missing:
        ctx.violation("covalent-radius-missing", case=["tables"], elements=missing)


def _run_parse_script(spec, ctx, contract):
    """the contract stays on while molli's own `molli parse --hadd` entry point processes CDXML files in-process"""
    import molli as ml
    from molli.scripts import parse

    root = os.path.dirname(os.path.abspath(ml.files.__file__))
    contract.mode = "3d"
    for fname in ("charges_mult.cdxml", "parser_demo2.cdxml", "BOX_cores.cdxml"):
        case = ["parse-script", fname]
        if not ctx.want(case) or not os.path.exists(os.path.join(root, fname)):
            continue
        before = contract.counters.get("contract.calls", 0)
        try:
            parse.molli_main([os.path.join(root, fname), "-o", str(ctx.tmp / (fname + ".mlib")), "--hadd", "--overwrite"])
        except (Exception, SystemExit) as e:  # noqa  (storing the result is not this property's business)
            ctx.count("parse-script.raised")
            ctx.note("parse_script_errors", [f"{fname}: {e!r}"[:200]])
        calls = contract.counters.get("contract.calls", 0) - before
        ctx.count("parse-script.contract-calls", calls)
        ctx.case(case, dkey=("parse-script", fname), nontrivial=calls > 0,
                 sample={"entry_point": "molli.scripts.parse.molli_main --hadd", "file": fname, "contract_calls": calls})
        _report(ctx, contract, case, file=fname, via="molli parse --hadd")


def _run_bundled(spec, ctx, contract):
    import molli as ml
    from vmon.models.c16_drawing_hints import drawn_fragments, judge as judge_hints

    root = os.path.dirname(os.path.abspath(ml.files.__file__))
    # ---- CDXML fragments: parse, then make the implicit hydrogens explicit (what `molli parse --hadd` does)
    contract.mode = "3d"   # strict everywhere; flat three-neighbour centres are skipped as degenerate
    for fname in CDXML_FILES:
        path = os.path.join(root, fname)
        if not os.path.exists(path):
            ctx.count("cdxml.file-missing")
            continue
        cf = ml.CDXMLFile(path)
        ctx.count("cdxml.files")
        drawn = drawn_fragments(path)        # the hints as the CDXML text states them (own XML walk)
        for key in list(cf.keys()):
            case = ["cdxml", fname, key]
            if not ctx.want(case):
                continue
            mol = cf[key]
            hinted = [a.attrib.get(HINT) for a in mol.atoms if a.attrib.get(HINT) is not None]
            # "the number its drawing hint states": the hints the molecule carries into the call are those of the drawing
            verdict, info = judge_hints(drawn, [(int(a.element), a.formal_charge, a.attrib.get(HINT))
                                                for a in mol.atoms if int(a.element) > 0])
            if verdict == "match":
                ctx.count("cdxml.text.molecules-compared")
                ctx.count("cdxml.text.hints-compared", info["hints"])
                ctx.count("cdxml.text.zero-hints-compared", info["zero_hints"])
                ctx.count("cdxml.text.nonzero-hints-compared", info["nonzero_hints"])
            elif verdict == "no-candidate":
                ctx.count("cdxml.text.no-drawn-fragment-of-this-composition")
            else:
                ctx.violation(f"drawing-hint-differs-from-cdxml-text:{verdict}", case=case, file=fname, mol_key=key, **info)
            first = _call(ctx, contract, mol, (), case, file=fname, mol_key=key)
            ctx.count("cdxml.molecules")
            ctx.count("cdxml.hinted-atoms", len(hinted))
            if first:
                pre = first["pre"]
                ctx.count("cdxml.nonzero-hint-honoured",
                          sum(1 for i in pre["targets"] if pre["hints"][i] and pre["source"][i] == "hint"))
                ctx.count("hydrogens.added", first["n_new"])
            ctx.case(case, dkey=("cdxml", fname, key), nontrivial=bool(first and first["nontrivial"]),
                     sample={"file": fname, "key": key, "n_atoms": first["n_old"] if first else None,
                             "hydrogens_added": first["n_new"] if first else None, "hints": len(hinted)})
            _second_call(ctx, contract, mol, (), case, first, file=fname, mol_key=key)
    # ---- mol2 files (3-D)
    contract.mode = "3d"
    todo = [(fname, os.path.join(root, fname), (ml.Molecule, ml.Structure)) for fname in MOL2_FILES]
    big = os.path.join(root, MOL2_HEAD_OF[0])
    if os.path.exists(big):
        head = str(ctx.tmp / ("head_of_" + MOL2_HEAD_OF[0]))
        with open(big, "rt") as f, open(head, "wt") as g:
            g.write(_mol2_head(f.read(), MOL2_HEAD_OF[1]))
        todo.append(("head_of_" + MOL2_HEAD_OF[0], head, (ml.Molecule,)))
    for fname, path, classes in todo:
        if not os.path.exists(path):
            ctx.count("mol2.file-missing")
            continue
        for cls in classes:
            case = ["mol2", fname, cls.__name__]
            if not ctx.want(case):
                continue
            mol = cls.load_mol2(path)
            first = _call(ctx, contract, mol, (), case, file=fname)
            ctx.count("mol2.hadd_test" if fname == "hadd_test.mol2" else "mol2.other")
            if first:
                pre = first["pre"]
                for i in pre["targets"]:
                    if pre["source"][i] != "formula":
                        continue
                    e = pre["expected"][i]
                    amide = sum(1 for b in pre["bonds"] if getattr(b.btype, "name", "") == "Amide"
                                and (b.a1 is pre["atoms"][i] or b.a2 is pre["atoms"][i]))
                    if amide and own_expected(pre["symbols"][i], pre["atoms"][i].formal_charge,
                                              pre["atoms"][i].formal_spin, pre["bv"][i] + 0.5 * amide) != e:
                        ctx.count("mol2.amide-bond-decides-count")
            ctx.case(case, dkey=("mol2", fname, cls.__name__), nontrivial=bool(first and first["nontrivial"]),
                     sample={"file": fname, "cls": cls.__name__, "n_atoms": first["n_old"] if first else None,
                             "hydrogens_added": first["n_new"] if first else None})
            if first:
                ctx.count("hydrogens.added", first["n_new"])
            _second_call(ctx, contract, mol, (), case, first, file=fname)


def _mol2_head(text, n_atoms):
    """the first residues of a one-molecule mol2 text: atoms 1..N (N <= n_atoms, cut where a residue ends) and the bonds
    among them; plain text surgery, so that the library's reader sees genuine records"""
    sections = {}
    name = None
    for line in text.splitlines():
        if line.startswith("@<TRIPOS>"):
            name = line.strip()[9:]
            sections.setdefault(name, [])
        elif name is not None and line.strip():
            sections[name].append(line)
    atoms = [l for l in sections["ATOM"] if int(l.split()[0]) <= n_atoms + 1]
    if len(atoms) > n_atoms:                       # drop the residue that was cut through
        cut = atoms[-1].split()[6]
        while atoms and atoms[-1].split()[6] == cut:
            atoms.pop()
    keep = {l.split()[0] for l in atoms}
    bonds = [l.split() for l in sections["BOND"]]
    bonds = [b for b in bonds if b[1] in keep and b[2] in keep]
    mol = list(sections["MOLECULE"])
    mol[1] = f" {len(atoms)} {len(bonds)} 0 0 0"
    out = ["@<TRIPOS>MOLECULE"] + mol + ["", "@<TRIPOS>ATOM"] + atoms + ["@<TRIPOS>BOND"]
    out += [f"{k + 1:6d} {b[1]:>5s} {b[2]:>5s} {b[3]}" for k, b in enumerate(bonds)]
    return "\n".join(out) + "\n"
