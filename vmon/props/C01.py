"""
C01 -- library round trip (.mlib / .clib): what is stored is what is read back.

Monitor shape: round-trip oracle.  Every generated Molecule / ConformerEnsemble is written
into a real MoleculeLibrary / ConformerLibrary inside a writing() session and read back through
(a) the same handle, (b) a freshly constructed read-only library object and (c, thorough) a fresh
process; deep snapshots are compared field by field.
"""
from __future__ import annotations

import pickle
import subprocess
import sys

ID = "C01"
LEVEL = "exploration"
RULE = ("seeded random molecules (0..40 atoms, all 119 elements, every enum member, None/empty/unicode labels, "
        "isotopes, nested msgpack-able attribs incl. numpy arrays, NaN/inf/1e30/-0.0 coordinates, 0..dense bonds) and "
        "ensembles (0..6 conformers, 4 constructor routes) written to v2 and legacy v1 libraries with buffer sizes "
        "{-1,0,4096,1e6}; non-trivial = at least one atom and one non-default field; distinct by snapshot hash")
ASSUMPTIONS = [
    "floats (coordinates, partial charges, weights, f_order, float attributes) are compared at single-float precision "
    "(|a-b| <= 1.2e-7*max(|a|,|b|) + 1e-38, NaN=NaN, inf=inf) because the format stores single floats",
    "msgpack has one sequence type: list and tuple inside attribs compare as sequences; enum members compare by value",
    "v1 comparison is restricted to the v1 schema (no formal charge/spin, no attribs)",
]
REQUIRED = {"roundtrip.v2.mol": 50, "roundtrip.v2.ens": 20, "roundtrip.v1.mol": 10, "roundtrip.v1.ens": 10,
            "read.fresh-handle": 50, "source-unchanged": 50, "read.again-after-editing-previous-result": 50,
            "source.atoms-lent-to-another-structure": 20, "source.large-text-attribute": 10, "library.created-over-a-legacy-file": 3, "library.other-format-version-used-earlier-in-process": 3, "read.failed-decode-before-good-reads": 5}
CHUNK_TIMEOUT = 900

RTOL, ATOL = 1.2e-7, 1e-38
V1_ATOM = ("element", "isotope", "label", "atype", "stereo", "geom")
V1_BOND = ("a1", "a2", "label", "btype", "stereo", "f_order")


def plan(tier, seed):
    n = 48 if tier == "quick" else 320
    per = 50 if tier == "quick" else 120
    specs = []
    for i in range(n):
        specs.append({"chunk": i, "n": per, "kind": "mol" if i % 3 != 2 else "ens",
                      "version": 2 if i % 4 != 3 else 1,
                      "bufsize": [-1, 0, 4096, 10**6][(i // 2) % 4],
                      "fresh_process": tier == "thorough" and i % 8 == 0})
    return specs


def restrict_v1(s):
    s = dict(s)
    s.pop("attrib", None)
    s["atoms"] = [{k: a[k] for k in V1_ATOM} for a in s["atoms"]]
    s["bonds"] = [{k: b[k] for k in V1_BOND} for b in s.get("bonds", [])]
    return s


def nondefault(s):
    if not s["atoms"]:
        return False
    for a in s["atoms"]:
        if a["isotope"] is not None or a["atype"] != 1 or a["stereo"] != 0 or a["geom"] != 0 \
                or a["formal_charge"] or a["formal_spin"] or a["attrib"] or a["label"]:
            return True
    return bool(s.get("bonds")) or bool(s.get("attrib"))


def make_v1_file(path):
    from molli.storage.ukvfile import UKVFile

    with UKVFile(path, mode="w", h1=b"ML10Library"):
        pass


def run_chunk(spec, ctx):
    import numpy as np
    import molli as ml
    from vmon import gen
    from vmon.snap import snap, diff, snap_hash, brief, mech_field

    kind, version = spec["kind"], spec["version"]
    Lib = ml.MoleculeLibrary if kind == "mol" else ml.ConformerLibrary
    ext = ".mlib" if kind == "mol" else ".clib"
    path = ctx.tmp / f"lib{ext}"
    other_lib = None
    if spec["chunk"] % 5 == 3:
        # a library of the OTHER format version was opened (and used) earlier in this process and is still around:
        # a conversion of legacy files to the current format, or the reverse; each handle keeps its own format
        opath = ctx.tmp / f"other{ext}"
        if version == 2:
            make_v1_file(opath)
            other_lib = Lib(opath, readonly=False)
        else:
            other_lib = Lib(opath, readonly=False, overwrite=True)
        orng = ctx.rng(spec["chunk"], "other-library")
        ox = gen.molecule(orng, rich=True) if kind == "mol" else gen.ensemble(orng, rich=True)
        with other_lib.writing():
            other_lib["o"] = ox
        with other_lib.reading():
            _ = other_lib["o"]
        ctx.count("library.other-format-version-used-earlier-in-process")
    if version == 1:
        make_v1_file(path)
        lib = Lib(path, readonly=False, bufsize=spec["bufsize"])
    elif spec["chunk"] % 5 == 4:
        # a current-format library created by overwriting a legacy (v1) file of the same name
        make_v1_file(path)
        ctx.count("library.created-over-a-legacy-file")
        lib = Lib(path, readonly=False, overwrite=True, bufsize=spec["bufsize"], comment="c01 é")
    else:
        lib = Lib(path, readonly=False, overwrite=True, bufsize=spec["bufsize"], comment="c01 é")

    # ---- generate
    objs = {}
    keys = []
    lent = []
    for j in range(spec["n"]):
        case = (spec["chunk"], j)
        rng = ctx.rng(*case)
        if kind == "mol":
            x = gen.molecule(rng, rich=True)
        else:
            x = gen.ensemble(rng, rich=True)
        key = rng.choice([f"k{j}", f"key with space {j}", f"ü{j}", f"{j}" + "x" * 200, f"{j}/slash"])
        # a few objects carry a large record: a long text attribute (a program log kept with the molecule), a long label
        if rng.random() < 0.04:
            x.attrib["log"] = "line of a program log\n" * rng.choice([3000, 3200, 4000])      # 66-88 kB
            ctx.count("source.large-text-attribute")
            if x.n_atoms and rng.random() < 0.5:
                x.atoms[0].label = "L" * 70000
        # some objects have lent (some of) their atoms to another structure before they are stored: atoms given to a
        # constructor without copy_atoms are adopted by it (their parent link is re-pointed), the object itself is unchanged
        if x.n_atoms >= 2 and rng.random() < 0.2:
            picked = rng.sample(list(x.atoms), rng.randrange(1, x.n_atoms + 1))
            helper = ml.Promolecule(picked)
            ctx.count("source.atoms-lent-to-another-structure")
            if rng.random() < 0.5:
                lent.append(helper)          # the other structure stays alive ...
            else:
                del helper                   # ... or is dropped again
        objs[key] = (case, x)
        keys.append(key)

    tag = f"v{version}.{kind}"
    before = {}

    def j_of(key):
        return objs[key][0][1]

    # ---- write in 1..3 sessions
    nsess = 1 + spec["chunk"] % 3
    for s in range(nsess):
        with lib.writing():
            for key in keys[s::nsess]:
                case, x = objs[key]
                if not ctx.want(case):
                    continue
                before[key] = snap(x)
                lib[key] = x
                after = snap(x)
                ctx.count("source-unchanged")
                d = diff(before[key], after)
                if d:
                    ctx.violation(f"store-alters-source:{tag}:{mech_field(d[0][0])}", case=case, diff=d[:4])

    def check(key, y, route):
        case, x = objs[key]
        sx = before[key]
        sy = snap(y, parents=True)
        par = sy.pop("parents")
        if version == 1:
            a, b = restrict_v1(sx), restrict_v1(sy)
        else:
            a, b = sx, sy
        d = diff(a, b, rtol=RTOL, atol=ATOL)
        ctx.count(f"roundtrip.{tag}")
        ctx.count(f"read.{route}")
        if d:
            field = mech_field(d[0][0])
            ctx.violation(f"roundtrip-differs:{tag}:{field}", case=case, route=route, diff=d[:5], obj=brief(x))
        if par:
            ctx.violation(f"readback-parent-or-index-wrong:{tag}:{par[0][0]}", case=case, route=route, bad=par[:4])
        return y

    def reread_after_mutation(lib_, key, y, route):
        """what is read back is what is STORED: editing a returned object must not change the next read"""
        case, x = objs[key]
        try:
            y.name = "edited-after-read"
            y.charge = (y.charge or 0) + 7
            y.attrib["edited"] = True
            if y.n_atoms:
                y.atoms[0].label = "EDITED"
                y.atoms[-1].formal_charge = 9
                y.coords[...] = 12345.0
                y.atomic_charges[...] = -9.0
            if kind == "ens" and y.n_conformers:
                y.weights[...] = 77.0
        except Exception:  # noqa
            return
        try:
            y2 = lib_[key]
        except Exception as e:  # noqa
            ctx.violation(f"read-raises:{tag}:second-read:{type(e).__name__}", case=case, route=route)
            return
        ctx.count("read.again-after-editing-previous-result")
        sy = snap(y2)
        a, b = (restrict_v1(before[key]), restrict_v1(sy)) if version == 1 else (before[key], sy)
        d = diff(a, b, rtol=RTOL, atol=ATOL)
        if d:
            ctx.violation(f"second-read-differs-from-stored:{tag}:{d[0][0].split('[')[0].strip('.')}", case=case, route=route,
                          diff=d[:4])

    # ---- a record that is not a molecule at all sits in the same file (written through the generic Collection API);
    # reading it must fail without disturbing any later read in this process
    if ctx.only is None:
        from molli.storage import Collection, UkvCollectionBackend
        raw = Collection(path, UkvCollectionBackend, readonly=False)
        with raw.writing():
            raw["~garbage~"] = bytes([0x9A, 0x01, 0xC4])        # truncated msgpack array
        before_garbage = True
    else:
        before_garbage = False

    # ---- read back: same handle
    with lib.reading():
        if before_garbage:
            try:
                lib["~garbage~"]
                ctx.violation(f"garbage-record-decoded-as-an-object:{tag}")
            except Exception:  # noqa
                ctx.count("read.failed-decode-before-good-reads")
        listed = set(lib.keys()) - {"~garbage~"}
        for key in keys:
            case, x = objs[key]
            if key not in before:
                continue
            s = before[key]
            ctx.case(case, dkey=snap_hash(s), nontrivial=nondefault(s),
                     sample={"key": key, "kind": tag, "obj": brief(x)})
            if key not in listed:
                ctx.violation(f"key-not-listed:{tag}", case=case, key=key)
                continue
            try:
                y = lib[key]
            except Exception as e:  # noqa
                ctx.violation(f"read-raises:{tag}:{type(e).__name__}:{_where(e)}", case=case, route="same-handle",
                              err=repr(e)[:300], obj=brief(x))
                continue
            y = check(key, y, "same-handle")
            if j_of(key) % 2 == 0:
                reread_after_mutation(lib, key, y, "same-handle")
        if ctx.only is None and listed != set(before):
            ctx.violation(f"key-set-differs:{tag}", extra=sorted(listed - set(before))[:5],
                          missing=sorted(set(before) - listed)[:5])

    # ---- read back: fresh read-only library object, reversed order
    lib2 = Lib(path, readonly=True)
    with lib2.reading():
        if before_garbage:
            try:
                lib2["~garbage~"]
            except Exception:  # noqa
                pass
        for key in reversed(keys):
            if key not in before:
                continue
            case, x = objs[key]
            try:
                y = lib2[key]
            except Exception as e:  # noqa
                ctx.violation(f"read-raises:{tag}:{type(e).__name__}:{_where(e)}", case=case, route="fresh-handle",
                              err=repr(e)[:300])
                continue
            y = check(key, y, "fresh-handle")
            if j_of(key) % 2 == 1:
                reread_after_mutation(lib2, key, y, "fresh-handle")

    # ---- read back in a fresh process (thorough): the decoded objects come back as pickles of snapshots
    if spec.get("fresh_process") and ctx.only is None:
        out = ctx.tmp / "fresh.pkl"
        code = (
            "import sys,pickle; sys.path[:0]=%r; import molli as ml; from vmon.snap import snap\n"
            "lib = ml.%s(%r, readonly=True)\n"
            "res = {}\n"
            "with lib.reading():\n"
            "    for k in lib.keys():\n"
            "        try: res[k] = snap(lib[k], parents=True)\n"
            "        except Exception as e: res[k] = repr(e)\n"
            "pickle.dump(res, open(%r,'wb'))\n" % (sys.path[:3], Lib.__name__, str(path), str(out)))
        subprocess.run([sys.executable, "-c", code], timeout=300, check=True)
        res = pickle.loads(out.read_bytes())
        for key, sy in res.items():
            if key not in before:
                continue
            case, x = objs[key]
            ctx.count("read.fresh-process")
            if isinstance(sy, str):
                ctx.violation(f"read-raises:{tag}:fresh-process", case=case, err=sy[:300])
                continue
            par = sy.pop("parents")
            a, b = (restrict_v1(before[key]), restrict_v1(sy)) if version == 1 else (before[key], sy)
            d = diff(a, b, rtol=RTOL, atol=ATOL)
            if d:
                ctx.violation(f"roundtrip-differs:{tag}:fresh-process:{mech_field(d[0][0])}", case=case, diff=d[:5])
            if par:
                ctx.violation(f"readback-parent-or-index-wrong:{tag}:{par[0][0]}", case=case, route="fresh-process")


def _where(e):
    """innermost molli function in the traceback (names the mechanism, not the input)"""
    import traceback

    tb = traceback.extract_tb(e.__traceback__)
    for fr in reversed(tb):
        if "/molli/" in fr.filename:
            return fr.name
    return tb[-1].name if tb else "?"

TECHNIQUE = "runtime monitoring: round-trip oracle on generated objects through real library sessions (deep snapshot diff)"
LEVEL_TEXT = ("Held on the executions produced: thousands of generated molecules/ensembles per run are stored in and read back "
              "from real .mlib/.clib files (v2 and v1, four buffer sizes, same handle / fresh handle / fresh process) and "
              "compared field by field by an oracle independent of the codecs. Not a proof: reach is the generator's.")
LEVEL_NOTE = ("Trusted: the snapshot/diff code in vmon/snap.py, msgpack, numpy. Floats compared at float32 precision; "
              "v1 restricted to its schema.")
