"""
C01 -- library round trip (.mlib / .clib): what is stored is what is read back.

Monitor shape: round-trip oracle.  Every generated Molecule / ConformerEnsemble is written
into a real MoleculeLibrary / ConformerLibrary inside a writing() session and read back through
(a) lib.items() and lib[key] of the same handle, (b) a freshly constructed read-only library object,
(c) a second library that received what was read back (record-by-record copy), (d) a fresh process;
deep snapshots are compared field by field.  Source objects are also modified and stored again under
new keys, libraries of the other format version are used before / alternately, and library files are
re-created in the other format under the same path, or generated again in the same format under the same keys while
older handles are alive.  Keys are also read inside the writing session that stored them.
"""
from __future__ import annotations

import os
import pickle
import subprocess
import sys

ID = "C01"
LEVEL = "exploration"
RULE = ("seeded random molecules (0..40 atoms, all 119 elements, every enum member, None/empty/unicode/white-space labels "
        "and names, isotopes, nested msgpack-able attribs incl. numpy arrays, NaN/inf/1e30/-0.0 coordinates, partial charges "
        "and weights, real-valued fractional bond orders, 0..dense bonds, a few objects with >= 64 KiB numeric / attribute "
        "blocks) and ensembles (0..6 conformers, 4 constructor routes) written to v2 and legacy v1 libraries with buffer "
        "sizes {-1,0,4096,1e6} under plain / white-space / empty keys; objects are stored once, or modified and stored "
        "again (same session, later session, second library); what is read back is stored into a second library and read "
        "again; non-trivial = at least one atom and one non-default field; distinct by snapshot hash. Second extension: "
        "every field at its falsy-but-not-default value (f_order 0.0, isotope 0, '' labels, Unknown types, zero weights), "
        "parallel bonds in both orientations and self-bonds, text / keys that unicode normalisation would change, reads "
        "inside the writing session (equal to the snapshot at store time, nothing shared with the source object, editable), "
        "edits of the atom / bond attribute mappings of read-back objects before other keys are read, the file generated "
        "again in the same format under the same keys while older handles live, ensembles above 1 MiB (thorough tier)")
ASSUMPTIONS = [
    "floats (coordinates, partial charges, weights, f_order, float attributes) are compared at single-float precision "
    "(|a-b| <= 1.2e-7*max(|a|,|b|) + 1e-38, NaN=NaN, inf=inf) because the format stores single floats",
    "msgpack has one sequence type: list and tuple inside attribs compare as sequences; enum members compare by value",
    "v1 comparison is restricted to the v1 schema (no formal charge/spin, no attribs)",
    "'nothing else about the object changes' covers the element type and writability of the coordinate / charge / weight "
    "arrays: a read-back object can be edited like the stored one",
    "storing under a key that already exists is refused by the storage layer and is not part of the workload",
]
_REQUIRED = {"roundtrip.v2.mol": 50, "roundtrip.v2.ens": 20, "roundtrip.v1.mol": 10, "roundtrip.v1.ens": 10,
            "read.fresh-handle": 50, "source-unchanged": 50, "read.again-after-editing-previous-result": 50,
            "source.atoms-lent-to-another-structure": 20, "source.large-text-attribute": 10,
            "library.created-over-a-legacy-file": 3, "library.other-format-version-used-earlier-in-process": 3,
            "read.failed-decode-before-good-reads": 5,
            # --- added after the gap review
            "source.stored-again-after-modification": 200, "source.stored-again-in-second-library": 100,
            "source.special-partial-charges": 100, "source.special-conformer-weights": 20,
            "source.real-valued-fractional-bond-order": 300, "source.text-with-outer-white-space": 150,
            "source.multiplicity-outside-1-3": 30, "key.leading-or-trailing-white-space": 150, "key.empty": 10,
            "source.large-numeric-block.mol": 4, "source.large-numeric-block.ens": 2, "source.large-attribute-block": 20,
            "read.items": 500, "read.values": 500, "read.second-hop": 500, "read.bulk-copy": 500, "source.attribute-mapping-keyed-by-tuples": 100, "read.conversion-hop": 20,
            "read.array-kind-compared": 500,
            "library.other-format-version-constructed-later-used-alternately": 3,
            "library.path-re-created-in-other-format.v1-to-v2": 2, "library.path-re-created-in-other-format.v2-to-v1": 2,
            "library.old-handle-used-after-re-creation": 4, "read.fresh-process": 20,
            # --- added after the second gap review
            "edit.atom-and-bond-attribute-mappings-of-a-read-back-object": 300,
            "read.other-key-after-editing-previous-result": 300,
            "source.field-falsy-but-not-default": 150, "source.fractional-bond-order-zero": 60,
            "source.parallel-bonds": 40, "source.self-bond": 25,
            "source.text-not-in-composed-unicode-form": 150, "key.not-in-composed-unicode-form": 60,
            "read.inside-writing-session": 300, "read.inside-writing-session.stored-again-object": 30,
            "read.inside-writing-session.result-edited": 100,
            "library.path-generated-again-in-same-format.v1": 2, "library.path-generated-again-in-same-format.v2": 2,
            "read.old-handle-after-same-format-regeneration": 30}
_REQUIRED_THOROUGH = {"source.numeric-block-above-1MiB": 2}


def REQUIRED(tier):
    return {**_REQUIRED, **(_REQUIRED_THOROUGH if tier == "thorough" else {})}


CHUNK_TIMEOUT = 900

# Mechanisms that are silenced inside the module: none.  What the unchanged library is known to get wrong is listed in
# /verif/known_findings.json (status "open") and reported by the runner as KNOWN-FINDING lines.
KNOWN_ON_UNCHANGED_TREE = set()

RTOL, ATOL = 1.2e-7, 1e-38
V1_ATOM = ("element", "isotope", "label", "atype", "stereo", "geom")
V1_BOND = ("a1", "a2", "label", "btype", "stereo", "f_order")
# text that unicode normalisation (NFC / NFD / NFKC / NFKD) would change: decomposed letters (what macOS hands out for file
# names), compatibility characters (ligature, superscript, Angstrom / Kelvin / Ohm signs, half-width, full-width), a
# sequence in non-canonical mark order
UNI_TEXT = ["Gru\u0308bbs-e\u0301", "u\u0308", "e\u0301", "\ufb01t", "x\u00b2", "\u212b", "\u212a\u2126", "\uff76\uff9e",
            "\uff21\uff11", "a\u0323\u0307", "a\u0307\u0323", "\u1e9b\u0323", "\u00e9 and e\u0301", "\u2460"]
WS_TEXT = [" lead", "trail ", " both ", "tab\t", "\tlead-tab", "line\n", "\nline", " ", "\n", "", "in  ner",
           " nbsp ", "cr\r\n", "  two  "]
GARBAGE = "~garbage~"


def plan(tier, seed):
    n = 48 if tier == "quick" else 320
    per = 50 if tier == "quick" else 120
    specs = []
    for i in range(n):
        specs.append({"chunk": i, "n": per, "kind": "mol" if i % 3 != 2 else "ens",
                      "version": 2 if i % 4 != 3 else 1,
                      "bufsize": [-1, 0, 4096, 10**6][(i // 2) % 4],
                      "fresh_process": (tier == "thorough" and i % 8 == 0) or i % 10 == 1})
    # self-contained scenario: a library file is used, then created anew in the other format under the same path
    reps = 2 if tier == "quick" else 8
    k = 0
    for rep in range(reps):
        for kind in ("mol", "ens"):
            for direction in ("v1-to-v2", "v2-to-v1"):
                specs.append({"chunk": 10000 + k, "scenario": "re-created-path", "kind": kind, "direction": direction,
                              "bufsize": [-1, 0, 4096, 10**6][k % 4]})
                k += 1
    # self-contained scenario: the file is generated AGAIN in the same format under the same keys with other content (the
    # generating script is run again) while handles constructed earlier are alive
    k = 0
    for rep in range(1 if tier == "quick" else 4):
        for kind in ("mol", "ens"):
            for version in (2, 1):
                specs.append({"chunk": 20000 + k, "scenario": "generated-again-same-format", "kind": kind,
                              "version": version, "bufsize": [-1, 0, 4096, 10**6][(k + k // 4) % 4]})
                k += 1
    if tier == "thorough":
        # ensembles whose coordinate block exceeds 1 MiB (ordinary for conformer searches: 400 conformers x 250 atoms)
        for i, spec in enumerate(s for s in specs if s.get("kind") == "ens" and "scenario" not in s):
            if i in (1, 3, 6, 8):              # v2, v1, ... (chunks 5, 11, 20, 26)
                spec["huge"] = True
    return specs


def restrict_v1(s):
    s = dict(s)
    s.pop("attrib", None)
    s["atoms"] = [{k: a[k] for k in V1_ATOM} for a in s["atoms"]]
    s["bonds"] = [{k: b[k] for k in V1_BOND} for b in s.get("bonds", [])]
    return s


def nondefault(s):
    if not s["atoms"]:
        return False
    for a in s["atoms"]:
        if a["isotope"] is not None or a["atype"] != 1 or a["stereo"] != 0 or a["geom"] != 0 \
                or a["formal_charge"] or a["formal_spin"] or a["attrib"] or a["label"]:
            return True
    return bool(s.get("bonds")) or bool(s.get("attrib"))


def make_v1_file(path):
    from molli.storage.ukvfile import UKVFile

    with UKVFile(path, mode="w", h1=b"ML10Library"):
        pass


def selected(ctx, case):
    """replay filter: a replayed case (chunk, j, ...) / (chunk, "scenario") selects everything derived from (chunk, j)"""
    if ctx.only is None:
        return True
    o = list(ctx.only)
    return len(o) >= 2 and len(case) >= 2 and o[1] == case[1]


# ------------------------------------------------------------------------------------------------------------------
# oracle helpers (shared by the main workload and the scenarios)

class Oracle:
    def __init__(self, ctx, kind):
        import numpy as np
        from vmon import snap as S

        self.ctx, self.kind, self.np, self.S = ctx, kind, np, S

    def report(self, vkey, /, **kw):
        if vkey in KNOWN_ON_UNCHANGED_TREE:
            self.ctx.count("known-on-unchanged-tree:" + vkey)
            return
        self.ctx.violation(vkey, **kw)

    def compare(self, sx, sy, version, tag, case=None, route=None):
        """differences between what was stored and what was read, restricted to the schema of the format"""
        a, b = (restrict_v1(sx), restrict_v1(sy)) if version == 1 else (sx, sy)
        d = self.S.diff(a, b, rtol=RTOL, atol=ATOL)
        keep = []
        for e in d:
            if e[0] == ".mult" and e[1] == 0 and e[2] == 1:
                self.report(f"roundtrip-differs:{tag}:mult:zero-replaced-by-default", case=case, route=route, diff=[e])
            else:
                keep.append(e)
        return keep

    def kinds(self, x):
        """element type and writability of the numeric arrays of an object"""
        out = {}
        for f in ("coords", "atomic_charges", "weights"):
            v = getattr(x, f, None)
            if isinstance(v, self.np.ndarray):
                out[f] = (v.dtype.str, bool(v.flags.writeable))
        return out

    def kinds_check(self, k0, y, tag, case, route):
        k1 = self.kinds(y)
        self.ctx.count("read.array-kind-compared")
        for f, (dt, wr) in k0.items():
            if f not in k1:
                continue
            if k1[f][0] != dt:
                self.report(f"readback-array-kind-differs:{tag}:{f}:element-type", case=case, route=route,
                            stored=dt, read=k1[f][0])
            if k1[f][1] != wr:
                self.report(f"readback-array-kind-differs:{tag}:{f}:writability", case=case, route=route,
                            stored=wr, read=k1[f][1])

    def edit(self, y):
        """edit every part of an object in place (what any user of a read-back object may do)"""
        y.name = "edited-after-read"
        y.charge = (y.charge or 0) + 7
        y.attrib["edited"] = True
        if y.n_atoms:
            y.atoms[0].label = "EDITED"
            y.atoms[-1].formal_charge = 9
            y.atoms[y.n_atoms // 2].isotope = 99
            y.coords[...] = 12345.0
            y.atomic_charges[...] = -9.0
        if self.kind == "ens" and y.n_conformers:
            y.weights[...] = 77.0
        # below the top level: the attribute mappings of the atoms and bonds, mappings nested in attribute values
        if y.n_atoms <= 300:
            for i, a in enumerate(y.atoms):
                a.attrib["edited-atom"] = i
            for i, b in enumerate(y.bonds):
                b.attrib["edited-bond"] = i
                b.label = "EDITED-BOND"
                b.f_order = 8.5
            for holder in [y] + list(y.atoms) + list(y.bonds):
                for v in list(holder.attrib.values()):
                    if isinstance(v, dict):
                        v["edited-nested"] = True
                    elif isinstance(v, list):
                        v.append("edited-nested")
                    elif isinstance(v, self.np.ndarray) and v.flags.writeable and v.size and v.dtype.kind in "fiu":
                        v[...] = 7
            self.ctx.count("edit.atom-and-bond-attribute-mappings-of-a-read-back-object")

    def independent(self, x, y):
        """parts of the object y (read back) that are the very same Python objects as parts of the source x"""
        np = self.np
        shared = []
        if y is x:
            return ["object"]
        if y.attrib is x.attrib and x.attrib is not None:
            shared.append("attrib")
        xa = {id(a) for a in x.atoms} | {id(a.attrib) for a in x.atoms}
        if any(id(a) in xa or id(a.attrib) in xa for a in y.atoms):
            shared.append("atoms")
        xb = {id(b) for b in x.bonds} | {id(b.attrib) for b in x.bonds}
        if any(id(b) in xb or id(b.attrib) in xb for b in y.bonds):
            shared.append("bonds")
        for f in ("coords", "atomic_charges", "weights"):
            u, v = getattr(x, f, None), getattr(y, f, None)
            if isinstance(u, np.ndarray) and isinstance(v, np.ndarray) and u.size and np.shares_memory(u, v):
                shared.append(f)
        return shared

    def match_values(self, expected, values, version, tag, route):
        """values() carries no keys: the objects it yields must be, as a multiset, the objects stored"""
        S = self.S
        pool = {}
        for key, sx in expected.items():
            pool.setdefault((len(sx["atoms"]), len(sx.get("bonds", []))), []).append([key, sx, False])
        unmatched = 0
        n = 0
        for y in values:
            n += 1
            self.ctx.count("read.values")
            sy = S.snap(y)
            hit = False
            for ent in pool.get((len(sy["atoms"]), len(sy.get("bonds", []))), []):
                if ent[2]:
                    continue
                a, b = (restrict_v1(ent[1]), restrict_v1(sy)) if version == 1 else (ent[1], sy)
                d = S.diff(a, b, rtol=RTOL, atol=ATOL, limit=2)
                if not d:
                    ent[2] = hit = True
                    break
            if not hit:
                unmatched += 1
                if unmatched <= 2:
                    self.report(f"values-yields-object-that-was-not-stored:{tag}", route=route, obj=S.brief(y))
        if n != len(expected):
            self.report(f"values-count-differs:{tag}", route=route, stored=len(expected), yielded=n)


def fresh_process_snaps(libname, path, out):
    """snapshots of everything a fresh interpreter reads from the library file (or the repr of the error per key)"""
    code = (
        "import sys,pickle; sys.path[:0]=%r; import molli as ml; from vmon.snap import snap\n"
        "lib = ml.%s(%r, readonly=True)\n"
        "res = {}\n"
        "with lib.reading():\n"
        "    for k in lib.keys():\n"
        "        try:\n"
        "            y = lib[k]; res[k] = snap(y, parents=y.n_atoms <= 200)\n"
        "        except Exception as e: res[k] = repr(e)\n"
        "pickle.dump(res, open(%r,'wb'))\n" % (sys.path[:3], libname, str(path), str(out)))
    subprocess.run([sys.executable, "-c", code], timeout=300, check=True)
    return pickle.loads(open(out, "rb").read())


def enrich(rng, x, kind, ctx, np, gen):
    """values the shared generators leave out: special partial charges / weights, real-valued bond orders,
    text with outer white space, multiplicities outside 1..3"""
    special = gen.SPECIAL_FLOATS + [float("nan"), float("inf"), float("-inf")]
    if x.n_atoms and rng.random() < 0.2:
        q = np.array(x.atomic_charges, dtype=float)
        if q.size:
            for _ in range(rng.randrange(1, 4)):
                q[tuple(rng.randrange(s) for s in q.shape)] = rng.choice(special)
            x.atomic_charges = q
            ctx.count("source.special-partial-charges")
    if kind == "ens" and x.n_conformers and rng.random() < 0.3:
        w = np.array(x.weights, dtype=float)
        for _ in range(rng.randrange(1, 3)):
            w[rng.randrange(len(w))] = rng.choice(special)
        x.weights = w
        ctx.count("source.special-conformer-weights")
    if x.n_bonds and rng.random() < 0.6:
        for b in x.bonds:
            if rng.random() < 0.7:
                b.f_order = rng.choice([rng.uniform(0, 3), rng.uniform(0, 3), 4 / 3, 2 / 3, 1e-3, 0.1, 1.87654321])
        ctx.count("source.real-valued-fractional-bond-order")
    # bond records over a pair of atoms that already has one (both orientations), a bond from an atom to itself:
    # connect() accepts them, so they are part of the bond sequence that was stored
    if x.n_atoms and rng.random() < 0.12:
        def bkw():
            return dict(label=rng.choice([None, "", "again", "sigma"]), btype=rng.choice(gen.BTYPES),
                        stereo=rng.choice(gen.BSTEREO), f_order=rng.choice([1.0, 2.0, 0.0, 1.5]),
                        attrib=rng.choice([{}, {"dup": 1}, {"w": [0.5, "x"]}]))
        idx = {id(a): i for i, a in enumerate(x.atoms)}
        if x.n_bonds and rng.random() < 0.75:
            for b in rng.sample(list(x.bonds), rng.randrange(1, min(3, x.n_bonds) + 1)):
                i, k = idx[id(b.a1)], idx[id(b.a2)]
                for _ in range(rng.randrange(1, 3)):
                    if rng.random() < 0.5:
                        i, k = k, i
                    x.connect(i, k, **bkw())
            ctx.count("source.parallel-bonds")
        if rng.random() < 0.6 or not x.n_bonds:
            for _ in range(rng.randrange(1, 3)):
                i = rng.randrange(x.n_atoms)
                x.connect(i, i, **bkw())
            ctx.count("source.self-bond")
    # every field at the value that is falsy without being the field's default
    if rng.random() < 0.3:
        done = False
        if x.n_bonds:
            for b in rng.sample(list(x.bonds), rng.randrange(1, min(4, x.n_bonds) + 1)):
                b.f_order = rng.choice([0.0, 0.0, -0.0])
                if rng.random() < 0.3:
                    b.label = ""
                if rng.random() < 0.3:
                    b.btype = ml_enum(gen.BTYPES, 0)
            ctx.count("source.fractional-bond-order-zero")
            done = True
        if x.n_atoms:
            for a in rng.sample(list(x.atoms), rng.randrange(1, min(4, x.n_atoms) + 1)):
                f = rng.randrange(4)
                if f == 0:
                    a.isotope = 0
                elif f == 1:
                    a.label = ""
                elif f == 2:
                    a.atype = ml_enum(gen.ATYPES, 0)
                else:
                    a.attrib = {rng.choice(["", "z"]): rng.choice([0, 0.0, "", False, None, [], {}, b""])}
            done = True
        if rng.random() < 0.3:
            x.name = ""
            done = True
        if rng.random() < 0.3:
            x.mult = 0
            done = True
        if rng.random() < 0.3:
            x.attrib = {rng.choice(["", "z"]): rng.choice([0, 0.0, "", False, None, [], {}, b""]), **x.attrib}
            done = True
        if kind == "ens" and x.n_conformers and rng.random() < 0.5:
            x.weights = np.zeros(x.n_conformers)
            done = True
        if done:
            ctx.count("source.field-falsy-but-not-default")
    # text that a unicode normalisation would change
    if rng.random() < 0.3:
        x.name = rng.choice(UNI_TEXT) if rng.random() < 0.7 else x.name
        if x.n_atoms and rng.random() < 0.6:
            for a in rng.sample(list(x.atoms), rng.randrange(1, min(3, x.n_atoms) + 1)):
                a.label = rng.choice(UNI_TEXT)
                if rng.random() < 0.4:
                    a.attrib[rng.choice(UNI_TEXT)] = rng.choice(UNI_TEXT)
        if x.n_bonds and rng.random() < 0.5:
            for b in rng.sample(list(x.bonds), rng.randrange(1, min(3, x.n_bonds) + 1)):
                b.label = rng.choice(UNI_TEXT)
                if rng.random() < 0.4:
                    b.attrib[rng.choice(UNI_TEXT)] = [rng.choice(UNI_TEXT)]
        if rng.random() < 0.6:
            x.attrib[rng.choice(UNI_TEXT)] = [rng.choice(UNI_TEXT), {rng.choice(UNI_TEXT): rng.choice(UNI_TEXT)}]
        else:
            x.name = rng.choice(UNI_TEXT)
        ctx.count("source.text-not-in-composed-unicode-form")
    if rng.random() < 0.3:
        what = rng.randrange(4)
        if what == 0 or not x.n_atoms:
            x.name = rng.choice(WS_TEXT)
        elif what == 1:
            for a in rng.sample(list(x.atoms), rng.randrange(1, min(3, x.n_atoms) + 1)):
                a.label = rng.choice(WS_TEXT)
                if rng.random() < 0.3:
                    a.attrib[rng.choice(WS_TEXT)] = rng.choice(WS_TEXT)
        elif what == 2 and x.n_bonds:
            for b in rng.sample(list(x.bonds), rng.randrange(1, min(3, x.n_bonds) + 1)):
                b.label = rng.choice(WS_TEXT)
        else:
            x.name = rng.choice(WS_TEXT)
            x.attrib[rng.choice(WS_TEXT)] = [rng.choice(WS_TEXT), {rng.choice(WS_TEXT): rng.choice(WS_TEXT)}]
        ctx.count("source.text-with-outer-white-space")
    if rng.random() < 0.15:
        # mappings keyed by tuples (pair tables: (i, j) -> value) are legal attribute values
        tk = {(rng.randrange(5), rng.randrange(5)): rng.choice([0.875, 2, "x"]) for _ in range(rng.randrange(1, 4))}
        where = rng.randrange(3)
        if where == 0 or not x.n_atoms:
            x.attrib["pairs"] = tk
        elif where == 1:
            rng.choice(list(x.atoms)).attrib["pairs"] = tk
        elif x.n_bonds:
            rng.choice(list(x.bonds)).attrib["pairs"] = tk
        else:
            x.attrib["pairs"] = tk
        ctx.count("source.attribute-mapping-keyed-by-tuples")
    if rng.random() < 0.08:
        x.mult = rng.choice([0, 0, 4, 5, 7])
        ctx.count("source.multiplicity-outside-1-3")


def ml_enum(members, value):
    """the member of an enumeration with the given integer value"""
    return next(m for m in members if int(m) == value)


def huge_ensemble(rng, nprng, ctx, np, gen, ml):
    """an ensemble whose coordinate block exceeds 1 MiB (thorough tier only)"""
    n = rng.randrange(230, 270)
    nc = -(-(1 << 20) // (12 * n)) + rng.randrange(10, 120)
    base = gen.molecule(rng, n_atoms=n, max_atoms=n, rich=True, p_dense=0.0)
    x = ml.ConformerEnsemble(base, n_conformers=nc)
    x.coords = nprng.normal(scale=5.0, size=(nc, n, 3))
    x.atomic_charges = nprng.uniform(-1, 1, size=(nc, n))
    x.weights = nprng.random(nc)
    assert x.coords.size * 4 > (1 << 20)
    ctx.count("source.numeric-block-above-1MiB")
    return x


def large_attribute(rng, np):
    """an attribute whose record part needs a 32-bit length field in the file format (>= 64 Ki bytes / elements)"""
    v = rng.randrange(4)
    if v == 0:
        return np.arange(rng.randrange(17000, 24000), dtype="f4") * 0.5
    if v == 1:
        return rng.randbytes(rng.randrange(66000, 90000))
    if v == 2:
        return list(range(rng.randrange(66000, 70000)))
    return {i: i % 7 for i in range(rng.randrange(66000, 70000))}


def large_object(rng, nprng, kind, ctx, np, gen, ml):
    """an object whose coordinate block reaches 64 KiB (ordinary for molli: 100 conformers x 60 atoms)"""
    if kind == "mol":
        # (few bonds: connect() and Atom.idx are linear in the number of atoms)
        n = rng.randrange(5500, 6100)
        x = ml.Molecule([gen.atom(rng, rich=True) for _ in range(n)], name="large", charge=rng.choice([0, -1, 2]),
                        mult=rng.choice([1, 2]), coords=nprng.normal(scale=20.0, size=(n, 3)))
        x.attrib = gen.attrib(rng)
        for _ in range(rng.randrange(0, 12)):
            i, k = rng.sample(range(n), 2)
            if x.lookup_bond(i, k) is None:
                x.connect(i, k, label=rng.choice([None, "b"]), btype=rng.choice(gen.BTYPES), f_order=rng.uniform(0, 3))
        x.atomic_charges = nprng.uniform(-1, 1, size=n)
    else:
        n = rng.randrange(48, 72)
        nc = -(-5600 // n) + rng.randrange(0, 16)
        base = gen.molecule(rng, n_atoms=n, max_atoms=n, rich=True, p_dense=0.0)
        x = ml.ConformerEnsemble(base, n_conformers=nc)
        x.coords = nprng.normal(scale=5.0, size=(nc, n, 3))
        x.atomic_charges = nprng.uniform(-1, 1, size=(nc, n))
        x.weights = nprng.random(nc)
    ctx.count(f"source.large-numeric-block.{kind}")
    return x


def modify_source(rng, x, kind, r, np, ml):
    """the owner of a stored object goes on working with it: rename, move, retype, extend"""
    x.name = f"{x.name}-r{r}"
    x.attrib["stored-again"] = r
    x.charge = (x.charge or 0) + 1
    if x.n_atoms:
        i = rng.randrange(x.n_atoms)
        x.atoms[i].label = f"r{r}"
        x.atoms[i].formal_charge = (x.atoms[i].formal_charge or 0) + 1
        c = np.array(x.coords, dtype=float)
        if c.size:
            c[..., i, :] = [rng.gauss(0, 5) for _ in range(3)]
            x.coords = c
        q = np.array(x.atomic_charges, dtype=float)
        if q.size:
            q[..., i] = rng.uniform(-2, 2)
            x.atomic_charges = q
    if x.n_bonds and rng.random() < 0.5:
        b = x.bonds[rng.randrange(x.n_bonds)]
        b.f_order = rng.uniform(0, 3)
        b.label = f"rb{r}"
    if kind == "mol" and rng.random() < 0.4:
        x.add_atom(ml.Atom(rng.choice(["C", "N", "O", "Cl"]), label=f"added{r}"), [rng.gauss(0, 5) for _ in range(3)])
        if x.n_atoms >= 2 and rng.random() < 0.7:
            x.connect(0, x.n_atoms - 1)
    if kind == "ens" and x.n_conformers:
        w = np.array(x.weights, dtype=float)
        w[rng.randrange(len(w))] = rng.random()
        x.weights = w


def run_chunk(spec, ctx):
    if spec.get("scenario") == "re-created-path":
        return run_recreated_path(spec, ctx)
    if spec.get("scenario") == "generated-again-same-format":
        return run_generated_again(spec, ctx)
    return run_main(spec, ctx)


# ------------------------------------------------------------------------------------------------------------------
def run_main(spec, ctx):
    import numpy as np
    import molli as ml
    from vmon import gen
    from vmon.snap import snap, diff, snap_hash, brief, mech_field

    kind, version = spec["kind"], spec["version"]
    chunk = spec["chunk"]
    orc = Oracle(ctx, kind)
    Lib = ml.MoleculeLibrary if kind == "mol" else ml.ConformerLibrary
    ext = ".mlib" if kind == "mol" else ".clib"
    path = ctx.tmp / f"lib{ext}"
    opath = ctx.tmp / f"other{ext}"
    oversion = 1 if version == 2 else 2
    otag = f"v{oversion}.{kind}"
    other_lib = None
    other_objs = {}           # key -> snapshot at store time (objects stored in the library of the other version)
    other_mode = {3: "before", 1: "after"}.get(chunk % 5)

    def make_other():
        if oversion == 1:
            make_v1_file(opath)
            return Lib(opath, readonly=False)
        return Lib(opath, readonly=False, overwrite=True)

    def other_store(label, n=1):
        """store n generated objects into the library of the other format version (own writing session)"""
        with other_lib.writing():
            for i in range(n):
                orng = ctx.rng(chunk, "other-library", label, i)
                ox = gen.molecule(orng, rich=True) if kind == "mol" else gen.ensemble(orng, rich=True)
                enrich(orng, ox, kind, ctx, np, gen)
                okey = f"o-{label}-{i}"
                other_objs[okey] = snap(ox)
                other_lib[okey] = ox

    if other_mode == "before":
        # a library of the OTHER format version was opened (and used) earlier in this process and is still around:
        # a conversion of legacy files to the current format, or the reverse; each handle keeps its own format
        other_lib = make_other()
        other_store("first")
        with other_lib.reading():
            _ = other_lib["o-first-0"]
        ctx.count("library.other-format-version-used-earlier-in-process")
    if version == 1:
        make_v1_file(path)
        lib = Lib(path, readonly=False, bufsize=spec["bufsize"])
    elif chunk % 5 == 4:
        # a current-format library created by overwriting a legacy (v1) file of the same name
        make_v1_file(path)
        ctx.count("library.created-over-a-legacy-file")
        lib = Lib(path, readonly=False, overwrite=True, bufsize=spec["bufsize"], comment="c01 é")
    else:
        lib = Lib(path, readonly=False, overwrite=True, bufsize=spec["bufsize"], comment="c01 é")
    if other_mode == "after":
        # the library of the other format version is constructed AFTER the library under test, and both are used
        # alternately from here on (the conversion loop `with old.reading(), new.writing()`)
        other_lib = make_other()
        other_store("first")
        ctx.count("library.other-format-version-constructed-later-used-alternately")

    # ---- generate
    objs = {}
    keys = []
    lent = []
    again = {}                 # key -> "same" | "later" | "both": the source object is modified and stored again
    for j in range(spec["n"]):
        case = (chunk, j)
        rng = ctx.rng(*case)
        if j == 0 and spec.get("huge") and kind == "ens":
            x = huge_ensemble(rng, ctx.nprng(*case), ctx, np, gen, ml)
        elif j == 0 and chunk % 8 in (1, 7):
            x = large_object(rng, ctx.nprng(*case), kind, ctx, np, gen, ml)
        elif kind == "mol":
            x = gen.molecule(rng, rich=True)
        else:
            x = gen.ensemble(rng, rich=True)
        enrich(rng, x, kind, ctx, np, gen)
        kform = rng.randrange(10)
        if j == 7:
            key = ""
            ctx.count("key.empty")
        elif kform < 5:
            key = [f"k{j}", f"key with space {j}", f"ü{j}", f"{j}" + "x" * 200, f"{j}/slash"][kform]
        else:
            key = [f" lead {j}", f"trail {j} ", f"line {j}\n", f"\t{j}\t", f"\n {j} \r\n"][kform - 5]
            ctx.count("key.leading-or-trailing-white-space")
        if j != 7 and rng.random() < 0.12:
            key = rng.choice(UNI_TEXT) + f"{j}" + rng.choice(UNI_TEXT)
            ctx.count("key.not-in-composed-unicode-form")
        # a few objects carry a large record: a long text attribute (a program log kept with the molecule), a long label
        if rng.random() < 0.04:
            x.attrib["log"] = "line of a program log\n" * rng.choice([3000, 3200, 4000])      # 66-88 kB
            ctx.count("source.large-text-attribute")
            if x.n_atoms and rng.random() < 0.5:
                x.atoms[0].label = "L" * 70000
        if rng.random() < 0.04:
            x.attrib["block"] = large_attribute(rng, np)
            ctx.count("source.large-attribute-block")
        # some objects have lent (some of) their atoms to another structure before they are stored: atoms given to a
        # constructor without copy_atoms are adopted by it (their parent link is re-pointed), the object itself is unchanged
        if 2 <= x.n_atoms <= 100 and rng.random() < 0.2:
            picked = rng.sample(list(x.atoms), rng.randrange(1, x.n_atoms + 1))
            helper = ml.Promolecule(picked)
            ctx.count("source.atoms-lent-to-another-structure")
            if rng.random() < 0.5:
                lent.append(helper)          # the other structure stays alive ...
            else:
                del helper                   # ... or is dropped again
        if x.n_atoms <= 100 and rng.random() < 0.3:
            again[key] = rng.choice(["same", "later", "both"])
        objs[key] = (case, x)
        keys.append(key)

    tag = f"v{version}.{kind}"
    before = {}
    kinds0 = {}

    def j_of(key):
        return objs[key][0][1]

    def store(lib_, key, where="library"):
        case, x = objs[key]
        before[key] = snap(x)
        kinds0[key] = orc.kinds(x)
        lib_[key] = x
        after = snap(x)
        ctx.count("source-unchanged")
        d = diff(before[key], after)
        if d:
            orc.report(f"store-alters-source:{tag}:{mech_field(d[0][0])}", case=case, diff=d[:4])

    n_again = {}

    def store_again(key0):
        """the object stored under key0 has been modified since: it is stored under a new key"""
        case0, x = objs[key0]
        r = n_again[key0] = n_again.get(key0, 0) + 1
        case = (chunk, case0[1], "stored-again", r)
        modify_source(ctx.rng(*case), x, kind, r, np, ml)
        key = f"{key0}#{r}"
        objs[key] = (case, x)
        keys.append(key)
        ctx.count("source.stored-again-after-modification")
        store(lib, key)

    def read_in_session(key, why):
        """`lib[key]` while the writing session is open (records still in the write buffer are readable): the result is
        what was stored under the key at store time -- an equal object that shares nothing with the source object"""
        case, x = objs[key]
        try:
            y = lib[key]
        except Exception as e:  # noqa
            orc.report(f"read-raises:{tag}:inside-writing-session:{type(e).__name__}:{_where(e)}", case=case,
                       err=repr(e)[:300], why=why)
            return
        ctx.count("read.inside-writing-session")
        if n_again.get(key) or "#" in key and key.rsplit("#", 1)[0] in n_again:
            ctx.count("read.inside-writing-session.stored-again-object")
        shared = orc.independent(x, y)
        if shared:
            orc.report(f"in-session-read-shares-state-with-source-object:{tag}:{shared[0]}", case=case, shared=shared,
                       why=why)
            return                       # (editing it would edit the source: everything later would be noise)
        d = orc.compare(before[key], snap(y), version, tag, case, "inside-writing-session")
        if d:
            orc.report(f"in-session-read-differs-from-stored:{tag}:{mech_field(d[0][0])}", case=case, diff=d[:4], why=why)
        orc.kinds_check(kinds0[key], y, tag, case, "inside-writing-session")
        if y.n_atoms <= 100 and ctx.rng(*case, "edit-in-session", why).random() < 0.5:
            sx = snap(x)
            try:
                orc.edit(y)
            except Exception as e:  # noqa
                orc.report(f"readback-cannot-be-edited:{tag}:{type(e).__name__}", case=case,
                           route="inside-writing-session", err=repr(e)[:200])
                return
            ctx.count("read.inside-writing-session.result-edited")
            d = diff(sx, snap(x))
            if d:
                orc.report(f"editing-in-session-read-alters-source:{tag}:{mech_field(d[0][0])}", case=case, diff=d[:4])
            try:
                d = orc.compare(before[key], snap(lib[key]), version, tag, case, "inside-writing-session")
            except Exception as e:  # noqa
                orc.report(f"read-raises:{tag}:inside-writing-session:second-read:{type(e).__name__}", case=case)
                return
            if d:
                orc.report(f"in-session-second-read-differs-from-stored:{tag}:{mech_field(d[0][0])}", case=case,
                           diff=d[:4])

    # ---- write in 1..3 sessions (+ one later session for objects that are stored again)
    nsess = 1 + chunk % 3
    first_keys = list(keys)
    later = {s: [] for s in range(nsess + 1)}
    for s in range(nsess + 1):
        if other_mode == "after" and s > 0:
            other_store(f"between-{s}")
        with lib.writing():
            if other_mode == "after":
                sess = other_lib.reading()
                sess.__enter__()
            try:
                for key in (first_keys[s::nsess] if s < nsess else []):
                    case, x = objs[key]
                    if not selected(ctx, case):
                        continue
                    store(lib, key)
                    srng = ctx.rng(*case, "read-in-session")
                    if srng.random() < 0.25:
                        read_in_session(key, "just-stored")
                    mode = again.get(key)
                    if mode in ("same", "both"):
                        store_again(key)
                        # the source object has changed since it was stored under `key`
                        read_in_session(key, "source-stored-again-since")
                        if srng.random() < 0.5:
                            read_in_session(f"{key}#{n_again[key]}", "just-stored")
                    if mode in ("later", "both"):
                        later[ctx.rng(*case, "later-session").randrange(s + 1, nsess + 1)].append(key)
                    if srng.random() < 0.3 and ctx.only is None:
                        # a key stored earlier: in this session (write buffer or file) or in an earlier session
                        read_in_session(srng.choice(sorted(before)), "stored-earlier")
                for key in later[s]:
                    store_again(key)
                    read_in_session(key, "source-stored-again-since")
                if other_mode == "after":
                    _ = other_lib["o-first-0"]
            finally:
                if other_mode == "after":
                    sess.__exit__(None, None, None)

    edited_keys = set()

    def check(key, y, route):
        case, x = objs[key]
        sx = before[key]
        if edited_keys - {key}:
            ctx.count("read.other-key-after-editing-previous-result")
        sy = snap(y, parents=y.n_atoms <= 200)        # (Atom.idx is linear in the number of atoms)
        par = sy.pop("parents", None)
        d = orc.compare(sx, sy, version, tag, case, route)
        ctx.count(f"roundtrip.{tag}")
        ctx.count(f"read.{route}")
        if d:
            field = mech_field(d[0][0])
            orc.report(f"roundtrip-differs:{tag}:{field}", case=case, route=route, diff=d[:5], obj=brief(x))
        if par:
            orc.report(f"readback-parent-or-index-wrong:{tag}:{par[0][0]}", case=case, route=route, bad=par[:4])
        orc.kinds_check(kinds0[key], y, tag, case, route)
        return y

    def reread_after_mutation(lib_, key, y, route):
        """what is read back is what is STORED: editing a returned object must not change the next read"""
        case, x = objs[key]
        try:
            orc.edit(y)
        except Exception as e:  # noqa
            # the stored object could be edited (it was built by the same calls), what is read back must be, too
            orc.report(f"readback-cannot-be-edited:{tag}:{type(e).__name__}", case=case, route=route, err=repr(e)[:200])
            return
        edited_keys.add(key)
        try:
            y2 = lib_[key]
        except Exception as e:  # noqa
            orc.report(f"read-raises:{tag}:second-read:{type(e).__name__}", case=case, route=route)
            return
        ctx.count("read.again-after-editing-previous-result")
        d = orc.compare(before[key], snap(y2), version, tag, case, route)
        if d:
            orc.report(f"second-read-differs-from-stored:{tag}:{d[0][0].split('[')[0].strip('.')}", case=case,
                       route=route, diff=d[:4])

    # ---- read back through items(): every pair is (key, the object stored under that key)
    with lib.reading():
        seen = set()
        try:
            for key, y in lib.items():
                ctx.count("read.items")
                if key in seen:
                    orc.report(f"items-yields-key-twice:{tag}", key=key)
                seen.add(key)
                if key not in before:
                    if ctx.only is None:
                        orc.report(f"items-yields-unknown-key:{tag}", key=key)
                    continue
                d = orc.compare(before[key], snap(y), version, tag, objs[key][0], "items")
                if d:
                    orc.report(f"items-pair-differs:{tag}:{mech_field(d[0][0])}", case=objs[key][0], diff=d[:4],
                               obj=brief(objs[key][1]))
        except Exception as e:  # noqa
            orc.report(f"read-raises:{tag}:items:{type(e).__name__}:{_where(e)}", err=repr(e)[:300])
        else:
            if ctx.only is None and seen != set(before):
                orc.report(f"items-key-set-differs:{tag}", missing=sorted(set(before) - seen)[:5])
        if ctx.only is None:
            n_iter = sorted(iter(lib))
            if n_iter != sorted(before) or len(lib) != len(before) or not all(k in lib for k in before):
                orc.report(f"iteration-or-length-or-membership-differs-from-keys-stored:{tag}",
                           n_iter=len(n_iter), n_len=len(lib), n_stored=len(before))

    # ---- a record that is not a molecule at all sits in the same file (written through the generic Collection API);
    # reading it must fail without disturbing any later read in this process
    if ctx.only is None:
        from molli.storage import Collection, UkvCollectionBackend
        raw = Collection(path, UkvCollectionBackend, readonly=False)
        with raw.writing():
            raw[GARBAGE] = bytes([0x9A, 0x01, 0xC4])        # truncated msgpack array
        before_garbage = True
    else:
        before_garbage = False

    # ---- read back: same handle
    with lib.reading():
        if before_garbage:
            try:
                lib[GARBAGE]
                orc.report(f"garbage-record-decoded-as-an-object:{tag}")
            except Exception:  # noqa
                ctx.count("read.failed-decode-before-good-reads")
        listed = set(lib.keys()) - {GARBAGE}
        for key in keys:
            case, x = objs[key]
            if key not in before:
                continue
            s = before[key]
            ctx.case(case, dkey=snap_hash(s), nontrivial=nondefault(s),
                     sample={"key": key, "kind": tag, "obj": brief(x)})
            if key not in listed:
                orc.report(f"key-not-listed:{tag}", case=case, key=key)
                continue
            try:
                y = lib[key]
            except Exception as e:  # noqa
                orc.report(f"read-raises:{tag}:{type(e).__name__}:{_where(e)}", case=case, route="same-handle",
                           err=repr(e)[:300], obj=brief(x))
                continue
            y = check(key, y, "same-handle")
            if j_of(key) % 2 == 0:
                reread_after_mutation(lib, key, y, "same-handle")
        if ctx.only is None and listed != set(before):
            orc.report(f"key-set-differs:{tag}", extra=sorted(listed - set(before))[:5],
                       missing=sorted(set(before) - listed)[:5])

    # ---- read back: fresh read-only library object, reversed order
    lib2 = Lib(path, readonly=True)
    with lib2.reading():
        if before_garbage:
            try:
                lib2[GARBAGE]
            except Exception:  # noqa
                pass
        for key in reversed(keys):
            if key not in before:
                continue
            case, x = objs[key]
            try:
                y = lib2[key]
            except Exception as e:  # noqa
                orc.report(f"read-raises:{tag}:{type(e).__name__}:{_where(e)}", case=case, route="fresh-handle",
                           err=repr(e)[:300])
                continue
            y = check(key, y, "fresh-handle")
            if j_of(key) % 2 == 1:
                reread_after_mutation(lib2, key, y, "fresh-handle")

    # ---- second hop: what is read back is stored again, into a second library of the same format (the record-by-record
    # copy loop); the source objects that were stored several times go there once more, in their present state
    path2 = ctx.tmp / f"second{ext}"
    if version == 1:
        make_v1_file(path2)
        second = Lib(path2, readonly=False, bufsize=spec["bufsize"])
    else:
        second = Lib(path2, readonly=False, overwrite=True, bufsize=spec["bufsize"])
    expected2 = {}
    case2 = {}
    with lib2.reading(), second.writing():
        for key in keys:
            if key not in before:
                continue
            try:
                second[key] = lib2[key]
            except Exception as e:  # noqa
                orc.report(f"second-hop-store-raises:{tag}:{type(e).__name__}:{_where(e)}", case=objs[key][0],
                           err=repr(e)[:300])
                continue
            expected2[key] = before[key]
            case2[key] = objs[key][0]
        for key0 in n_again:
            case0, x = objs[key0]
            k2 = f"source-again:{key0}"
            expected2[k2] = snap(x)
            case2[k2] = (chunk, case0[1], "stored-again-in-second-library")
            ctx.count("source.stored-again-in-second-library")
            second[k2] = x
    second2 = Lib(path2, readonly=True)
    with second2.reading():
        listed2 = set(second2.keys())
        if listed2 != set(expected2):
            orc.report(f"key-set-differs:{tag}:second-library", extra=sorted(listed2 - set(expected2))[:5],
                       missing=sorted(set(expected2) - listed2)[:5])
        for key, sx in expected2.items():
            if key not in listed2:
                continue
            try:
                y = second2[key]
            except Exception as e:  # noqa
                orc.report(f"read-raises:{tag}:second-hop:{type(e).__name__}:{_where(e)}", case=case2[key],
                           err=repr(e)[:300])
                continue
            ctx.count("read.second-hop")
            d = orc.compare(sx, snap(y), version, tag, case2[key], "second-hop")
            if d:
                orc.report(f"second-hop-differs:{tag}:{mech_field(d[0][0])}", case=case2[key], diff=d[:4])
        try:
            orc.match_values(expected2, second2.values(), version, tag, "second-library")
        except Exception as e:  # noqa
            orc.report(f"read-raises:{tag}:values:{type(e).__name__}:{_where(e)}", err=repr(e)[:300])

    # ---- bulk copy: `new.update(old)` (the mapping interface) from the second library (same format as the library under
    # test) into a library of the CURRENT format; every record must read back from the new file like its original
    path3 = ctx.tmp / f"bulk{ext}"
    bulk = Lib(path3, readonly=False, overwrite=True, bufsize=spec["bufsize"])
    src3 = Lib(path2, readonly=True)
    try:
        with src3.reading(), bulk.writing():
            bulk.update(src3)
    except Exception as e:  # noqa
        orc.report(f"bulk-copy-raises:{tag}:{type(e).__name__}:{_where(e)}", err=repr(e)[:300])
    else:
        bulk2 = Lib(path3, readonly=True)
        with bulk2.reading():
            missing = sorted(set(expected2) - set(bulk2.keys()))
            if missing:
                orc.report(f"key-set-differs:{tag}:bulk-copy", missing=missing[:5])
            for key, sx in expected2.items():
                if key in missing:
                    continue
                try:
                    y = bulk2[key]
                except Exception as e:  # noqa
                    orc.report(f"read-raises:{tag}:bulk-copy:{type(e).__name__}:{_where(e)}", case=case2[key], err=repr(e)[:300])
                    continue
                ctx.count("read.bulk-copy")
                d = orc.compare(sx, snap(y), version, tag, case2[key], "bulk-copy")
                if d:
                    orc.report(f"bulk-copy-differs:{tag}:{mech_field(d[0][0])}", case=case2[key], diff=d[:4])

    # ---- the library of the other format version: conversion hop (records read from the library under test are stored
    # there), then everything stored there is read back through a fresh handle
    if other_lib is not None:
        conv = {}
        with lib2.reading(), other_lib.writing():
            for key in [k for k in first_keys if k in before][:12]:
                try:
                    other_lib[f"converted:{key}"] = lib2[key]
                except Exception as e:  # noqa
                    orc.report(f"conversion-store-raises:{tag}-to-{otag}:{type(e).__name__}:{_where(e)}",
                               case=objs[key][0], err=repr(e)[:300])
                    continue
                conv[f"converted:{key}"] = key
        other2 = Lib(opath, readonly=True)
        with other2.reading():
            olisted = set(other2.keys())
            if ctx.only is None and olisted != set(other_objs) | set(conv):
                orc.report(f"key-set-differs:{otag}:other-library", extra=sorted(olisted - set(other_objs) - set(conv))[:5],
                           missing=sorted((set(other_objs) | set(conv)) - olisted)[:5])
            for okey, sx in other_objs.items():
                try:
                    y = other2[okey]
                except Exception as e:  # noqa
                    orc.report(f"read-raises:{otag}:{type(e).__name__}:{_where(e)}", route="other-library",
                               err=repr(e)[:300])
                    continue
                ctx.count(f"roundtrip.{otag}")
                d = orc.compare(sx, snap(y), oversion, otag, None, "other-library")
                if d:
                    orc.report(f"roundtrip-differs:{otag}:{mech_field(d[0][0])}", route="other-library", diff=d[:5])
            for ckey, key in conv.items():
                try:
                    y = other2[ckey]
                except Exception as e:  # noqa
                    orc.report(f"read-raises:{otag}:conversion-hop:{type(e).__name__}:{_where(e)}", case=objs[key][0],
                               err=repr(e)[:300])
                    continue
                ctx.count("read.conversion-hop")
                # one of the two formats is the legacy one: only its schema survives a conversion
                d = orc.compare(before[key], snap(y), 1, otag, objs[key][0], "conversion-hop")
                if d:
                    orc.report(f"conversion-hop-differs:{tag}-to-{otag}:{mech_field(d[0][0])}", case=objs[key][0],
                               diff=d[:4])

    # ---- read back in a fresh process: the decoded objects come back as pickles of snapshots
    if spec.get("fresh_process") and ctx.only is None:
        res = fresh_process_snaps(Lib.__name__, path, ctx.tmp / "fresh.pkl")
        for key, sy in res.items():
            if key not in before:
                continue
            case, x = objs[key]
            ctx.count("read.fresh-process")
            if isinstance(sy, str):
                orc.report(f"read-raises:{tag}:fresh-process", case=case, err=sy[:300])
                continue
            par = sy.pop("parents", None)
            d = orc.compare(before[key], sy, version, tag, case, "fresh-process")
            if d:
                orc.report(f"roundtrip-differs:{tag}:fresh-process:{mech_field(d[0][0])}", case=case, diff=d[:5])
            if par:
                orc.report(f"readback-parent-or-index-wrong:{tag}:{par[0][0]}", case=case, route="fresh-process")
        if set(res) - {GARBAGE} != set(before):
            orc.report(f"key-set-differs:{tag}:fresh-process", missing=sorted(set(before) - set(res))[:5])


# ------------------------------------------------------------------------------------------------------------------
def run_recreated_path(spec, ctx):
    """A library file is used through a library object, then created anew in the OTHER format under the same path
    (conversion in place: overwrite=True over a legacy file; a legacy file copied over a current one), then used through
    new handles -- and through the handle that existed before."""
    import numpy as np
    import molli as ml
    from vmon import gen
    from vmon.snap import snap, brief, mech_field

    kind, direction, chunk = spec["kind"], spec["direction"], spec["chunk"]
    name = "path-re-created-in-other-format"
    case = (chunk, name)
    if not selected(ctx, case):
        return
    orc = Oracle(ctx, kind)
    Lib = ml.MoleculeLibrary if kind == "mol" else ml.ConformerLibrary
    ext = ".mlib" if kind == "mol" else ".clib"
    p = ctx.tmp / f"place{ext}"
    v_old, v_new = (1, 2) if direction == "v1-to-v2" else (2, 1)
    bs = spec["bufsize"]

    def objects(label, n):
        out = {}
        for i in range(n):
            rng = ctx.rng(chunk, name, label, i)
            x = gen.molecule(rng, rich=True) if kind == "mol" else gen.ensemble(rng, rich=True)
            enrich(rng, x, kind, ctx, np, gen)
            x.attrib["group"] = label                    # something only the current format keeps
            if x.n_atoms:
                x.atoms[0].formal_charge = 2
            out[f"{label}{i}"] = x
        return out

    def write(lib, objs):
        snaps = {}
        with lib.writing():
            for k, x in objs.items():
                snaps[k] = snap(x)
                lib[k] = x
        return snaps

    def verify(lib, snaps, version, route, keyfmt, must_list=None):
        """every stored object reads back through `lib`; keyfmt(what) gives the violation key"""
        tag = f"v{version}.{kind}"
        try:
            with lib.reading():
                if must_list is not None and set(lib.keys()) != set(must_list):
                    orc.report(keyfmt("key-set-differs"), case=case, route=route, listed=sorted(lib.keys())[:8],
                               stored=sorted(must_list)[:8])
                for k, sx in snaps.items():
                    try:
                        y = lib[k]
                    except Exception as e:  # noqa
                        orc.report(keyfmt(None), case=case, route=route, err=repr(e)[:300], where=_where(e),
                                   raised=type(e).__name__)
                        continue
                    ctx.count(f"roundtrip.{tag}")
                    d = orc.compare(sx, snap(y, parents=False), version, tag, case, route)
                    if d:
                        orc.report(keyfmt(mech_field(d[0][0])), case=case, route=route, diff=d[:4])
        except Exception as e:  # noqa
            orc.report(keyfmt(None), case=case, route=route, err=repr(e)[:300], where=_where(e), raised=type(e).__name__)

    def plain_key(version, route):
        tag = f"v{version}.{kind}"
        return lambda f: (f"read-raises:{tag}:{route}" if f is None else f"roundtrip-differs:{tag}:{route}:{f}")

    # 1. the file in its first format, used through a library object
    if v_old == 1:
        make_v1_file(p)
        first = Lib(p, readonly=False, bufsize=bs)
    else:
        first = Lib(p, readonly=False, overwrite=True, bufsize=bs)
    A = write(first, objects("A", 4))
    verify(first, A, v_old, "before-re-creation", plain_key(v_old, "before-re-creation"), must_list=A)

    # 2. created anew in the other format under the same path
    if v_new == 2:
        newh = Lib(p, readonly=False, overwrite=True, bufsize=bs)
        B0 = {}
    else:
        # a legacy library, filled somewhere else, is copied over the file
        q = ctx.tmp / f"legacy-source{ext}"
        make_v1_file(q)
        B0 = write(Lib(q, readonly=False), objects("L", 3))
        os.replace(q, p)
        newh = Lib(p, readonly=False, bufsize=bs)
    B = dict(B0)
    B.update(write(newh, objects("B", 4)))
    ctx.count(f"library.path-re-created-in-other-format.{direction}")
    ctx.case(case, dkey=(kind, direction, chunk), nontrivial=True,
             sample={"scenario": name, "kind": kind, "direction": direction, "stored": sorted(B)})

    # 3. read through the handle that wrote, and through handles constructed afterwards
    route = f"path-re-created-{direction}"
    verify(newh, B, v_new, route, plain_key(v_new, route), must_list=B)
    verify(Lib(p), B, v_new, route + ":later-handle", plain_key(v_new, route + ":later-handle"), must_list=B)
    if v_new == 1 and ctx.only is None or ctx.tier == "thorough":
        res = fresh_process_snaps(Lib.__name__, p, ctx.tmp / "fresh.pkl")
        tag = f"v{v_new}.{kind}"
        for k, sx in B.items():
            sy = res.get(k)
            ctx.count("read.fresh-process")
            if not isinstance(sy, dict):
                orc.report(f"read-raises:{tag}:{route}:fresh-process", case=case, err=str(sy)[:300])
                continue
            sy.pop("parents", None)
            d = orc.compare(sx, sy, v_new, tag, case, route)
            if d:
                orc.report(f"roundtrip-differs:{tag}:{route}:fresh-process:{mech_field(d[0][0])}", case=case, diff=d[:4])

    # 4. the handle that existed before the re-creation is used again: what it stores now must read back through any
    # handle, and it must read what the others stored
    ctx.count("library.old-handle-used-after-re-creation")
    known = lambda w: (lambda f: f"old-handle-after-re-creation:{kind}:{direction}:{w}")   # noqa: E731
    try:
        C = write(first, objects("C", 2))
    except Exception as e:  # noqa
        orc.report(f"old-handle-after-re-creation:{kind}:{direction}:store-raises", case=case, err=repr(e)[:300])
        return
    verify(Lib(p), C, v_new, "old-handle-write", known("record-written-through-it-unreadable"))
    verify(first, B, v_new, "old-handle-read", known("cannot-read-new-record"))


# ------------------------------------------------------------------------------------------------------------------
def run_generated_again(spec, ctx):
    """A library file is generated, read through handles that stay alive, then generated AGAIN under the same path in the
    SAME format with the same keys and other content (the generating script / notebook cell is run again).  Every handle --
    the ones constructed before the second generation included -- must read what is stored under each key NOW.
    (Own violation keys: no format change is involved, unlike the re-created-path scenario.)"""
    import numpy as np
    import molli as ml
    from vmon import gen
    from vmon.snap import snap, mech_field

    kind, version, chunk, bs = spec["kind"], spec["version"], spec["chunk"], spec["bufsize"]
    name = "path-generated-again-in-same-format"
    case = (chunk, name)
    if not selected(ctx, case):
        return
    orc = Oracle(ctx, kind)
    Lib = ml.MoleculeLibrary if kind == "mol" else ml.ConformerLibrary
    ext = ".mlib" if kind == "mol" else ".clib"
    p = ctx.tmp / f"run{ext}"
    tag = f"v{version}.{kind}"
    n_keys = 5
    keys = [f"m{i}" for i in range(n_keys - 1)] + ["u\u0308 key "]

    def generate(generation, how):
        """a new library object creates the file anew and stores one new object under every key"""
        if version == 2:
            lib = Lib(p, readonly=False, overwrite=True, bufsize=bs)
        else:
            if how == "replaced":
                q = ctx.tmp / f"fresh-legacy{ext}"
                make_v1_file(q)
                os.replace(q, p)
            else:
                make_v1_file(p)
            lib = Lib(p, readonly=False, bufsize=bs)
        snaps = {}
        with lib.writing():
            for i, k in enumerate(keys):
                rng = ctx.rng(chunk, name, generation, i)
                x = gen.molecule(rng, rich=True) if kind == "mol" else gen.ensemble(rng, rich=True)
                enrich(rng, x, kind, ctx, np, gen)
                x.name = f"generation-{generation}-{i}"
                snaps[k] = snap(x)
                lib[k] = x
        return lib, snaps

    def verify(lib, snaps, who, generation):
        try:
            with lib.reading():
                listed = set(lib.keys())
                if listed != set(snaps):
                    orc.report(f"same-format-regeneration:{tag}:{who}:key-set-differs", case=case, generation=generation,
                               listed=sorted(listed)[:8], stored=sorted(snaps)[:8])
                for k, sx in snaps.items():
                    try:
                        y = lib[k]
                    except Exception as e:  # noqa
                        orc.report(f"same-format-regeneration:{tag}:{who}:read-raises:{type(e).__name__}:{_where(e)}",
                                   case=case, generation=generation, err=repr(e)[:300])
                        continue
                    ctx.count(f"roundtrip.{tag}")
                    if generation:
                        ctx.count("read.old-handle-after-same-format-regeneration")
                    d = orc.compare(sx, snap(y, parents=False), version, tag, case, who)
                    if d:
                        orc.report(f"same-format-regeneration:{tag}:{who}:reads-other-than-stored-now:{mech_field(d[0][0])}",
                                   case=case, generation=generation, diff=d[:4])
        except Exception as e:  # noqa
            orc.report(f"same-format-regeneration:{tag}:{who}:session-raises:{type(e).__name__}:{_where(e)}", case=case,
                       generation=generation, err=repr(e)[:300])

    writer0, G0 = generate(0, "in-place")
    viewer = Lib(p)                                   # read-only handle, e.g. kept in a notebook cell
    viewer_unused = Lib(p)                            # constructed, never used before the second generation
    verify(viewer, G0, "reader-handle", 0)
    verify(writer0, G0, "writer-handle", 0)
    ctx.case(case, dkey=(kind, version, chunk), nontrivial=True,
             sample={"scenario": name, "kind": kind, "version": version, "keys": keys})
    handles = [("old-reader-handle", viewer), ("old-unused-handle", viewer_unused), ("old-writer-handle", writer0)]
    for generation in (1, 2):
        writer, G = generate(generation, "in-place" if generation == 1 else "replaced")
        ctx.count(f"library.path-generated-again-in-same-format.v{version}")
        verify(writer, G, "new-writer-handle", 0)
        for who, h in handles:
            verify(h, G, who, generation)
        verify(Lib(p), G, "later-handle", 0)
        handles.append(("old-writer-handle", writer))


def _where(e):
    """innermost molli function in the traceback (names the mechanism, not the input)"""
    import traceback

    tb = traceback.extract_tb(e.__traceback__)
    for fr in reversed(tb):
        if "/molli/" in fr.filename:
            return fr.name
    return tb[-1].name if tb else "?"

TECHNIQUE = "runtime monitoring: round-trip oracle on generated objects through real library sessions (deep snapshot diff)"
LEVEL_TEXT = ("Held on the executions produced: thousands of generated molecules/ensembles per run are stored in and read back "
              "from real .mlib/.clib files (v2 and v1, four buffer sizes; lib[key], items(), values(); same handle / fresh "
              "handle / second library / fresh process; objects stored once or modified and stored again; libraries of the "
              "other format used before, alternately, and under the same path) and compared field by field by an oracle "
              "independent of the codecs. Not a proof: reach is the generator's.")
LEVEL_NOTE = ("Trusted: the snapshot/diff code in vmon/snap.py, msgpack, numpy. Floats compared at float32 precision; "
              "v1 restricted to its schema. Mechanisms listed as open in known_findings.json are reported as KNOWN-FINDING lines "
              "until the library is repaired (tools/findings/C01-ext.json).")
