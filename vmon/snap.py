"""
vmon.snap -- deep observable snapshots of molli objects and a tolerant structural diff.

Only public accessors are used (atoms, bonds, coords, atomic_charges, weights, name,
charge, mult, attrib, parent, idx), so a refactoring that keeps the public behaviour
keeps the snapshots.
"""
from __future__ import annotations

import math
from enum import Enum

import numpy as np


def norm(v):
    """normal form of an attribute value: msgpack has one sequence type, enums are ints"""
    if isinstance(v, Enum):
        return norm(v.value)
    if isinstance(v, (bool, type(None), str, bytes)):
        return v
    if isinstance(v, (int, np.integer)):
        return int(v)
    if isinstance(v, (float, np.floating)):
        return float(v)
    if isinstance(v, np.ndarray):
        return {"__nd__": v.dtype.kind, "shape": list(v.shape), "data": [norm(x) for x in v.ravel().tolist()]}
    if isinstance(v, (list, tuple)):
        return [norm(x) for x in v]
    if isinstance(v, dict):
        d = {norm_key(k): norm(x) for k, x in v.items()}
        if type(v) is not dict:
            d["__dict_subclass__"] = type(v).__name__      # a Counter / OrderedDict / defaultdict is not a plain dict
        return d
    if isinstance(v, (set, frozenset)):
        return {"__set__": sorted((norm(x) for x in v), key=repr)}
    if type(v).__module__.startswith("molli.") and hasattr(v, "element") and hasattr(v, "atype"):
        return {"__atom__": int(v.element), "label": v.label}       # a reference to an atom kept in an attribute
    return repr(v)


def norm_key(k):
    if isinstance(k, Enum):
        return k.value
    if isinstance(k, (np.integer,)):
        return int(k)
    return k


def atom_snap(a, with_parent=False):
    d = {
        "element": int(a.element),
        "isotope": a.isotope,
        "label": a.label,
        "atype": int(a.atype),
        "stereo": int(a.stereo),
        "geom": int(a.geom),
        "formal_charge": a.formal_charge,
        "formal_spin": a.formal_spin,
        "attrib": norm(a.attrib),
    }
    return d


def bond_snap(b, index_of):
    return {
        "a1": index_of.get(id(b.a1), -1),
        "a2": index_of.get(id(b.a2), -1),
        "label": b.label,
        "btype": int(b.btype),
        "stereo": int(b.stereo),
        "f_order": float(b.f_order),
        "attrib": norm(b.attrib),
    }


def snap(x, parents=False):
    """snapshot of Promolecule .. ConformerEnsemble / Conformer / Substructure"""
    d = {"cls": type(x).__name__}
    for f in ("name", "charge", "mult"):
        if hasattr(x, f):
            d[f] = norm(getattr(x, f))
    if hasattr(x, "attrib"):
        d["attrib"] = norm(x.attrib)
    atoms = list(x.atoms)
    index_of = {id(a): i for i, a in enumerate(atoms)}
    d["atoms"] = [atom_snap(a) for a in atoms]
    if hasattr(x, "bonds"):
        try:
            d["bonds"] = [bond_snap(b, index_of) for b in x.bonds]
        except AttributeError:
            pass
    for f in ("coords", "atomic_charges", "weights"):
        try:
            v = getattr(x, f)
        except AttributeError:
            continue
        if v is not None:
            d[f] = np.array(v, copy=True)
    if parents:
        d["parents"] = parent_report(x)
    return d


def parent_report(x):
    """every atom/bond must name x as parent and its own index; evaluated without raising"""
    bad = []
    for i, a in enumerate(x.atoms):
        try:
            if a.parent is not x:
                bad.append(("atom.parent", i, type(a.parent).__name__))
            elif a.idx != i:
                bad.append(("atom.idx", i, a.idx))
        except Exception as e:  # noqa
            bad.append(("atom.parent raises", i, type(e).__name__))
    if hasattr(x, "bonds"):
        for j, b in enumerate(x.bonds):
            try:
                if b.parent is not x:
                    bad.append(("bond.parent", j, type(b.parent).__name__))
            except Exception as e:  # noqa
                bad.append(("bond.parent raises", j, type(e).__name__))
    return bad


def feq(a, b, rtol, atol):
    if isinstance(a, float) and isinstance(b, float):
        if math.isnan(a) and math.isnan(b):
            return True
        if math.isinf(a) or math.isinf(b):
            return a == b
    try:
        return abs(a - b) <= atol + rtol * max(abs(a), abs(b))
    except Exception:
        return a == b


def arr_eq(a, b, rtol, atol):
    a = np.asarray(a)
    b = np.asarray(b)
    if a.shape != b.shape:
        return False
    if a.dtype.kind not in "fiu" or b.dtype.kind not in "fiu":
        return bool(np.array_equal(a, b))
    a = a.astype(np.float64)
    b = b.astype(np.float64)
    both_nan = np.isnan(a) & np.isnan(b)
    inf = np.isinf(a) | np.isinf(b)
    with np.errstate(invalid="ignore", over="ignore"):
        close = np.abs(a - b) <= atol + rtol * np.maximum(np.abs(a), np.abs(b))
    ok = both_nan | (inf & (a == b)) | (~inf & close)
    return bool(ok.all())


def diff(a, b, rtol=0.0, atol=0.0, path="", out=None, limit=12):
    """list of (path, a, b) where the two snapshots disagree"""
    if out is None:
        out = []
    if len(out) >= limit:
        return out
    if isinstance(a, np.ndarray) or isinstance(b, np.ndarray):
        if not (isinstance(a, np.ndarray) and isinstance(b, np.ndarray)):
            out.append((path, _s(a), _s(b)))
        elif a.shape != b.shape:
            out.append((path + ".shape", a.shape, b.shape))
        elif not arr_eq(a, b, rtol, atol):
            with np.errstate(invalid="ignore"):
                bad = np.argwhere(~(np.isclose(a.astype(float), b.astype(float), rtol=rtol, atol=atol, equal_nan=True)
                                    if a.dtype.kind in "fiu" and b.dtype.kind in "fiu" else (a == b)))
            idx = tuple(bad[0]) if len(bad) else ()
            out.append((f"{path}{list(idx)}", _s(a[idx]) if idx else _s(a), _s(b[idx]) if idx else _s(b)))
        return out
    if isinstance(a, dict) and isinstance(b, dict):
        for k in sorted(set(a) | set(b), key=repr):
            if k not in a:
                out.append((f"{path}.{k}", "<absent>", _s(b[k])))
            elif k not in b:
                out.append((f"{path}.{k}", _s(a[k]), "<absent>"))
            else:
                diff(a[k], b[k], rtol, atol, f"{path}.{k}", out, limit)
        return out
    if isinstance(a, (list, tuple)) and isinstance(b, (list, tuple)):
        if len(a) != len(b):
            out.append((path + ".len", len(a), len(b)))
            return out
        for i, (x, y) in enumerate(zip(a, b)):
            diff(x, y, rtol, atol, f"{path}[{i}]", out, limit)
        return out
    if isinstance(a, bool) or isinstance(b, bool):
        if a != b:
            out.append((path, a, b))
        return out
    if isinstance(a, (int, float)) and isinstance(b, (int, float)):
        if isinstance(a, int) and isinstance(b, int):
            if a != b:
                out.append((path, a, b))
        elif not feq(float(a), float(b), rtol, atol):
            out.append((path, a, b))
        return out
    if a != b:
        out.append((path, _s(a), _s(b)))
    return out


def _s(x, n=120):
    s = repr(x)
    return s if len(s) <= n else s[:n] + "..."


def snap_hash(s) -> str:
    import hashlib

    h = hashlib.blake2b(digest_size=8)

    def feed(v):
        if isinstance(v, np.ndarray):
            h.update(str(v.shape).encode())
            h.update(np.ascontiguousarray(v).tobytes())
        elif isinstance(v, dict):
            for k in sorted(v, key=repr):
                h.update(repr(k).encode())
                feed(v[k])
        elif isinstance(v, (list, tuple)):
            h.update(b"[")
            for x in v:
                feed(x)
            h.update(b"]")
        else:
            h.update(repr(v).encode())

    feed(s)
    return h.hexdigest()


def brief(x):
    """short human-readable description of a molli object for evidence samples"""
    try:
        s = {"cls": type(x).__name__, "name": getattr(x, "name", None), "n_atoms": x.n_atoms}
        if hasattr(x, "n_bonds"):
            s["n_bonds"] = x.n_bonds
        if hasattr(x, "n_conformers"):
            s["n_conformers"] = x.n_conformers
        s["elements"] = [a.element.name for a in x.atoms[:8]]
        return s
    except Exception as e:  # noqa
        return {"cls": type(x).__name__, "err": repr(e)}


def mech_field(path: str) -> str:
    """field name for a violation key (the mechanism, not the instance): indices dropped, nothing below an
    attribute dictionary (whose keys are data): 'atoms[3].attrib.k_x[2]' -> 'atoms.attrib', 'coords[0, 1]' -> 'coords'"""
    import re

    parts = [q for q in re.sub(r"\[[^\]]*\]", "", str(path)).strip(".").split(".") if q]
    if "attrib" in parts:
        parts = parts[:parts.index("attrib") + 1]
    return ".".join(parts[:3]) or "value"
