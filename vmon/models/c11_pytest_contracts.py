"""
c11_pytest_contracts -- pytest plugin used by the C11 check (thorough tier): the repository's own test-suite as one more
workload for the rotation contracts, shared clauses (vmon/contracts.py) plus the conditioning-aware ones of c11_tight.

    python -m pytest -p vmon.models.c11_pytest_contracts <repo>/molli_test

Same report format as vmon.models.rigid_pytest_contracts (written to $VMON_CONTRACTS_OUT); the counts of the tight
clauses are merged into "counts".
"""
from __future__ import annotations

import json
import os

_STATE = {"tests": 0, "current": None, "raised": []}


def pytest_configure(config):
    from vmon.models import c11_tight

    c11_tight.install()


def pytest_runtest_setup(item):
    _STATE["current"] = item.nodeid
    _STATE["tests"] += 1


def _drain(nodeid):
    from vmon import contracts

    while contracts.RAISED:
        key, msg = contracts.RAISED.pop(0)
        _STATE["raised"].append([key, msg, nodeid])


def pytest_runtest_teardown(item, nextitem):
    _drain(item.nodeid)   # contract errors raised while this test ran (also those a test swallowed)


def pytest_sessionfinish(session, exitstatus):
    from vmon import contracts
    from vmon.models import c11_tight

    out = os.environ.get("VMON_CONTRACTS_OUT")
    if not out:
        return
    _drain(_STATE["current"])
    with open(out, "w") as f:
        json.dump({"counts": {**contracts.COUNTS, **c11_tight.COUNTS},
                   "vacuous": {**contracts.VACUOUS, **c11_tight.VACUOUS}, "raised": _STATE["raised"],
                   "tests": _STATE["tests"], "exitstatus": int(exitstatus)}, f)
