"""
Worker process of the C04 multi-process schedule workload.

    python -m vmon.models.c04_worker <json-spec>

Keeps ONE long-lived Collection handle, runs its sessions with seeded random delays and logs one JSON line per
session: interval (CLOCK_MONOTONIC ns, taken inside the session, i.e. while the lock is held), keys written,
keys seen, and every value it found wrong.

spec["readonly"]: the handle is opened the way most readers open a library (readonly=True, the default of
MoleculeLibrary(path)); such a worker only runs reading sessions.  spec["wait_exists"]: the worker does not take part in
the creation of the library (a read-only handle and a handle reached through a symbolic link to the file need an existing
file): it waits until the file is there.  Delays sit in front of every step between lock acquisition and release:
update_keys, flush, end_write / end_read (the file is closed there: buffered bytes reach the file in that step).
"""
from __future__ import annotations

import hashlib
import json
import os
import random
import sys
import time


def value_of(key: str) -> bytes:
    """self-describing value: any reader can tell a complete record from a torn one"""
    h = hashlib.sha256(key.encode()).digest()
    size = int.from_bytes(h[:2], "big") % 6000 if h[2] % 5 else (h[3] % 4) * 9000
    return (h * (size // 32 + 1))[:size]


def main():
    spec = json.loads(sys.argv[1])
    wid = spec["wid"]
    rng = random.Random(spec["seed"])
    os.chdir(spec["cwd"])
    from molli.storage import Collection, UkvCollectionBackend

    if spec.get("lock_delay"):
        # a delay in front of every lock acquisition (an existing suspension point): widens the window between
        # anything a process decided before asking for the lock and what it does once it holds it
        import fasteners

        for name in ("acquire_write_lock", "acquire_read_lock"):
            orig = getattr(fasteners.InterProcessReaderWriterLock, name)

            def delayed(self, *a, __orig=orig, **kw):
                if rng.random() < 0.6:
                    time.sleep(rng.random() * spec["lock_delay"])
                return __orig(self, *a, **kw)

            setattr(fasteners.InterProcessReaderWriterLock, name, delayed)

    log = open(spec["log"], "a", buffering=1)
    # what this interpreter's string hashing is seeded with (every worker is started with its own PYTHONHASHSEED, as any
    # two processes of a user are: nothing that is derived from hash(str) is the same in two of them)
    log.write(json.dumps({"hello": wid, "hashseed": os.environ.get("PYTHONHASHSEED"), "probe": hash("c04-probe")}) + "\n")
    payload = spec.get("payload", "bytes")
    readonly = bool(spec.get("readonly"))
    if spec.get("wait_exists"):
        # only shapes the schedule (who creates the library); decides nothing
        t0 = time.monotonic()
        while not os.path.exists(spec["path"]):
            if time.monotonic() - t0 > spec.get("wait_limit", 120):
                log.write(json.dumps({"harness": "the library did not appear while this worker waited for it"}) + "\n")
                log.close()
                return
            time.sleep(0.002)
    if payload in ("mlib", "clib"):
        import molli as ml

        Lib = ml.MoleculeLibrary if payload == "mlib" else ml.ConformerLibrary
        if readonly:
            col = Lib(spec["path"])
        else:
            col = Lib(spec["path"], readonly=False, bufsize=spec["bufsize"])
        base = ml.Molecule.load_mol2(ml.files.dendrobine_mol2)

        def enc(key):
            if payload == "clib":
                m = ml.ConformerEnsemble(base, n_conformers=2, name=key)
            else:
                m = ml.Molecule(base, name=key)
            m.attrib["tag"] = hashlib.sha256(key.encode()).hexdigest()
            return m

        def ok(key, val):
            return val.name == key and val.attrib.get("tag") == hashlib.sha256(key.encode()).hexdigest() \
                and val.n_atoms == base.n_atoms
    else:
        if readonly:
            col = Collection(spec["path"], UkvCollectionBackend)
        else:
            col = Collection(spec["path"], UkvCollectionBackend, readonly=False, bufsize=spec["bufsize"])
        enc = value_of

        def ok(key, val):
            return val == value_of(key)

    end_delayed = [False]
    # delays between lock acquisition and index refresh (inside the with statement, before the body)
    be = col._backend if hasattr(col, "_backend") else None
    if be is not None and spec.get("delay_hooks", True):
        orig_update = be.update_keys

        def slow_update():
            if rng.random() < 0.3:
                time.sleep(rng.random() * spec["max_sleep"])
            return orig_update()

        be.update_keys = slow_update
        # ... and before the flush at session exit (the records of a buffered handle reach the file here: if the lock
        # were released first, the delay lets another process in)
        orig_flush = be.flush

        def slow_flush():
            if rng.random() < 0.5:
                time.sleep(rng.random() * spec["max_sleep"])
            return orig_flush()

        be.flush = slow_flush
        # ... and before the file is closed (end_write / end_read): what the stream still buffers reaches the file in that
        # step, so it has to happen while the lock is held; a longer delay, because the processes waiting for the lock
        # poll it every 10..100 ms
        for name in ("end_write", "end_read"):
            if not callable(getattr(be, name, None)):
                continue

            def slow_end(__orig=getattr(be, name)):
                if rng.random() < spec.get("p_end_delay", 0.5):
                    end_delayed[0] = True
                    time.sleep(rng.random() * spec.get("end_delay", spec["max_sleep"]))
                return __orig()

            setattr(be, name, slow_end)

    def nap(p=0.5):
        if rng.random() < p:
            time.sleep(rng.random() * spec["max_sleep"])

    last_seen = 0
    counter = 0
    for s in range(spec["sessions"]):
        nap(0.7)
        writing = rng.random() < spec["p_write"] and not readonly
        rec = {"w": wid, "s": s, "kind": "w" if writing else "r", "bad": [], "completed": False}
        if readonly:
            rec["ro"] = True
        end_delayed[0] = False
        try:
            if writing:
                with col.writing():
                    rec["t_enter"] = time.monotonic_ns()
                    seen = sorted(col.keys())
                    rec["seen"] = seen
                    wrote = []
                    for _ in range(rng.randrange(1, 4)):
                        key = f"w{wid}-{counter}"
                        counter += 1
                        nap(0.4)
                        col[key] = enc(key)
                        wrote.append(key)
                        rec["attempted"] = list(wrote)
                    nap(0.3)
                    # read something back while still holding the lock (not always: a read moves the stream and so
                    # empties its write buffer; sessions that only store keep the last bytes buffered until the close)
                    for key in rng.sample(seen, min(2, len(seen))) if rng.random() < 0.6 else ():
                        try:
                            if not ok(key, col[key]):
                                rec["bad"].append(["wrong-value", key])
                        except Exception as e:  # noqa
                            rec["bad"].append(["unreadable:" + type(e).__name__, key])
                    rec["wrote"] = wrote
                    rec["t_exit"] = time.monotonic_ns()
            else:
                with col.reading():
                    rec["t_enter"] = time.monotonic_ns()
                    seen = sorted(col.keys())
                    rec["seen"] = seen
                    sample = rng.sample(seen, min(6, len(seen)))
                    for key in sample:
                        nap(0.2)
                        try:
                            if not ok(key, col[key]):
                                rec["bad"].append(["wrong-value", key])
                        except Exception as e:  # noqa
                            rec["bad"].append(["unreadable:" + type(e).__name__, key])
                    rec["read"] = len(sample)
                    rec["t_exit"] = time.monotonic_ns()
            rec["completed"] = True
        except Exception as e:  # noqa
            rec["error"] = repr(e)[:300]
            rec.setdefault("t_exit", time.monotonic_ns())
        if len(rec.get("seen", ())) < last_seen:
            rec["bad"].append(["key-count-decreased", f"{last_seen}->{len(rec.get('seen', ()))}"])
        last_seen = max(last_seen, len(rec.get("seen", ())))
        if end_delayed[0]:
            rec["end_delayed"] = True
        log.write(json.dumps(rec) + "\n")
    log.close()


if __name__ == "__main__":
    main()
