"""
C19 part 3 -- grid descriptors of molli.descriptor.gridbased against float64 definitions.

Every call of the real functions made here is followed by its oracle; nearest_atom_index is additionally wrapped in its
module so that the calls made internally by atomic_indicator_field (aeif) are checked with their realistic arguments.
"""
from __future__ import annotations

import hashlib
import math

import numpy as np

BAND = 1e-4          # float32 rounding band (Angstrom) excluded around sphere surfaces, cut-offs and nearest-atom ties
ELEMENTS = ["H", "C", "N", "O", "F", "P", "S", "Cl", "Br", "I", "Si", "B"]
MAXDISTS = [None, 0.5, 1.0, 2.0, 3.5, 6.0]


# ------------------------------------------------------------------------------------------------------ generators

def gen_coords(rng, n):
    if rng.random() < 0.6:      # chain with bond-like steps
        pts = [np.zeros(3)]
        for _ in range(n - 1):
            v = rng.normal(size=3)
            v /= np.linalg.norm(v)
            pts.append(pts[int(rng.integers(len(pts)))] + v * rng.uniform(1.0, 1.8))
        c = np.array(pts)
    else:                       # cloud
        c = rng.normal(scale=rng.uniform(1.0, 3.5), size=(n, 3))
    return c + rng.uniform(-15, 15, size=3) * (rng.random() < 0.7)


def rotation(rng):
    q, r = np.linalg.qr(rng.normal(size=(3, 3)))
    q = q @ np.diag(np.sign(np.diag(r)))
    if np.linalg.det(q) < 0:
        q[:, 0] = -q[:, 0]
    return q


def gen_ensemble(rng):
    import molli as ml
    from molli.chem import Atom, Molecule, ConformerEnsemble

    n = int(rng.choice([1, 2, 3, 5, 8, 12, 17, 24]))
    nc = int(rng.choice([1, 2, 3, 5]))
    if rng.random() < 0.12:
        # large ensembles (conformer searches return hundreds): sizes around powers of two, where batching would show
        nc = int(rng.choice([31, 33, 63, 64, 65, 100, 127, 129, 200, 257]))
        n = min(n, 8)
    els = [str(rng.choice(ELEMENTS)) for _ in range(n)]
    base = gen_coords(rng, n)
    confs = []
    for k in range(nc):
        if k == 0:
            c = base
        elif rng.random() < 0.5:
            c = base + rng.normal(scale=rng.uniform(0.2, 1.0), size=base.shape)
        else:
            cen = base.mean(0)
            c = (base - cen) @ rotation(rng).T + cen + rng.normal(scale=0.5, size=3)
        confs.append(c)
    cs = np.array(confs)
    mode = rng.random()
    if mode < 0.25:
        ws = np.ones(nc)
    else:
        ws = rng.uniform(0.05, 1.0, size=nc)
        if nc >= 3 and mode > 0.85:
            ws[int(rng.integers(nc))] = 0.0
    qs = rng.uniform(-1, 1, size=(nc, n))
    mol = Molecule([Atom(e, label=f"{e}{i}") for i, e in enumerate(els)], name="c19", coords=base)
    for i in range(1, n):
        mol.connect(i - 1, i)
    ens = ConformerEnsemble(mol, n_conformers=nc, coords=cs, weights=ws, atomic_charges=qs)
    return mol, ens, els


def dhash(*arrs):
    h = hashlib.blake2b(digest_size=8)
    for a in arrs:
        h.update(np.ascontiguousarray(a).tobytes() if isinstance(a, np.ndarray) else repr(a).encode())
    return h.hexdigest()


# ------------------------------------------------------------------------------------------------------ rectangular_grid

def check_grid(ctx, case, r1, r2, padding, spacing, dtype, grid):
    """violations of: full lattice, step = spacing, centred in and contained in the padded box"""
    tag = "rectangular_grid"
    det = {"r1": [float(x) for x in r1], "r2": [float(x) for x in r2], "padding": padding, "spacing": spacing, "dtype": dtype}
    ctx.count("grid.checked")
    if not isinstance(grid, np.ndarray) or grid.ndim != 2 or grid.shape[1] != 3:
        ctx.violation(f"{tag}:result-not-an-(n,3)-array", case=case, got=repr(getattr(grid, "shape", type(grid))), **det)
        return False
    if not np.isfinite(grid).all():
        ctx.violation(f"{tag}:non-finite-coordinate", case=case, **det)
        return False
    eps = float(np.finfo(np.dtype(dtype)).eps)
    g = grid.astype(np.float64)
    counts = []
    ok = True
    for ax in range(3):
        # the function itself casts the corners to `dtype`; the padded box is taken from those values
        lo = float(np.dtype(dtype).type(r1[ax])) - padding
        hi = float(np.dtype(dtype).type(r2[ax])) + padding
        ext = hi - lo
        mag = max(abs(lo), abs(hi), 1.0)
        xs = np.unique(g[:, ax])
        counts.append(len(xs))
        q = ext / spacing
        qtol = 1e-5 + 8 * eps * (mag + ext) / spacing
        nmin, nmax = math.floor(q - qtol) + 1, math.floor(q + qtol) + 1
        atol = 4 * eps * mag
        if not (nmin <= len(xs) <= nmax):
            ctx.violation(f"{tag}:point-count-along-axis-wrong", case=case, axis=ax, got=len(xs), want=[nmin, nmax], extent=ext, **det)
            ok = False
            continue
        if len(xs) > 1:
            steps = np.diff(xs)
            worst = float(np.abs(steps - spacing).max())
            if worst > 5e-6 * spacing + atol:
                ctx.violation(f"{tag}:step-differs-from-spacing", case=case, axis=ax, step=float(steps[np.abs(steps - spacing).argmax()]),
                              n=len(xs), **det)
                ok = False
        mlo, mhi = xs[0] - lo, hi - xs[-1]
        tol = 2 * atol + 1e-6 * spacing + qtol * spacing
        if mlo < -tol or mhi < -tol:
            ctx.violation(f"{tag}:point-outside-padded-box", case=case, axis=ax, margins=[mlo, mhi], box=[lo, hi], **det)
            ok = False
        if abs(mlo - mhi) > 2 * tol:
            ctx.violation(f"{tag}:not-centred-in-box", case=case, axis=ax, margins=[mlo, mhi], box=[lo, hi], **det)
            ok = False
        if max(mlo, mhi) >= spacing / 2 + tol:
            ctx.violation(f"{tag}:margin-leaves-room-for-another-point", case=case, axis=ax, margins=[mlo, mhi], **det)
            ok = False
    want = counts[0] * counts[1] * counts[2]
    uniq = len(np.unique(grid, axis=0))
    if grid.shape[0] != want or uniq != want:
        ctx.violation(f"{tag}:not-the-full-cartesian-product", case=case, rows=int(grid.shape[0]), distinct_rows=uniq,
                      per_axis=counts, **det)
        ok = False
    ctx.count("grid.points", int(grid.shape[0]))
    return ok


def grid_only_cases(spec, ctx, gb):
    """rectangular_grid on its own: degenerate axes, exact multiples, float64, negative boxes"""
    for j in range(spec["ngrid"]):
        case = ["g", spec["chunk"], j]
        if not ctx.want(case):
            continue
        rng = ctx.nprng(*case)
        mode = int(rng.integers(5))
        r1 = rng.uniform(-20, 20, 3)
        ext = rng.uniform(0.2, 9, 3)
        spacing = float(rng.choice([0.25, 0.5, 1.0, 0.1, 2.0, 0.7, float(rng.uniform(0.3, 2.5))]))
        padding = float(rng.choice([0.0, 0.0, 0.5, 1.0, 2.5, float(rng.uniform(0, 3))]))
        if mode == 0:       # exact multiples of the spacing, integer corners
            r1 = np.round(r1)
            ext = spacing * rng.integers(0, 12, 3)
        elif mode == 1:     # degenerate axes
            ext[int(rng.integers(3))] = 0.0
            if rng.random() < 0.3:
                ext[:] = 0.0
        elif mode == 2:     # box smaller than the spacing
            ext = rng.uniform(0, 1, 3) * spacing * 0.9
        r2 = r1 + ext
        dtype = "float64" if rng.random() < 0.3 else "float32"
        if np.prod(np.floor((ext + 2 * padding) / spacing) + 1) > 60000:
            spacing = float(max(spacing, ((ext + 2 * padding).prod() / 40000) ** (1 / 3)))
        kw = {}
        if padding != 0.0 or rng.random() < 0.5:
            kw["padding"] = padding
        else:
            padding = 0.0
        try:
            grid = gb.rectangular_grid(r1.tolist() if rng.random() < 0.5 else r1, r2, spacing=spacing, dtype=dtype, **kw)
        except Exception as e:  # noqa
            ctx.case(case, nontrivial=False)
            ctx.violation(f"rectangular_grid:raises:{type(e).__name__}", case=case, err=repr(e)[:300], r1=r1.tolist(), r2=r2.tolist(),
                          padding=padding, spacing=spacing, dtype=dtype)
            continue
        ctx.case(case, dkey=("g", dhash(r1, r2), padding, spacing, dtype), nontrivial=grid.shape[0] >= 8,
                 sample={"part": 3, "op": "rectangular_grid", "r1": r1.round(3).tolist(), "r2": r2.round(3).tolist(), "padding": padding,
                         "spacing": spacing, "dtype": dtype, "points": int(grid.shape[0])})
        check_grid(ctx, case, r1, r2, padding, spacing, dtype, grid)


# ------------------------------------------------------------------------------------------------------ nearest_atom_index

_DCACHE = {}     # per case: the same (grid, geometry) pair is looked at by several oracles


def dist_matrix(grid, coords):
    """float64 distances (G, A), evaluated axis by axis from the values the arrays hold"""
    g = np.asarray(grid, dtype=np.float64)
    c = np.asarray(coords, dtype=np.float64)
    key = (g.shape, hashlib.blake2b(g.tobytes(), digest_size=12).digest(), c.shape, c.tobytes())
    D = _DCACHE.get(key)
    if D is None:
        d2 = np.zeros((g.shape[0], c.shape[0]))
        for k in range(3):
            d2 += (g[:, None, k] - c[None, :, k]) ** 2
        D = _DCACHE[key] = np.sqrt(d2)
    return D


def nearest_violations(D, res, d):
    """classify each grid point of one geometry: returns dict kind -> boolean mask"""
    G = D.shape[0]
    dmin = D.min(1)
    res = np.asarray(res)
    out = {}
    valid = (res >= -1) & (res < D.shape[1])
    out["index-out-of-range"] = ~valid
    r = np.where(valid & (res >= 0), res, 0)
    dres = D[np.arange(G), r]
    has = valid & (res >= 0)
    out["atom-beyond-cutoff-returned"] = has & (dmin > d + BAND)
    out["minus-one-although-atom-within-cutoff"] = valid & (res == -1) & (dmin < d - BAND)
    out["not-the-nearest-atom"] = has & (dmin <= d + BAND) & (dres > dmin + BAND)
    return out, dmin


def check_nearest(ctx, case, kind, grid, coords_list, res, d, det, count=True):
    """kind: 'geometry' (coords_list has one entry, res (G,)) or 'ensemble' (res (nc,G))"""
    G = grid.shape[0]
    res = np.asarray(res)
    want_shape = (G,) if kind == "geometry" else (len(coords_list), G)
    if count:
        ctx.count(f"nearest.{kind}.checked")
    if res.shape != want_shape or res.dtype.kind not in "iu":
        ctx.violation(f"nearest_atom_index:{kind}:result-shape-or-dtype-wrong", case=case, got=[list(res.shape), str(res.dtype)],
                      want=list(want_shape), **det)
        return
    rows = [res] if kind == "geometry" else list(res)
    for ci, (coords, row) in enumerate(zip(coords_list, rows)):
        D = dist_matrix(grid, coords)
        masks, dmin = nearest_violations(D, row, d)
        ctx.count("nearest.points.within-cutoff", int((dmin < d - BAND).sum()))
        ctx.count("nearest.points.beyond-cutoff", int((dmin > d + BAND).sum()))
        ctx.count("nearest.points.in-band-not-decided", int((np.abs(dmin - d) <= BAND).sum()))
        nbad = {k: int(m.sum()) for k, m in masks.items() if m.any()}
        if not nbad:
            continue
        if kind == "geometry" and abs(d - 2.0) > 1e-9:
            m2, _ = nearest_violations(D, row, 2.0)
            if not any(m.any() for m in m2.values()):
                # the answer is exactly the one for the default cut-off 2.0: the requested max_dist was not used
                ctx.violation("nearest-atom-index-ignores-max-dist-for-geometry", case=case, max_dist=d, differing_points=sum(nbad.values()),
                              of=G, consistent_with_max_dist=2.0, **det)
                return
        for k, n in nbad.items():
            g = int(np.argwhere(masks[k])[0][0])
            ctx.violation(f"nearest_atom_index:{kind}:{k}", case=case, max_dist=d, conformer=ci, n_points=n, of=G, point=grid[g].tolist(),
                          returned=int(row[g]), nearest=int(D[g].argmin()), nearest_distance=float(dmin[g]),
                          returned_distance=float(D[g, row[g]]) if 0 <= row[g] < D.shape[1] else None, **det)
        return


# ------------------------------------------------------------------------------------------------------ prune / aso / aeif

def check_prune(ctx, case, grid, allcoords, kept, d, eps, det):
    ctx.count("prune.checked")
    G = grid.shape[0]
    kept = np.asarray(kept)
    if kept.ndim != 1 or (kept.size and (kept.dtype.kind not in "iu" or kept.min() < 0 or kept.max() >= G)):
        ctx.violation("prune:result-not-an-index-array-into-the-grid", case=case, got=[list(kept.shape), str(kept.dtype)], **det)
        return
    dmin = dist_matrix(grid, allcoords).min(1)
    keptmask = np.zeros(G, bool)
    keptmask[kept] = True
    far = keptmask & (dmin > d + BAND)
    near = ~keptmask & (dmin < d / (1 + eps) - BAND)
    ctx.count("prune.points.kept", int(keptmask.sum()))
    ctx.count("prune.points.dropped", int((~keptmask).sum()))
    ctx.count("prune.points.dropped-between-cutoffs", int((~keptmask & (dmin <= d)).sum()))
    if far.any():
        g = int(np.argwhere(far)[0][0])
        ctx.violation("prune:kept-point-beyond-cutoff", case=case, n_points=int(far.sum()), of=G, point=grid[g].tolist(),
                      distance=float(dmin[g]), max_dist=d, eps=eps, **det)
    if near.any():
        g = int(np.argwhere(near)[0][0])
        ctx.violation("prune:dropped-point-closer-than-cutoff-over-1-plus-eps", case=case, n_points=int(near.sum()), of=G,
                      point=grid[g].tolist(), distance=float(dmin[g]), max_dist=d, eps=eps, **det)


def field_reference(grid, coords, radii, weights, charges=None):
    """float64 definition.  Returns (reference (G,), undecided mask (G,), occupied-any mask)"""
    nc = coords.shape[0]
    G = grid.shape[0]
    per = np.zeros((nc, G))
    undec = np.zeros(G, bool)
    occ_any = np.zeros(G, bool)
    for c in range(nc):
        D = dist_matrix(grid, coords[c])
        occ = (D <= radii[None, :]).any(1)
        undec |= (np.abs(D - radii[None, :]) < BAND).any(1)
        occ_any |= occ
        if charges is None:
            per[c] = occ
        else:
            if D.shape[1] > 1:
                part = np.partition(D, 1, axis=1)
                undec |= occ & ((part[:, 1] - part[:, 0]) < BAND)
            per[c] = np.where(occ, charges[c][D.argmin(1)], 0.0)
    w = np.ones(nc) if weights is None else np.asarray(weights, dtype=np.float64)
    return (per * w[:, None]).sum(0) / w.sum(), undec, occ_any


def check_field(ctx, case, name, weighted, obs, ref, undec, occ_any, det, scale=1.0):
    tag = f"{name}:{'weighted' if weighted else 'unweighted'}"
    ctx.count(f"{name}.checked")
    ctx.count(f"{name}.{'weighted' if weighted else 'unweighted'}.checked")
    obs = np.asarray(obs)
    if obs.shape != ref.shape:
        ctx.violation(f"{tag}:result-shape-wrong", case=case, got=list(obs.shape), want=list(ref.shape), **det)
        return
    cmp = ~undec
    ctx.count(f"{name}.points.compared", int(cmp.sum()))
    ctx.count(f"{name}.points.excluded-rounding-band", int(undec.sum()))
    ctx.count(f"{name}.points.occupied", int((occ_any & cmp).sum()))
    err = np.abs(obs.astype(np.float64) - ref)
    bad = cmp & ~(err <= 1e-6 * scale)
    if bad.any():
        g = int(np.argwhere(bad)[0][0])
        what = "differs-from-occupancy-average" if name == "aso" else "differs-from-nearest-atom-charge-average"
        ctx.violation(f"{tag}:{what}", case=case, n_points=int(bad.sum()), of=int(cmp.sum()), grid_index=g, got=float(obs[g]),
                      want=float(ref[g]), **det)


# ------------------------------------------------------------------------------------------------------ the chunk

def run_desc(spec, ctx):
    import molli as ml
    import molli_xt  # noqa: F401
    from molli.chem import CartesianGeometry, Structure
    from molli.descriptor import gridbased as gb
    from vmon.props.C19 import deployed_binary, repo_root, sha256_file

    ctx.note("part3_descriptors", {
        "python_sources_sha256": {str(p): sha256_file(p) for p in
                                  (repo_root() / "molli" / "descriptor" / "gridbased.py", repo_root() / "molli" / "math" / "distance.py")},
        "imported_from": str(gb.__file__), "binary": deployed_binary(),
        "exercises": "gridbased.py of the working tree on top of the deployed extension module"})

    # ---- monitor on the real nearest_atom_index: internal calls (atomic_indicator_field) are checked too
    real_nearest = gb.nearest_atom_index
    state = {"case": None, "inside": 0}

    def monitored_nearest(grid, struct_or_ens, max_dist=2.0):
        res = real_nearest(grid, struct_or_ens, max_dist=max_dist)
        if state["inside"] and state["case"] is not None:
            try:
                if isinstance(struct_or_ens, ml.ConformerEnsemble):
                    cl, kind = list(np.asarray(struct_or_ens.coords, dtype=np.float64)), "ensemble"
                else:
                    cl, kind = [np.asarray(struct_or_ens.coords, dtype=np.float64)], "geometry"
                ctx.count("nearest.internal-calls-monitored")
                check_nearest(ctx, state["case"], kind, np.asarray(grid), cl, res, float(max_dist),
                              {"via": "atomic_indicator_field"}, count=False)
            except Exception:  # the monitor must never disturb the code under test
                ctx.count("nearest.internal-monitor-errors")
        return res

    gb.nearest_atom_index = monitored_nearest
    try:
        grid_only_cases(spec, ctx, gb)
        for j in range(spec["n"]):
            case = ["d", spec["chunk"], j]
            if ctx.want(case):
                state["case"] = case
                one_case(spec, ctx, case, gb, ml, CartesianGeometry, Structure, state)
    finally:
        gb.nearest_atom_index = real_nearest


def one_case(spec, ctx, case, gb, ml, CartesianGeometry, Structure, state):
    rng = ctx.nprng(*case)
    _DCACHE.clear()
    mol, ens, els = gen_ensemble(rng)
    coords = np.asarray(ens.coords, dtype=np.float64)          # the values the objects hold
    nc, n = coords.shape[:2]
    if nc > 16:
        ctx.count("descriptor.large-ensembles")
    radii = np.array([a.vdw_radius for a in ens.atoms], dtype=np.float64)
    weights = np.asarray(ens.weights, dtype=np.float64)
    charges = np.asarray(ens.atomic_charges, dtype=np.float64)
    padding = float(rng.choice([0.0, 0.5, 1.5, 2.5]))
    spacing = float(rng.choice([0.5, 0.7, 1.0, 1.3, float(rng.uniform(0.45, 2.0))]))
    dtype = "float64" if rng.random() < 0.2 else "float32"
    lo, hi = coords.reshape(-1, 3).min(0), coords.reshape(-1, 3).max(0)
    vol = float(np.prod(hi - lo + 2 * padding + spacing))
    if vol / spacing ** 3 > 12000:
        spacing = float((vol / 12000) ** (1 / 3)) + 0.05
    det = {"atoms": n, "conformers": nc, "elements": "".join(els)[:40], "padding": padding, "spacing": round(spacing, 4), "grid_dtype": dtype}
    try:
        grid = gb.rectangular_grid(lo, hi, padding=padding, spacing=spacing, dtype=dtype)
    except Exception as e:  # noqa
        ctx.case(case, nontrivial=False)
        ctx.violation(f"rectangular_grid:raises:{type(e).__name__}", case=case, err=repr(e)[:300], **det)
        return
    check_grid(ctx, case, lo, hi, padding, spacing, dtype, grid)
    # hand-placed points: on atoms, on sphere surfaces (fall into the excluded band), midway between two atoms (tie band)
    extra = [coords[0, 0], coords[-1, -1], coords[0, 0] + np.array([radii[0], 0, 0]), coords[0, 0] + np.array([0, 0, 2.0])]
    if n > 1:
        extra.append((coords[0, 0] + coords[0, 1]) / 2)
    grid = np.vstack([grid, np.array(extra, dtype=grid.dtype)])
    G = grid.shape[0]
    det["grid_points"] = G

    ref_aso_u, undec_aso, occ_any = field_reference(grid, coords, radii, None)
    ctx.case(case, dkey=("d", dhash(coords, grid[:3]), G, padding, spacing, dtype),
             nontrivial=G >= 8 and bool(occ_any.any()) and not bool(occ_any.all()),
             sample={"part": 3, **det, "weights": weights.round(3).tolist(), "occupied_points": int(occ_any.sum())})

    def guarded(label, fn):
        try:
            return True, fn()
        except Exception as e:  # noqa
            ctx.violation(f"{label}:raises:{type(e).__name__}", case=case, err=repr(e)[:300], **det)
            return False, None

    # ---- nearest_atom_index: single geometries of several public types, then the ensemble
    k = int(rng.integers(nc))
    geoms = [("Molecule", ml.Molecule(mol)), ("Conformer", ens[k])]
    try:
        geoms.append(("CartesianGeometry", CartesianGeometry(mol)))
        geoms.append(("Structure", Structure(mol)))
    except Exception:
        pass
    for d in MAXDISTS:
        kw = {} if d is None else {"max_dist": d}
        dd = 2.0 if d is None else d
        tname, gm = geoms[int(rng.integers(len(geoms)))] if d is not None else geoms[0]
        gcoords = np.asarray(gm.coords, dtype=np.float64)
        ok, res = guarded("nearest_atom_index:geometry", lambda: gb.nearest_atom_index(grid, gm, **kw))
        if ok:
            check_nearest(ctx, case, "geometry", grid, [gcoords], res, dd, {**det, "type": tname, "max_dist_given": d is not None})
        ok, res = guarded("nearest_atom_index:ensemble", lambda: gb.nearest_atom_index(grid, ens, **kw))
        if ok:
            check_nearest(ctx, case, "ensemble", grid, list(coords), res, dd, {**det, "max_dist_given": d is not None})

    # ---- prune
    for d, eps in [(2.0, 0.5), (float(rng.choice([0.8, 1.5, 3.0])), float(rng.choice([0.0, 0.25, 1.0])))]:
        default = d == 2.0 and eps == 0.5
        kw = {} if default else {"max_dist": d, "eps": eps}
        ok, kept = guarded("prune:ensemble", lambda: gb.prune(grid, ens, **kw))
        if ok:
            check_prune(ctx, case, grid, coords.reshape(-1, 3), kept, d, eps, {**det, "target": "ensemble"})
        ok, kept = guarded("prune:geometry", lambda: gb.prune(grid, geoms[0][1], **kw))
        if ok:
            check_prune(ctx, case, grid, np.asarray(geoms[0][1].coords, dtype=np.float64), kept, d, eps, {**det, "target": "molecule"})

    # ---- aso / aeif, unweighted and weighted
    state["inside"] = 1
    try:
        qscale = max(1.0, float(np.abs(charges).max()))
        for weighted in (False, True):
            w = weights if weighted else None
            kw = {"weighted": True} if weighted else ({} if rng.random() < 0.5 else {"weighted": False})
            ref, undec, occ = field_reference(grid, coords, radii, w)
            ok, obs = guarded("aso", lambda: gb.aso(ens, grid, **kw))
            if ok:
                check_field(ctx, case, "aso", weighted, obs, ref, undec, occ, det)
            ref, undec, occ = field_reference(grid, coords, radii, w, charges)
            ok, obs = guarded("aeif", lambda: gb.aeif(ens, grid, **kw))
            if ok:
                check_field(ctx, case, "aeif", weighted, obs, ref, undec, occ, det, scale=qscale)
        # aeif with a caller-supplied nearest-atom table (float64 argmin, -1 beyond the largest radius)
        if rng.random() < 0.5:
            near = np.empty((nc, G), dtype=np.int64)
            for c in range(nc):
                D = dist_matrix(grid, coords[c])
                near[c] = np.where(D.min(1) <= radii.max(), D.argmin(1), -1)
            ref, undec, occ = field_reference(grid, coords, radii, weights, charges)
            ok, obs = guarded("aeif", lambda: gb.aeif(ens, grid, nearest_atom_idx=near, weighted=True))
            if ok:
                ctx.count("aeif.with-supplied-nearest-table")
                check_field(ctx, case, "aeif", True, obs, ref, undec, occ, {**det, "nearest_atom_idx": "supplied"}, scale=qscale)
    finally:
        state["inside"] = 0
