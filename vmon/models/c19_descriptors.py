"""
C19 part 3 -- grid descriptors of molli.descriptor.gridbased against float64 definitions.

Every call of the real functions made here is followed by its oracle; nearest_atom_index is additionally wrapped in its
module so that the calls made internally by atomic_indicator_field (aeif) are checked with their realistic arguments.

Beyond single calls on fresh objects (round 0 of every case):
* every case goes on with the SAME objects: the ensemble (and the single geometries) are edited through the public API
  (coords / weights / atomic_charges setters, translate, rotate, scale, in-place edit of the coords array, an element
  change) and every descriptor is evaluated again on the same grid object; then a second grid of the same shape and dtype
  (shifted copy, reversed copy, jittered copy, or the same array shifted in place by the caller) is evaluated with the
  unchanged ensemble.  References are always computed from copies of the values the objects held just before the call.
* the calls are made in the documented argument forms: required positional + optional by keyword, everything positional in
  the documented order (SIGNATURES, the signatures at HEAD), everything by keyword.
* after every call all arguments (grid, ensemble coordinates / weights / charges, geometry coordinates) must still hold
  the values they had before it.
* run_desc_large: grids of 2**15 .. 2**17+ points with conformers in opposite corners of the box, ensembles of 129 .. 300 atoms.
* run_desc_threads: several threads evaluate aso / aeif / atomic_indicator_field / prune / nearest_atom_index at the same
  time on different ensembles of equal shape and one grid; every result must equal the serial result of the same call
  (which is itself judged against the definition).
"""
from __future__ import annotations

import hashlib
import math
import sys
import threading

import numpy as np

BAND = 1e-4          # float32 rounding band (Angstrom) excluded around sphere surfaces, cut-offs and nearest-atom ties
ELEMENTS = ["H", "C", "N", "O", "F", "P", "S", "Cl", "Br", "I", "Si", "B"]
MAXDISTS = [None, 0.5, 1.0, 2.0, 3.5, 6.0]

# documented parameter order and defaults (molli/descriptor/gridbased.py at HEAD): required parameters, optional ones
SIGNATURES = {
    "rectangular_grid": (("r1", "r2"), (("padding", 0.0), ("spacing", 1.0), ("dtype", "float32"))),
    "nearest_atom_index": (("grid", "struct_or_ens"), (("max_dist", 2.0),)),
    "prune": (("grid", "struct_or_ens"), (("max_dist", 2.0), ("eps", 0.5))),
    "atomic_indicator_field": (("ens", "grid", "indicator_values", "atomic_radii"), (("nearest_atom_idx", None), ("weighted", False))),
    "aeif": (("ens", "grid"), (("nearest_atom_idx", None), ("weighted", False))),
    "aso": (("ens", "grid"), (("weighted", False),)),
}


def argument_form(rng, name, required, given):
    """(form, args, kwargs) for one call of gridbased.<name>: `required` values in order, `given` = {optional name: value}"""
    req_names, opt = SIGNATURES[name]
    assert len(required) == len(req_names) and all(k in dict(opt) for k in given)
    u = rng.random()
    if u < 0.45:
        return "keyword", list(required), dict(given)
    if u < 0.85:
        args = list(required)
        last = max((i for i, (k, _) in enumerate(opt) if k in given), default=-1)
        for k, default in opt[:last + 1]:
            args.append(given[k] if k in given else default)
        return ("positional" if last >= 0 else "keyword"), args, {}
    kw = dict(zip(req_names, required))
    kw.update(given)
    return "all-keyword", [], kw


def vkey(head, tags, tail):
    """violation key: operation[:variant] [:state of the objects / argument form] :what"""
    return ":".join([head, *[t for t in tags if t], tail])


# ------------------------------------------------------------------------------------------------------ generators

def gen_coords(rng, n):
    if rng.random() < 0.6:      # chain with bond-like steps
        pts = [np.zeros(3)]
        for _ in range(n - 1):
            v = rng.normal(size=3)
            v /= np.linalg.norm(v)
            pts.append(pts[int(rng.integers(len(pts)))] + v * rng.uniform(1.0, 1.8))
        c = np.array(pts)
    else:                       # cloud
        c = rng.normal(scale=rng.uniform(1.0, 3.5), size=(n, 3))
    return c + rng.uniform(-15, 15, size=3) * (rng.random() < 0.7)


def rotation(rng):
    q, r = np.linalg.qr(rng.normal(size=(3, 3)))
    q = q @ np.diag(np.sign(np.diag(r)))
    if np.linalg.det(q) < 0:
        q[:, 0] = -q[:, 0]
    return q


def gen_ensemble(rng, n=None, nc=None, base=None):
    import molli as ml
    from molli.chem import Atom, Molecule, ConformerEnsemble

    if n is None:
        n = int(rng.choice([1, 2, 3, 5, 8, 12, 17, 24]))
        ncc = int(rng.choice([1, 2, 3, 5]))
        if rng.random() < 0.12:
            # large ensembles (conformer searches return hundreds): sizes around powers of two, where batching would show
            ncc = int(rng.choice([31, 33, 63, 64, 65, 100, 127, 129, 200, 257]))
            n = min(n, 8)
        nc = ncc if nc is None else nc
    els = [str(rng.choice(ELEMENTS)) for _ in range(n)]
    if base is None:
        base = gen_coords(rng, n)
    confs = []
    for k in range(nc):
        if k == 0:
            c = base
        elif rng.random() < 0.5:
            c = base + rng.normal(scale=rng.uniform(0.2, 1.0), size=base.shape)
        else:
            cen = base.mean(0)
            c = (base - cen) @ rotation(rng).T + cen + rng.normal(scale=0.5, size=3)
        confs.append(c)
    cs = np.array(confs)
    mode = rng.random()
    if mode < 0.25:
        ws = np.ones(nc)
    else:
        ws = rng.uniform(0.05, 1.0, size=nc)
        if nc >= 3 and mode > 0.85:
            ws[int(rng.integers(nc))] = 0.0
    qs = rng.uniform(-1, 1, size=(nc, n))
    mol = Molecule([Atom(e, label=f"{e}{i}") for i, e in enumerate(els)], name="c19", coords=base)
    for i in range(1, n):
        mol.connect(i - 1, i)
    ens = ConformerEnsemble(mol, n_conformers=nc, coords=cs, weights=ws, atomic_charges=qs)
    return mol, ens, els


def dhash(*arrs):
    h = hashlib.blake2b(digest_size=8)
    for a in arrs:
        h.update(np.ascontiguousarray(a).tobytes() if isinstance(a, np.ndarray) else repr(a).encode())
    return h.hexdigest()


# ------------------------------------------------------------------------------------------------------ rectangular_grid

def check_grid(ctx, case, r1, r2, padding, spacing, dtype, grid):
    """violations of: full lattice, step = spacing, centred in and contained in the padded box"""
    tag = "rectangular_grid"
    det = {"r1": [float(x) for x in r1], "r2": [float(x) for x in r2], "padding": padding, "spacing": spacing, "dtype": dtype}
    ctx.count("grid.checked")
    if not isinstance(grid, np.ndarray) or grid.ndim != 2 or grid.shape[1] != 3:
        ctx.violation(f"{tag}:result-not-an-(n,3)-array", case=case, got=repr(getattr(grid, "shape", type(grid))), **det)
        return False
    if not np.isfinite(grid).all():
        ctx.violation(f"{tag}:non-finite-coordinate", case=case, **det)
        return False
    eps = float(np.finfo(np.dtype(dtype)).eps)
    g = grid.astype(np.float64)
    counts = []
    ok = True
    for ax in range(3):
        # the function itself casts the corners to `dtype`; the padded box is taken from those values
        lo = float(np.dtype(dtype).type(r1[ax])) - padding
        hi = float(np.dtype(dtype).type(r2[ax])) + padding
        ext = hi - lo
        mag = max(abs(lo), abs(hi), 1.0)
        xs = np.unique(g[:, ax])
        counts.append(len(xs))
        q = ext / spacing
        qtol = 1e-5 + 8 * eps * (mag + ext) / spacing
        nmin, nmax = math.floor(q - qtol) + 1, math.floor(q + qtol) + 1
        atol = 4 * eps * mag
        if not (nmin <= len(xs) <= nmax):
            ctx.violation(f"{tag}:point-count-along-axis-wrong", case=case, axis=ax, got=len(xs), want=[nmin, nmax], extent=ext, **det)
            ok = False
            continue
        if len(xs) > 1:
            steps = np.diff(xs)
            worst = float(np.abs(steps - spacing).max())
            if worst > 5e-6 * spacing + atol:
                ctx.violation(f"{tag}:step-differs-from-spacing", case=case, axis=ax, step=float(steps[np.abs(steps - spacing).argmax()]),
                              n=len(xs), **det)
                ok = False
        mlo, mhi = xs[0] - lo, hi - xs[-1]
        tol = 2 * atol + 1e-6 * spacing + qtol * spacing
        if mlo < -tol or mhi < -tol:
            ctx.violation(f"{tag}:point-outside-padded-box", case=case, axis=ax, margins=[mlo, mhi], box=[lo, hi], **det)
            ok = False
        if abs(mlo - mhi) > 2 * tol:
            ctx.violation(f"{tag}:not-centred-in-box", case=case, axis=ax, margins=[mlo, mhi], box=[lo, hi], **det)
            ok = False
        if max(mlo, mhi) >= spacing / 2 + tol:
            ctx.violation(f"{tag}:margin-leaves-room-for-another-point", case=case, axis=ax, margins=[mlo, mhi], **det)
            ok = False
    want = counts[0] * counts[1] * counts[2]
    uniq = len(np.unique(grid, axis=0))
    if grid.shape[0] != want or uniq != want:
        ctx.violation(f"{tag}:not-the-full-cartesian-product", case=case, rows=int(grid.shape[0]), distinct_rows=uniq,
                      per_axis=counts, **det)
        ok = False
    ctx.count("grid.points", int(grid.shape[0]))
    return ok


def grid_only_cases(spec, ctx, gb):
    """rectangular_grid on its own: degenerate axes, exact multiples, float64, negative boxes"""
    for j in range(spec["ngrid"]):
        case = ["g", spec["chunk"], j]
        if not ctx.want(case):
            continue
        rng = ctx.nprng(*case)
        mode = int(rng.integers(5))
        r1 = rng.uniform(-20, 20, 3)
        ext = rng.uniform(0.2, 9, 3)
        spacing = float(rng.choice([0.25, 0.5, 1.0, 0.1, 2.0, 0.7, float(rng.uniform(0.3, 2.5))]))
        padding = float(rng.choice([0.0, 0.0, 0.5, 1.0, 2.5, float(rng.uniform(0, 3))]))
        if mode == 0:       # exact multiples of the spacing, integer corners
            r1 = np.round(r1)
            ext = spacing * rng.integers(0, 12, 3)
        elif mode == 1:     # degenerate axes
            ext[int(rng.integers(3))] = 0.0
            if rng.random() < 0.3:
                ext[:] = 0.0
        elif mode == 2:     # box smaller than the spacing
            ext = rng.uniform(0, 1, 3) * spacing * 0.9
        r2 = r1 + ext
        dtype = "float64" if rng.random() < 0.3 else "float32"
        if np.prod(np.floor((ext + 2 * padding) / spacing) + 1) > 60000:
            spacing = float(max(spacing, ((ext + 2 * padding).prod() / 40000) ** (1 / 3)))
        kw = {}
        if padding != 0.0 or rng.random() < 0.5:
            kw["padding"] = padding
        else:
            padding = 0.0
        try:
            grid = gb.rectangular_grid(r1.tolist() if rng.random() < 0.5 else r1, r2, spacing=spacing, dtype=dtype, **kw)
        except Exception as e:  # noqa
            ctx.case(case, nontrivial=False)
            ctx.violation(f"rectangular_grid:raises:{type(e).__name__}", case=case, err=repr(e)[:300], r1=r1.tolist(), r2=r2.tolist(),
                          padding=padding, spacing=spacing, dtype=dtype)
            continue
        ctx.case(case, dkey=("g", dhash(r1, r2), padding, spacing, dtype), nontrivial=grid.shape[0] >= 8,
                 sample={"part": 3, "op": "rectangular_grid", "r1": r1.round(3).tolist(), "r2": r2.round(3).tolist(), "padding": padding,
                         "spacing": spacing, "dtype": dtype, "points": int(grid.shape[0])})
        check_grid(ctx, case, r1, r2, padding, spacing, dtype, grid)


# ------------------------------------------------------------------------------------------------------ nearest_atom_index

_DCACHE = {}     # per case: the same (grid, geometry) pair is looked at by several oracles


def dist_matrix(grid, coords):
    """float64 distances (G, A), evaluated axis by axis from the values the arrays hold"""
    g = np.asarray(grid, dtype=np.float64)
    c = np.asarray(coords, dtype=np.float64)
    key = (g.shape, hashlib.blake2b(g.tobytes(), digest_size=12).digest(), c.shape, c.tobytes())
    D = _DCACHE.get(key)
    if D is None:
        d2 = np.zeros((g.shape[0], c.shape[0]))
        for k in range(3):
            d2 += (g[:, None, k] - c[None, :, k]) ** 2
        D = _DCACHE[key] = np.sqrt(d2)
    return D


def nearest_violations(D, res, d):
    """classify each grid point of one geometry: returns dict kind -> boolean mask"""
    G = D.shape[0]
    dmin = D.min(1)
    res = np.asarray(res)
    out = {}
    valid = (res >= -1) & (res < D.shape[1])
    out["index-out-of-range"] = ~valid
    r = np.where(valid & (res >= 0), res, 0)
    dres = D[np.arange(G), r]
    has = valid & (res >= 0)
    out["atom-beyond-cutoff-returned"] = has & (dmin > d + BAND)
    out["minus-one-although-atom-within-cutoff"] = valid & (res == -1) & (dmin < d - BAND)
    out["not-the-nearest-atom"] = has & (dmin <= d + BAND) & (dres > dmin + BAND)
    return out, dmin


def check_nearest(ctx, case, kind, grid, coords_list, res, d, det, count=True, tags=()):
    """kind: 'geometry' (coords_list has one entry, res (G,)) or 'ensemble' (res (nc,G))"""
    G = grid.shape[0]
    res = np.asarray(res)
    want_shape = (G,) if kind == "geometry" else (len(coords_list), G)
    if count:
        ctx.count(f"nearest.{kind}.checked")
    if res.shape != want_shape or res.dtype.kind not in "iu":
        ctx.violation(vkey(f"nearest_atom_index:{kind}", tags, "result-shape-or-dtype-wrong"), case=case, got=[list(res.shape), str(res.dtype)],
                      want=list(want_shape), **det)
        return
    rows = [res] if kind == "geometry" else list(res)
    for ci, (coords, row) in enumerate(zip(coords_list, rows)):
        D = dist_matrix(grid, coords)
        masks, dmin = nearest_violations(D, row, d)
        ctx.count("nearest.points.within-cutoff", int((dmin < d - BAND).sum()))
        ctx.count("nearest.points.beyond-cutoff", int((dmin > d + BAND).sum()))
        ctx.count("nearest.points.in-band-not-decided", int((np.abs(dmin - d) <= BAND).sum()))
        if D.shape[1] > 128:
            ctx.count("nearest.points.naming-an-atom-index-above-127", int((np.asarray(row) > 127).sum()))
        nbad = {k: int(m.sum()) for k, m in masks.items() if m.any()}
        if not nbad:
            continue
        if kind == "geometry" and abs(d - 2.0) > 1e-9:
            m2, _ = nearest_violations(D, row, 2.0)
            if not any(m.any() for m in m2.values()):
                # the answer is exactly the one for the default cut-off 2.0: the requested max_dist was not used
                ctx.violation("nearest-atom-index-ignores-max-dist-for-geometry", case=case, max_dist=d, differing_points=sum(nbad.values()),
                              of=G, consistent_with_max_dist=2.0, **det)
                return
        for k, n in nbad.items():
            g = int(np.argwhere(masks[k])[0][0])
            ctx.violation(vkey(f"nearest_atom_index:{kind}", tags, k), case=case, max_dist=d, conformer=ci, n_points=n, of=G, point=grid[g].tolist(),
                          returned=int(row[g]), nearest=int(D[g].argmin()), nearest_distance=float(dmin[g]),
                          returned_distance=float(D[g, row[g]]) if 0 <= row[g] < D.shape[1] else None, **det)
        return


# ------------------------------------------------------------------------------------------------------ prune / aso / aeif

def check_prune(ctx, case, grid, allcoords, kept, d, eps, det, tags=()):
    ctx.count("prune.checked")
    G = grid.shape[0]
    kept = np.asarray(kept)
    if kept.ndim != 1 or (kept.size and (kept.dtype.kind not in "iu" or kept.min() < 0 or kept.max() >= G)):
        ctx.violation(vkey("prune", tags, "result-not-an-index-array-into-the-grid"), case=case, got=[list(kept.shape), str(kept.dtype)], **det)
        return
    dmin = dist_matrix(grid, allcoords).min(1)
    keptmask = np.zeros(G, bool)
    keptmask[kept] = True
    far = keptmask & (dmin > d + BAND)
    near = ~keptmask & (dmin < d / (1 + eps) - BAND)
    ctx.count("prune.points.kept", int(keptmask.sum()))
    ctx.count("prune.points.dropped", int((~keptmask).sum()))
    ctx.count("prune.points.dropped-between-cutoffs", int((~keptmask & (dmin <= d)).sum()))
    if far.any():
        g = int(np.argwhere(far)[0][0])
        ctx.violation(vkey("prune", tags, "kept-point-beyond-cutoff"), case=case, n_points=int(far.sum()), of=G, point=grid[g].tolist(),
                      distance=float(dmin[g]), max_dist=d, eps=eps, **det)
    if near.any():
        g = int(np.argwhere(near)[0][0])
        ctx.violation(vkey("prune", tags, "dropped-point-closer-than-cutoff-over-1-plus-eps"), case=case, n_points=int(near.sum()), of=G,
                      point=grid[g].tolist(), distance=float(dmin[g]), max_dist=d, eps=eps, **det)


def field_reference(grid, coords, radii, weights, charges=None):
    """float64 definition.  Returns (reference (G,), undecided mask (G,), occupied-any mask)"""
    nc = coords.shape[0]
    G = grid.shape[0]
    per = np.zeros((nc, G))
    undec = np.zeros(G, bool)
    occ_any = np.zeros(G, bool)
    for c in range(nc):
        D = dist_matrix(grid, coords[c])
        occ = (D <= radii[None, :]).any(1)
        undec |= (np.abs(D - radii[None, :]) < BAND).any(1)
        occ_any |= occ
        if charges is None:
            per[c] = occ
        else:
            if D.shape[1] > 1:
                part = np.partition(D, 1, axis=1)
                undec |= occ & ((part[:, 1] - part[:, 0]) < BAND)
            per[c] = np.where(occ, charges[c][D.argmin(1)], 0.0)
    w = np.ones(nc) if weights is None else np.asarray(weights, dtype=np.float64)
    return (per * w[:, None]).sum(0) / w.sum(), undec, occ_any


def check_field(ctx, case, name, weighted, obs, ref, undec, occ_any, det, scale=1.0, tags=()):
    tag = f"{name}:{'weighted' if weighted else 'unweighted'}"
    ctx.count(f"{name}.checked")
    ctx.count(f"{name}.{'weighted' if weighted else 'unweighted'}.checked")
    obs = np.asarray(obs)
    if obs.shape != ref.shape:
        ctx.violation(vkey(tag, tags, "result-shape-wrong"), case=case, got=list(obs.shape), want=list(ref.shape), **det)
        return
    cmp = ~undec
    ctx.count(f"{name}.points.compared", int(cmp.sum()))
    ctx.count(f"{name}.points.excluded-rounding-band", int(undec.sum()))
    ctx.count(f"{name}.points.occupied", int((occ_any & cmp).sum()))
    if obs.shape[0] > 32768:          # occupied, decided points in the last sixteenth of a large grid (a forgotten tail block)
        ctx.count(f"{name}.large-grid.occupied-points-in-last-sixteenth", int((occ_any & cmp)[-(obs.shape[0] // 16):].sum()))
        ctx.count(f"{name}.large-grid.occupied-points-in-first-sixteenth", int((occ_any & cmp)[:obs.shape[0] // 16].sum()))
    err = np.abs(obs.astype(np.float64) - ref)
    bad = cmp & ~(err <= 1e-6 * scale)
    if bad.any():
        g = int(np.argwhere(bad)[0][0])
        what = {"aso": "differs-from-occupancy-average", "aeif": "differs-from-nearest-atom-charge-average"}.get(
            name, "differs-from-nearest-atom-indicator-average")
        ctx.violation(vkey(tag, tags, what), case=case, n_points=int(bad.sum()), of=int(cmp.sum()), grid_index=g, got=float(obs[g]),
                      want=float(ref[g]), **det)


# ------------------------------------------------------------------------------------------------------ the chunk

def install_monitor(ctx, gb, ml, state):
    """monitor on the real nearest_atom_index: the calls atomic_indicator_field makes internally are judged too.
    Arguments are passed through as they come, so the argument form of a direct call reaches the real function."""
    real_nearest = gb.nearest_atom_index

    def monitored_nearest(*args, **kw):
        res = real_nearest(*args, **kw)
        if state["inside"] and state["case"] is not None:
            try:
                b = dict(zip(("grid", "struct_or_ens", "max_dist"), args))
                b.update(kw)
                grid, struct_or_ens, max_dist = b["grid"], b["struct_or_ens"], b.get("max_dist", 2.0)
                if isinstance(struct_or_ens, ml.ConformerEnsemble):
                    cl, kind = list(np.array(struct_or_ens.coords, dtype=np.float64)), "ensemble"
                else:
                    cl, kind = [np.array(struct_or_ens.coords, dtype=np.float64)], "geometry"
                ctx.count("nearest.internal-calls-monitored")
                check_nearest(ctx, state["case"], kind, np.asarray(grid), cl, res, float(max_dist),
                              {"via": "atomic_indicator_field"}, count=False, tags=state.get("tags", ()))
            except Exception:  # the monitor must never disturb the code under test
                ctx.count("nearest.internal-monitor-errors")
        return res

    gb.nearest_atom_index = monitored_nearest
    return real_nearest


def part3_note(ctx, gb):
    from vmon.props.C19 import deployed_binary, repo_root, sha256_file
    ctx.note("part3_descriptors", {
        "python_sources_sha256": {str(p): sha256_file(p) for p in
                                  (repo_root() / "molli" / "descriptor" / "gridbased.py", repo_root() / "molli" / "math" / "distance.py")},
        "imported_from": str(gb.__file__), "binary": deployed_binary(),
        "exercises": "gridbased.py of the working tree on top of the deployed extension module"})


def run_desc(spec, ctx):
    import molli as ml
    import molli_xt  # noqa: F401
    from molli.descriptor import gridbased as gb

    part3_note(ctx, gb)
    state = {"case": None, "inside": 0, "tags": ()}
    real_nearest = install_monitor(ctx, gb, ml, state)
    try:
        grid_only_cases(spec, ctx, gb)
        for j in range(spec["n"]):
            case = ["d", spec["chunk"], j]
            if ctx.want(case):
                state["case"] = case
                one_case(spec, ctx, case, gb, ml, state)
    finally:
        gb.nearest_atom_index = real_nearest


# ---- the objects of one case and what they held before a call

def snapshot(st):
    """copies of the values the objects hold now: every reference is computed from these, every call is followed by a
    comparison of the live arrays with them"""
    ens = st["ens"]
    st["raw"] = {"ensemble-coordinates": np.array(ens.coords, copy=True), "ensemble-weights": np.array(ens.weights, copy=True),
                 "ensemble-atomic-charges": np.array(ens.atomic_charges, copy=True)}
    st["coords"] = st["raw"]["ensemble-coordinates"].astype(np.float64)
    st["weights"] = st["raw"]["ensemble-weights"].astype(np.float64)
    st["charges"] = st["raw"]["ensemble-atomic-charges"].astype(np.float64)
    st["radii"] = np.array([a.vdw_radius for a in ens.atoms], dtype=np.float64)
    st["grid0"] = np.array(st["grid"], copy=True)
    st["geoms0"] = [np.array(g.coords, copy=True) for _, g in st["geoms"]]


def same_array(now, before):
    now = np.asarray(now)
    return now.dtype == before.dtype and now.shape == before.shape and bool(np.array_equal(now, before))


def inputs_intact(ctx, case, op, st, det, extra=()):
    """after a call: grid, ensemble arrays and geometry coordinates still hold what they held before it"""
    ens = st["ens"]
    ctx.count("descriptor.arguments-compared-after-call")
    live = [("grid", st["grid"], st["grid0"])]
    live += [(k, getattr(ens, a), st["raw"][k]) for k, a in (("ensemble-coordinates", "coords"), ("ensemble-weights", "weights"),
                                                               ("ensemble-atomic-charges", "atomic_charges"))]
    live += [("geometry-coordinates", g.coords, g0) for (_, g), g0 in zip(st["geoms"], st["geoms0"])]
    live += list(extra)
    for what, now, before in live:
        if same_array(now, before):
            continue
        now = np.asarray(now)
        chg = int((now != before).sum()) if now.shape == before.shape else None
        ctx.violation(f"{op}:modifies-argument:{what}", case=case, changed_elements=chg, shape_before=list(before.shape),
                      shape_after=list(now.shape), dtype_before=str(before.dtype), dtype_after=str(now.dtype), **det)
        try:        # put the values back so that the following calls are judged on what the caller passed
            if now.shape == before.shape and now.flags.writeable:
                now[...] = before
        except Exception:  # noqa
            pass


def call(ctx, case, rng, gb, st, det, label, name, required, given, tags=()):
    """one call of gridbased.<name> in a documented argument form -> (ok, result, tags incl. the form)"""
    form, args, kw = argument_form(rng, name, required, given)
    ctx.count(f"descriptor.calls.{form}")
    if form != "keyword":
        ctx.count(f"descriptor.calls.{form}.{name}")
    ftags = tuple(tags) + (("positional-call",) if form == "positional" else ())
    try:
        res = getattr(gb, name)(*args, **kw)
    except Exception as e:  # noqa
        ctx.violation(vkey(label, ftags, f"raises:{type(e).__name__}"), case=case, err=repr(e)[:300], argument_form=form, **det)
        inputs_intact(ctx, case, name, st, det)
        return False, None, ftags
    inputs_intact(ctx, case, name, st, det)
    return True, res, ftags


def float64_nearest_table(grid, coords, radii):
    nc, G = coords.shape[0], grid.shape[0]
    near = np.empty((nc, G), dtype=np.int64)
    for c in range(nc):
        D = dist_matrix(grid, coords[c])
        near[c] = np.where(D.min(1) <= radii.max(), D.argmin(1), -1)
    return near


def evaluate(ctx, case, rng, gb, st, det, state, level, tags=()):
    """all descriptors on the objects of `st` as they are now; level: 'full' | 'repeat' | 'large'"""
    ens, grid, geoms = st["ens"], st["grid"], st["geoms"]
    coords, weights, charges, radii = st["coords"], st["weights"], st["charges"], st["radii"]
    nc, G = coords.shape[0], grid.shape[0]
    state["tags"] = tuple(tags)
    det = {**det, **({"state": "+".join(tags)} if tags else {})}

    # ---- nearest_atom_index: single geometries of several public types, then the ensemble
    dists = MAXDISTS if level == "full" else [None, float(rng.choice(MAXDISTS[1:]))]
    for d in dists:
        kw = {} if d is None else {"max_dist": d}
        dd = 2.0 if d is None else d
        gi = int(rng.integers(len(geoms))) if d is not None else 0
        tname, gm = geoms[gi]
        gcoords = st["geoms0"][gi].astype(np.float64)
        ok, res, ft = call(ctx, case, rng, gb, st, det, "nearest_atom_index:geometry", "nearest_atom_index", [grid, gm], kw, tags)
        if ok:
            check_nearest(ctx, case, "geometry", st["grid0"], [gcoords], res, dd, {**det, "type": tname, "max_dist_given": d is not None}, tags=ft)
        ok, res, ft = call(ctx, case, rng, gb, st, det, "nearest_atom_index:ensemble", "nearest_atom_index", [grid, ens], kw, tags)
        if ok:
            check_nearest(ctx, case, "ensemble", st["grid0"], list(coords), res, dd, {**det, "max_dist_given": d is not None}, tags=ft)

    # ---- prune
    settings = [(float(rng.choice([0.8, 1.5, 3.0])), float(rng.choice([0.0, 0.25, 1.0])))]
    if level == "full" or rng.random() < 0.5:
        settings.insert(0, (2.0, 0.5))
    for d, eps in settings:
        default = d == 2.0 and eps == 0.5
        kw = {} if default else ({"max_dist": d, "eps": eps} if rng.random() < 0.7 or d == 2.0 else {"max_dist": d})
        if "eps" not in kw:
            eps = 0.5
        ok, kept, ft = call(ctx, case, rng, gb, st, det, "prune:ensemble", "prune", [grid, ens], kw, tags)
        if ok:
            check_prune(ctx, case, st["grid0"], coords.reshape(-1, 3), kept, d, eps, {**det, "target": "ensemble"}, tags=ft)
        ok, kept, ft = call(ctx, case, rng, gb, st, det, "prune:geometry", "prune", [grid, geoms[0][1]], kw, tags)
        if ok:
            check_prune(ctx, case, st["grid0"], st["geoms0"][0].astype(np.float64), kept, d, eps, {**det, "target": geoms[0][0]}, tags=ft)

    # ---- aso / aeif / atomic_indicator_field
    qscale = max(1.0, float(np.abs(charges).max()))

    def variants():
        ran = False
        # aeif with a caller-supplied nearest-atom table (float64 argmin, -1 beyond the largest radius)
        if level != "large" and rng.random() < 0.5:
            ran = True
            near = float64_nearest_table(st["grid0"], coords, radii)
            near0 = near.copy()
            ref, undec, occ = field_reference(st["grid0"], coords, radii, weights, charges)
            ok, obs, ft = call(ctx, case, rng, gb, st, det, "aeif", "aeif", [ens, grid], {"nearest_atom_idx": near, "weighted": True}, tags)
            if not same_array(near, near0):
                ctx.violation("aeif:modifies-argument:nearest-atom-table", case=case, **det)
            if ok:
                ctx.count("aeif.with-supplied-nearest-table")
                check_field(ctx, case, "aeif", True, obs, ref, undec, occ, {**det, "nearest_atom_idx": "supplied"}, scale=qscale, tags=ft)
        # atomic_indicator_field itself with the caller's own per-atom values and radii
        if level != "large" and rng.random() < 0.6:
            ran = True
            vals = rng.uniform(-2, 2, size=charges.shape)
            rad = rng.uniform(0.9, 2.6, size=radii.shape)
            vals0, rad0 = vals.copy(), rad.copy()
            weighted = bool(rng.random() < 0.5)
            kw = {"weighted": True} if weighted else {}
            ref, undec, occ = field_reference(st["grid0"], coords, rad, weights if weighted else None, vals)
            ok, obs, ft = call(ctx, case, rng, gb, st, det, "atomic_indicator_field", "atomic_indicator_field", [ens, grid, vals, rad], kw, tags)
            if not (same_array(vals, vals0) and same_array(rad, rad0)):
                ctx.violation("atomic_indicator_field:modifies-argument:indicator-values-or-radii", case=case, **det)
            if ok:
                check_field(ctx, case, "atomic_indicator_field", weighted, obs, ref, undec, occ, {**det, "radii": "caller-supplied"},
                            scale=2.0, tags=ft)
        return ran

    def plain():
        for weighted in (False, True):
            w = weights if weighted else None
            kw = {"weighted": True} if weighted else ({} if rng.random() < 0.5 else {"weighted": False})
            ref, undec, occ = field_reference(st["grid0"], coords, radii, w)
            ok, obs, ft = call(ctx, case, rng, gb, st, det, "aso", "aso", [ens, grid], kw, tags)
            if ok:
                check_field(ctx, case, "aso", weighted, obs, ref, undec, occ, det, tags=ft)
            ref, undec, occ = field_reference(st["grid0"], coords, radii, w, charges)
            state["tags"] = tuple(tags)
            ok, obs, ft = call(ctx, case, rng, gb, st, det, "aeif", "aeif", [ens, grid], kw, tags)
            if ok:
                check_field(ctx, case, "aeif", weighted, obs, ref, undec, occ, det, scale=qscale, tags=ft)

    state["inside"] = 1
    try:
        # the plain calls are the last ones of round 0 and the first ones after the caller's edit: what a cache holds on to
        # when the objects change is then asked for again at once (the variants use other radii / tables in between)
        if tags:
            plain()
        if variants() or not tags:
            plain()
    finally:
        state["inside"] = 0


# ---- caller-side edits between the rounds (public API only)

def edit_ensemble(rng, ml, st):
    """edit the ensemble and the single geometries in place; returns the names of the edits"""
    ens = st["ens"]
    nc, n = ens.coords.shape[:2]
    done = []
    kinds = ["coords-setter", "translate", "rotate-about-centroid", "scale", "coords-array-edited-in-place"]
    for kind in rng.choice(kinds, size=int(rng.integers(1, 3)), replace=False):
        kind = str(kind)
        if kind == "coords-setter":
            new = np.array(ens.coords, dtype=np.float64) + rng.normal(scale=rng.uniform(0.3, 1.2), size=ens.coords.shape)
            ens.coords = new if rng.random() < 0.5 else new.tolist()
        elif kind == "translate":
            ens.translate(rng.uniform(-1.5, 1.5, size=3) if rng.random() < 0.5 else rng.uniform(-1.5, 1.5, size=(nc, 3)))
        elif kind == "rotate-about-centroid":
            cen = np.array(ens.coords, dtype=np.float64).reshape(-1, 3).mean(0)
            ens.translate(-cen)
            ens.rotate(rotation(rng))
            ens.translate(cen + rng.normal(scale=0.3, size=3))
        elif kind == "scale":
            cen = np.array(ens.coords, dtype=np.float64).reshape(-1, 3).mean(0)
            ens.translate(-cen)
            ens.scale(float(rng.uniform(0.75, 1.3)))
            ens.translate(cen)
        else:
            k = int(rng.integers(nc))
            ens.coords[k] += rng.normal(scale=0.8, size=(n, 3))
        done.append(kind)
    if rng.random() < 0.6:
        w = rng.uniform(0.05, 1.0, size=nc)
        if nc >= 3 and rng.random() < 0.3:
            w[int(rng.integers(nc))] = 0.0
        ens.weights = w
        done.append("weights-setter")
    if rng.random() < 0.6:
        ens.atomic_charges = rng.uniform(-1, 1, size=(nc, n))
        done.append("atomic-charges-setter")
    if rng.random() < 0.3:
        i = int(rng.integers(n))
        ens.atoms[i].element = str(rng.choice(ELEMENTS))
        done.append("element-of-one-atom")
    for tname, g in st["geoms"]:
        if tname == "Conformer":
            continue                        # a view of the ensemble: follows it
        u = rng.random()
        if u < 0.4:
            g.translate(rng.uniform(-1.5, 1.5, size=3))
        elif u < 0.8:
            g.coords = np.array(g.coords, dtype=np.float64) + rng.normal(scale=0.7, size=np.shape(g.coords))
        else:
            g.coords[int(rng.integers(n))] += rng.normal(scale=1.0, size=3)
    return done


def second_grid(rng, st, spacing):
    """a second grid of the same shape and dtype; returns the name of the variant"""
    grid = st["grid"]
    shift = rng.uniform(-0.5, 0.5, size=3) * spacing
    shift[int(rng.integers(3))] = 0.37 * spacing
    u = rng.random()
    if u < 0.35:
        st["grid"] = (grid + shift.astype(grid.dtype)).astype(grid.dtype)
        return "shifted-copy"
    if u < 0.6:
        grid += shift.astype(grid.dtype)                    # the caller moves its own array
        return "same-array-shifted-in-place-by-the-caller"
    if u < 0.8:
        st["grid"] = np.ascontiguousarray(grid[::-1]) + shift.astype(grid.dtype) * 0.5
        st["grid"] = st["grid"].astype(grid.dtype)
        return "reversed-and-shifted-copy"
    st["grid"] = (grid + rng.uniform(-0.3, 0.3, size=grid.shape) * spacing).astype(grid.dtype)
    return "jittered-copy"


def make_geoms(rng, ml, mol, ens):
    from molli.chem import CartesianGeometry, Structure
    k = int(rng.integers(ens.n_conformers))
    geoms = [("Molecule", ml.Molecule(mol)), ("Conformer", ens[k])]
    try:
        geoms.append(("CartesianGeometry", CartesianGeometry(mol)))
        geoms.append(("Structure", Structure(mol)))
    except Exception:
        pass
    return geoms


def one_case(spec, ctx, case, gb, ml, state):
    rng = ctx.nprng(*case)
    _DCACHE.clear()
    mol, ens, els = gen_ensemble(rng)
    coords = np.array(ens.coords, dtype=np.float64)          # the values the objects hold
    nc, n = coords.shape[:2]
    if nc > 16:
        ctx.count("descriptor.large-ensembles")
    radii = np.array([a.vdw_radius for a in ens.atoms], dtype=np.float64)
    padding = float(rng.choice([0.0, 0.5, 1.5, 2.5]))
    spacing = float(rng.choice([0.5, 0.7, 1.0, 1.3, float(rng.uniform(0.45, 2.0))]))
    dtype = "float64" if rng.random() < 0.2 else "float32"
    lo, hi = coords.reshape(-1, 3).min(0), coords.reshape(-1, 3).max(0)
    vol = float(np.prod(hi - lo + 2 * padding + spacing))
    if vol / spacing ** 3 > 12000:
        spacing = float((vol / 12000) ** (1 / 3)) + 0.05
    det = {"atoms": n, "conformers": nc, "elements": "".join(els)[:40], "padding": padding, "spacing": round(spacing, 4), "grid_dtype": dtype}
    grid = make_grid(ctx, case, rng, gb, lo, hi, padding, spacing, dtype, det)
    if grid is None:
        return
    # hand-placed points: on atoms, on sphere surfaces (fall into the excluded band), midway between two atoms (tie band)
    extra = [coords[0, 0], coords[-1, -1], coords[0, 0] + np.array([radii[0], 0, 0]), coords[0, 0] + np.array([0, 0, 2.0])]
    if n > 1:
        extra.append((coords[0, 0] + coords[0, 1]) / 2)
    grid = np.vstack([grid, np.array(extra, dtype=grid.dtype)])
    G = grid.shape[0]
    det["grid_points"] = G

    _, _, occ_any = field_reference(grid, coords, radii, None)
    ctx.case(case, dkey=("d", dhash(coords, grid[:3]), G, padding, spacing, dtype),
             nontrivial=G >= 8 and bool(occ_any.any()) and not bool(occ_any.all()),
             sample={"part": 3, **det, "weights": np.asarray(ens.weights, dtype=float).round(3).tolist(), "occupied_points": int(occ_any.sum())})

    st = {"ens": ens, "grid": grid, "geoms": make_geoms(rng, ml, mol, ens)}
    snapshot(st)
    evaluate(ctx, case, rng, gb, st, det, state, "full")

    # ---- the same objects after caller-side edits: same grid object, then a second grid of the same shape
    edits = edit_ensemble(rng, ml, st)
    _DCACHE.clear()
    snapshot(st)
    ctx.count("descriptor.repeat.after-ensemble-edit")
    for e in edits:
        ctx.count(f"descriptor.repeat.edit.{e}")
    evaluate(ctx, case, rng, gb, st, {**det, "edits": edits}, state, "repeat", tags=("after-ensemble-edit",))

    variant = second_grid(rng, st, spacing)
    _DCACHE.clear()
    snapshot(st)
    ctx.count("descriptor.repeat.second-grid-of-same-shape")
    ctx.count(f"descriptor.repeat.grid.{variant}")
    evaluate(ctx, case, rng, gb, st, {**det, "second_grid": variant}, state, "repeat", tags=("second-grid-of-same-shape",))
    _DCACHE.clear()


def make_grid(ctx, case, rng, gb, lo, hi, padding, spacing, dtype, det):
    """rectangular_grid in one of the documented argument forms, judged; None if it raised"""
    given = {"padding": padding, "spacing": spacing, "dtype": dtype}
    if dtype == "float32" and rng.random() < 0.5:
        del given["dtype"]
    if padding == 0.0 and rng.random() < 0.5:
        del given["padding"]
    form, args, kw = argument_form(rng, "rectangular_grid", [lo, hi], given)
    lo0, hi0 = lo.copy(), hi.copy()
    ctx.count(f"descriptor.calls.{form}")
    if form != "keyword":
        ctx.count(f"descriptor.calls.{form}.rectangular_grid")
    try:
        grid = gb.rectangular_grid(*args, **kw)
    except Exception as e:  # noqa
        ctx.case(case, nontrivial=False)
        ctx.violation(f"rectangular_grid:raises:{type(e).__name__}", case=case, err=repr(e)[:300], argument_form=form, **det)
        return None
    if not (same_array(lo, lo0) and same_array(hi, hi0)):
        ctx.violation("rectangular_grid:modifies-argument:corner", case=case, **det)
        lo[...], hi[...] = lo0, hi0
    check_grid(ctx, case, lo, hi, padding, spacing, dtype, grid)
    return grid


# ------------------------------------------------------------------------------------------------------ large inputs

LARGE_GRID_COUNTS = [(33, 33, 34), (41, 41, 41), (52, 51, 50)]      # 37026, 68921, 132600 points: above 2**15, 2**16, 2**17
MANY_ATOMS = [(129, 150), (250, 262), (290, 310)]


def run_desc_large(spec, ctx):
    import molli as ml
    import molli_xt  # noqa: F401
    from molli.descriptor import gridbased as gb

    part3_note(ctx, gb)
    state = {"case": None, "inside": 0, "tags": ()}
    real_nearest = install_monitor(ctx, gb, ml, state)
    try:
        for j in range(spec["n"]):
            case = ["L", spec["variant"], spec["chunk"], j]
            if not ctx.want(case):
                continue
            state["case"] = case
            rng = ctx.nprng(*case)
            _DCACHE.clear()
            if spec["variant"] == "grid":
                large_grid_case(spec, ctx, case, rng, gb, ml, state)
            else:
                many_atoms_case(spec, ctx, case, rng, gb, ml, state)
            _DCACHE.clear()
    finally:
        gb.nearest_atom_index = real_nearest


def large_grid_case(spec, ctx, case, rng, gb, ml, state):
    """a small ensemble whose conformers sit in opposite corners of (and inside) a box sampled by 2**15 .. 2**17+ points"""
    counts = np.array(LARGE_GRID_COUNTS[(spec["chunk"] + case[-1]) % len(LARGE_GRID_COUNTS)])
    counts = counts[rng.permutation(3)]
    spacing = float(rng.choice([0.5, 0.6, 0.75]))
    ext = (counts - 1) * spacing + rng.uniform(0.05, 0.9, size=3) * spacing
    lo = rng.uniform(-12, 12, size=3)
    hi = lo + ext
    n, nc = int(rng.integers(3, 11)), int(rng.integers(2, 5))
    base = gen_coords(rng, n)
    base = base - base.mean(0)
    base *= min(1.0, 4.0 / max(1e-9, float(np.abs(base).max())))       # fits into a corner of the box
    confs = []
    for k in range(nc):
        c = base @ rotation(rng).T
        r = np.abs(c).max(0) + 1.0
        if k == 0:
            cen = lo + r
        elif k == 1:
            cen = hi - r
        else:
            cen = lo + r + rng.random(3) * (ext - 2 * r)
        confs.append(c + cen)
    mol, ens, els = gen_ensemble(rng, n=n, nc=nc, base=confs[0])
    ens.coords = np.array(confs)
    dtype = "float64" if rng.random() < 0.25 else "float32"
    det = {"atoms": n, "conformers": nc, "elements": "".join(els)[:40], "padding": 0.0, "spacing": spacing, "grid_dtype": dtype}
    grid = make_grid(ctx, case, rng, gb, lo, hi, 0.0, spacing, dtype, det)
    if grid is None:
        return
    G = grid.shape[0]
    det["grid_points"] = G
    for bound in (32768, 65536, 131072):
        if G > bound:
            ctx.count(f"descriptor.large-grid.above-{bound}-points")
    st = {"ens": ens, "grid": grid, "geoms": make_geoms(rng, ml, mol, ens)}
    snapshot(st)
    _, _, occ_any = field_reference(st["grid0"], st["coords"], st["radii"], None)
    ctx.case(case, dkey=("L", dhash(st["coords"], grid[:3]), G, spacing, dtype), nontrivial=bool(occ_any.any()) and not bool(occ_any.all()),
             sample={"part": 3, "large": "grid", **det, "occupied_points": int(occ_any.sum())})
    evaluate(ctx, case, rng, gb, st, det, state, "large")
    # the second call on the same objects after an edit, as in the ordinary cases
    edits = edit_ensemble(rng, ml, st)
    _DCACHE.clear()
    snapshot(st)
    ctx.count("descriptor.repeat.after-ensemble-edit")
    evaluate(ctx, case, rng, gb, st, {**det, "edits": edits}, state, "large", tags=("after-ensemble-edit",))


def many_atoms_case(spec, ctx, case, rng, gb, ml, state):
    """catalyst-sized and larger molecules: atom indices beyond 127 / 255"""
    a, b = MANY_ATOMS[(spec["chunk"] + case[-1]) % len(MANY_ATOMS)]
    n, nc = int(rng.integers(a, b + 1)), int(rng.integers(1, 4))
    side = (n * 14.0) ** (1 / 3)                                     # about one atom per 14 A^3
    base = rng.uniform(0, side, size=(n, 3)) + rng.uniform(-10, 10, size=3)
    mol, ens, els = gen_ensemble(rng, n=n, nc=nc, base=base)
    coords = np.array(ens.coords, dtype=np.float64)
    lo, hi = coords.reshape(-1, 3).min(0), coords.reshape(-1, 3).max(0)
    padding = float(rng.choice([0.0, 1.0, 2.0]))
    spacing = float(rng.choice([0.8, 1.0, 1.25]))
    vol = float(np.prod(hi - lo + 2 * padding + spacing))
    if vol / spacing ** 3 > 5000:
        spacing = float((vol / 5000) ** (1 / 3)) + 0.05
    dtype = "float64" if rng.random() < 0.25 else "float32"
    det = {"atoms": n, "conformers": nc, "elements": "".join(els)[:40], "padding": padding, "spacing": round(spacing, 4), "grid_dtype": dtype}
    grid = make_grid(ctx, case, rng, gb, lo, hi, padding, spacing, dtype, det)
    if grid is None:
        return
    det["grid_points"] = int(grid.shape[0])
    for bound in (127, 255):
        if n > bound + 1:
            ctx.count(f"descriptor.many-atoms.above-{bound + 1}-atoms")
    st = {"ens": ens, "grid": grid, "geoms": make_geoms(rng, ml, mol, ens)}
    snapshot(st)
    _, _, occ_any = field_reference(st["grid0"], st["coords"], st["radii"], None)
    ctx.case(case, dkey=("L", dhash(st["coords"], grid[:3]), n, spacing, dtype), nontrivial=bool(occ_any.any()) and not bool(occ_any.all()),
             sample={"part": 3, "large": "atoms", **det, "occupied_points": int(occ_any.sum())})
    evaluate(ctx, case, rng, gb, st, det, state, "repeat")
    edits = edit_ensemble(rng, ml, st)
    _DCACHE.clear()
    snapshot(st)
    ctx.count("descriptor.repeat.after-ensemble-edit")
    evaluate(ctx, case, rng, gb, st, {**det, "edits": edits}, state, "repeat", tags=("after-ensemble-edit",))


# ------------------------------------------------------------------------------------------------------ concurrent callers

THREAD_OPS = ["aso", "aso-weighted", "aeif", "aeif-weighted", "atomic_indicator_field", "prune", "nearest_atom_index"]


def run_desc_threads(spec, ctx):
    """T threads, each with its own ensemble (all of one shape) and one shared grid, call the descriptors at the same time --
    what ThreadPoolExecutor.map(aso, library) does.  Serial results first (judged against the definitions), then every
    concurrent result must equal the serial result of the same call."""
    import molli as ml
    import molli_xt  # noqa: F401
    from molli.descriptor import gridbased as gb

    case = ["T", spec["threads"]]
    if not ctx.want(case):
        return
    part3_note(ctx, gb)
    rng = ctx.nprng(*case)
    T, reps = spec["threads"], spec["reps"]
    n, nc = int(rng.choice([12, 16, 20])), int(rng.choice([4, 6, 8]))
    centre = rng.uniform(-5, 5, size=3)
    jobs = []
    for t in range(T):
        base = gen_coords(rng, n)
        base = base - base.mean(0) + centre + rng.normal(scale=1.0, size=3)
        mol, ens, els = gen_ensemble(rng, n=n, nc=nc, base=base)
        jobs.append({"ens": ens, "mol": ml.Molecule(mol), "els": els})
    allc = np.concatenate([np.array(j["ens"].coords, dtype=np.float64).reshape(-1, 3) for j in jobs])
    lo, hi = allc.min(0), allc.max(0)
    spacing = float(max(0.6, (float(np.prod(hi - lo + 3.0)) / 14000) ** (1 / 3)))
    grid = gb.rectangular_grid(lo, hi, padding=1.5, spacing=spacing)
    G = grid.shape[0]
    det = {"threads": T, "atoms": n, "conformers": nc, "grid_points": G, "spacing": round(spacing, 4)}
    ctx.case(case, dkey=("T", T, reps, n, nc, G), nontrivial=True, sample={"part": 3, "concurrent": True, **det})

    def do(job, op):
        ens = job["ens"]
        if op.startswith("aso"):
            return gb.aso(ens, grid, weighted=op.endswith("weighted"))
        if op.startswith("aeif"):
            return gb.aeif(ens, grid, weighted=op.endswith("weighted"))
        if op == "atomic_indicator_field":
            return gb.atomic_indicator_field(ens, grid, job["vals"], job["rad"], weighted=True)
        if op == "prune":
            return gb.prune(grid, ens, max_dist=1.5, eps=0.25)
        return gb.nearest_atom_index(grid, ens, max_dist=2.5)

    # ---- serial results, judged against the definitions (different ensembles of one shape on one grid, one after the other)
    state = {"case": case, "inside": 0, "tags": ()}
    for t, job in enumerate(jobs):
        _DCACHE.clear()
        ens = job["ens"]
        job["vals"], job["rad"] = rng.uniform(-2, 2, size=(nc, n)), rng.uniform(0.9, 2.6, size=n)
        st = {"ens": ens, "grid": grid, "geoms": [("Molecule", job["mol"])]}
        snapshot(st)
        d1 = {**det, "thread": t, "phase": "serial"}
        job["serial"] = {}
        for op in THREAD_OPS:
            try:
                res = job["serial"][op] = do(job, op)
            except Exception as e:  # noqa
                ctx.violation(f"{op.split('-')[0]}:raises:{type(e).__name__}", case=case, err=repr(e)[:300], **d1)
                continue
            inputs_intact(ctx, case, op.split("-")[0], st, d1)
            weighted = op.endswith("weighted") or op == "atomic_indicator_field"
            w = st["weights"] if weighted else None
            if op.startswith("aso"):
                check_field(ctx, case, "aso", weighted, res, *field_reference(st["grid0"], st["coords"], st["radii"], w), d1)
            elif op.startswith("aeif"):
                check_field(ctx, case, "aeif", weighted, res, *field_reference(st["grid0"], st["coords"], st["radii"], w, st["charges"]), d1,
                            scale=max(1.0, float(np.abs(st["charges"]).max())))
            elif op == "atomic_indicator_field":
                check_field(ctx, case, op, True, res, *field_reference(st["grid0"], st["coords"], job["rad"], w, job["vals"]), d1, scale=2.0)
            elif op == "prune":
                check_prune(ctx, case, st["grid0"], st["coords"].reshape(-1, 3), res, 1.5, 0.25, {**d1, "target": "ensemble"})
            else:
                check_nearest(ctx, case, "ensemble", st["grid0"], list(st["coords"]), res, 2.5, d1)
        job["st"] = st
    _DCACHE.clear()

    # ---- concurrent calls
    barrier = threading.Barrier(T)
    bad = [[] for _ in range(T)]
    errors = [[] for _ in range(T)]
    calls = [0] * T

    def compare(t, op, res, phase):
        want = jobs[t]["serial"].get(op)
        if want is None:
            return
        res = np.asarray(res)
        calls[t] += 1
        if res.shape != want.shape:
            bad[t].append((op, phase, -1))
        elif res.dtype.kind == "f":
            nb = int((~(np.abs(res - want) <= 1e-9)).sum())
            if nb:
                bad[t].append((op, phase, nb))
        elif not np.array_equal(res, want):
            bad[t].append((op, phase, int((res != want).sum())))

    def work(t):
        job = jobs[t]
        try:
            # phase A: all threads enter the same function together
            for op in THREAD_OPS:
                for _ in range(reps):
                    barrier.wait(timeout=300)
                    compare(t, op, do(job, op), "same-function-at-once")
            # phase B: every thread runs through the functions on its own, starting at a different one
            for _ in range(reps):
                for k in range(len(THREAD_OPS)):
                    op = THREAD_OPS[(k + 2 * t) % len(THREAD_OPS)]
                    compare(t, op, do(job, op), "different-functions")
        except threading.BrokenBarrierError:
            errors[t].append(("barrier", "broken"))
        except Exception as e:  # noqa
            errors[t].append(("call", f"{type(e).__name__}: {e!r}"[:300]))
            barrier.abort()

    ths = [threading.Thread(target=work, args=(t,), daemon=True) for t in range(T)]
    old_switch = sys.getswitchinterval()
    sys.setswitchinterval(1e-4)
    try:
        for th in ths:
            th.start()
        for th in ths:
            th.join(timeout=800)
    finally:
        sys.setswitchinterval(old_switch)
    if any(th.is_alive() for th in ths):
        raise RuntimeError("concurrent descriptor calls did not finish")
    ctx.count("descriptor.concurrent.calls", sum(calls))
    ctx.count("descriptor.concurrent.threads", T)
    seen = set()
    for t in range(T):
        for kind, e in errors[t]:
            if kind == "call":
                ctx.violation("descriptor:concurrent-call-raises", case=case, err=e, thread=t, **det)
        for op, phase, nb in bad[t]:
            if (op, phase) in seen:
                continue
            seen.add((op, phase))
            ctx.violation(f"{op.split('-')[0]}:concurrent-callers:result-differs-from-serial-call", case=case, op=op, phase=phase,
                          differing_elements=nb, thread=t, calls_differing_in_this_thread=sum(1 for b in bad[t] if b[0] == op), **det)
    if any(kind == "barrier" for t in range(T) for kind, _ in errors[t]) and not any(kind == "call" for t in range(T) for kind, _ in errors[t]):
        raise RuntimeError("barrier broken without a failing call (timeout under load)")
    for t, job in enumerate(jobs):
        inputs_intact(ctx, case, "descriptor-concurrent-calls", job["st"], {**det, "thread": t})
