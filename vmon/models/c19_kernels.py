"""
C19 part 1 -- the exported distance kernels of the DEPLOYED molli_xt extension against a float64 numpy evaluation.

run_kernel   : seeded cases (name x shapes x dtypes x layouts x value regime), values / dtype / shape / inputs unmodified
run_kndim    : wrong ndim must raise (in a subprocess: a crash there is a violation, not the end of the check)
run_kthreads : 8 threads call every kernel on shared inputs; results must equal the serial ones bit for bit
"""
from __future__ import annotations

import json
import re
import subprocess
import sys
import threading

import numpy as np

NAME_RE = re.compile(r"^cdist(22|32)([fd]?)_eu(2?)$")
SHAPE_SET = [0, 1, 2, 7, 64]
X_SET = [1, 2, 5, 0, 1, 3]
DTYPES = ["f4", "f8", "f4", "f8", "f2", "i4", "i8", "u1", ">f4", ">f8"]
LAYOUTS = ["C", "C", "F", "rows2", "last2", "transposed", "neg", "readonly", "unaligned", "broadcast", "list"]
REGIMES = ["uniform", "far", "ints", "mixed", "dups"]
ULPS = 4


def kernel_names():
    import molli_xt
    return sorted(n for n in dir(molli_xt) if NAME_RE.match(n))


def binary_note(ctx, part):
    from vmon.props.C19 import deployed_binary
    ctx.note(part, {"binary": deployed_binary(), "kernel_names": kernel_names(),
                    "exercises": "deployed extension module through Python"})


def values(rng, shape, regime, dtype):
    n = int(np.prod(shape))
    kind = np.dtype(dtype).kind
    if kind == "u":
        v = rng.integers(0, 200, size=n).astype(float)
    elif kind == "i" or regime == "ints":
        v = rng.integers(-3, 4, size=n).astype(float) if regime == "ints" else rng.integers(-60, 60, size=n).astype(float)
        if kind == "u":
            v = np.abs(v)
    elif regime == "uniform":
        v = rng.uniform(-10, 10, size=n)
    elif regime == "far":
        v = 1000.0 + rng.random(n)
    elif regime == "mixed":
        v = (rng.random(n) - 0.5) * 10.0 ** rng.integers(-3, 4, size=n)
    else:  # dups: many coincident points
        v = np.where(np.arange(n) % 6 < 3, 1.25, rng.random(n))
    if np.dtype(dtype) == np.float16:
        v = np.clip(v, -200, 200)
    return v.reshape(shape)


def layout(v, dtype, lay):
    """array-like holding exactly the values `v` cast to dtype, in the requested memory layout"""
    base = v.astype(dtype)
    shape = base.shape
    if lay == "C":
        return np.ascontiguousarray(base)
    if lay == "F":
        return np.asfortranarray(base)
    if lay == "rows2":
        big = np.zeros((shape[0] * 2,) + shape[1:], dtype)
        big[::2] = base
        return big[::2]
    if lay == "last2":
        big = np.full(shape[:-1] + (6,), 77, dtype)
        big[..., ::2] = base
        return big[..., ::2]
    if lay == "transposed":
        t = np.ascontiguousarray(np.moveaxis(base, -1, 0))
        return np.moveaxis(t, 0, -1)
    if lay == "neg":
        return np.ascontiguousarray(base[::-1])[::-1]
    if lay == "readonly":
        a = np.ascontiguousarray(base)
        a.setflags(write=False)
        return a
    if lay == "unaligned":
        dt = np.dtype(dtype)
        raw = np.zeros(base.size * dt.itemsize + 1, np.uint8)
        a = raw[1:].view(dt).reshape(shape)
        a[...] = base
        return a
    if lay == "broadcast":
        row = base.reshape(-1, 3)[:1] if base.size else np.zeros((1, 3), dtype)
        return np.broadcast_to(row.reshape((1,) * (len(shape) - 1) + (3,)), shape)
    if lay == "list":
        return base.tolist() if base.size else np.ascontiguousarray(base)
    raise ValueError(lay)


def exact_native(a, width):
    """True if pybind11 takes this argument for the overload of `width` without conversion"""
    return (isinstance(a, np.ndarray) and a.dtype == np.dtype(width) and a.dtype.isnative and a.flags.c_contiguous)


def reference(a, b, width, squared):
    a64 = np.asarray(a).astype(width).astype(np.float64)
    b64 = np.asarray(b).astype(width).astype(np.float64)
    d2 = ((a64[..., :, None, :] - b64[None, :, :]) ** 2).sum(-1)
    return d2 if squared else np.sqrt(d2)


def frozen(a):
    if isinstance(a, np.ndarray):
        return (a.dtype.str, a.shape, a.strides, a.flags.writeable, np.array(a, copy=True).tobytes())
    return json.dumps(a)


def run_kernel(spec, ctx):
    import molli_xt

    binary_note(ctx, "part1_kernels_python")
    names = kernel_names()
    if not names:
        raise RuntimeError("no cdist* name exported by molli_xt")
    for j in range(spec["n"]):
        case = ["k", spec["chunk"], j]
        if not ctx.want(case):
            continue
        rng = ctx.nprng(*case)
        gidx = spec["chunk"] * spec["n"] + j
        name = names[gidx % len(names)]
        m = NAME_RE.match(name)
        three, typed, squared = m.group(1) == "32", m.group(2), bool(m.group(3))
        N = int(rng.choice(SHAPE_SET)) if rng.random() < 0.75 else int(rng.integers(0, 90))
        M = int(rng.choice(SHAPE_SET)) if rng.random() < 0.75 else int(rng.integers(0, 90))
        X = int(rng.choice(X_SET))
        if rng.random() < 0.12:
            # beyond plausible block / unroll / threshold sizes: one long argument (the other one stays short)
            big = int(rng.choice([257, 300, 513, 1025, 4099, int(rng.integers(257, 5000))]))
            if rng.random() < 0.5:
                N, M = big, int(rng.integers(1, 40))
            else:
                N, M = int(rng.integers(1, 40)), big
            X = int(rng.choice([1, 2, 3]))
            if three and rng.random() < 0.4:
                X, N, M = int(rng.choice([9, 33, 130, 300])), int(rng.integers(1, 12)), int(rng.integers(1, 60))   # many conformers
            ctx.count("kernel.large-argument-cases")
        regime = REGIMES[int(rng.integers(len(REGIMES)))]
        da, db = (str(rng.choice(DTYPES)) for _ in range(2))
        if rng.random() < 0.45:
            db = da                                              # same-dtype pairs exercise the exact overload match
        la, lb = (str(rng.choice(LAYOUTS)) for _ in range(2))
        sa = (X, N, 3) if three else (N, 3)
        sb = (M, 3)
        a = layout(values(rng, sa, regime, da), da, la)
        b = layout(values(rng, sb, regime, db), db, lb)
        fa, fb = frozen(a), frozen(b)
        f = getattr(molli_xt, name)
        desc = {"name": name, "a": [list(sa), da, la], "b": [list(sb), db, lb], "regime": regime}
        foreign = not all(isinstance(x, np.ndarray) and x.flags.c_contiguous and x.dtype.isnative and x.dtype.kind == "f"
                          and x.dtype.itemsize in (4, 8) for x in (a, b))
        ctx.case(case, dkey=("k", name, sa, sb, da, db, la, lb, regime), nontrivial=N > 0 and M > 0 and (not three or X > 0) and foreign,
                 sample={"part": 1, **desc})
        ctx.count("kernel.cases")
        ctx.count(f"kernel.calls.{name}")
        if foreign:
            ctx.count("kernel.noncontiguous-or-foreign-dtype-cases")
        try:
            out = f(a, b)
        except Exception as e:  # noqa
            ctx.violation(f"kernel:raises-on-valid-input:{name}:{type(e).__name__}", case=case, err=repr(e)[:300], **desc)
            continue
        # inputs unmodified
        ctx.count("kernel.inputs-unmodified")
        if frozen(a) != fa or frozen(b) != fb:
            ctx.violation(f"kernel:modifies-input:{name}", case=case, **desc)
        # type / shape
        want_shape = (X, N, M) if three else (N, M)
        if not isinstance(out, np.ndarray) or out.dtype not in (np.dtype("f4"), np.dtype("f8")):
            ctx.violation(f"kernel:result-not-a-float-array:{name}", case=case, got=repr(getattr(out, "dtype", type(out))), **desc)
            continue
        width = out.dtype.str[1:]
        if out.shape != want_shape:
            ctx.violation(f"kernel:result-shape-wrong:{name}", case=case, got=list(out.shape), want=list(want_shape), **desc)
            continue
        if typed and width != {"f": "f4", "d": "f8"}[typed]:
            ctx.violation(f"kernel:typed-name-returns-other-width:{name}", case=case, got=width, **desc)
        if not typed:
            for w in ("f4", "f8"):
                if exact_native(a, w) and exact_native(b, w) and width != w:
                    ctx.violation(f"kernel:overload-ignores-input-width:{name}", case=case, got=width, want=w, **desc)
            if width == "f4" and any(isinstance(x, np.ndarray) and x.dtype.kind == "f" and x.dtype.itemsize == 8 for x in (a, b)):
                ctx.count("kernel.float64-input-computed-in-float32")
        if isinstance(a, np.ndarray) and out.size and (np.shares_memory(out, a) or (isinstance(b, np.ndarray) and np.shares_memory(out, b))):
            ctx.violation(f"kernel:result-aliases-input:{name}", case=case, **desc)
        # values
        ref = reference(a, b, width, squared)
        fi = np.finfo(out.dtype)
        tol = ULPS * fi.eps * np.abs(ref) + fi.tiny
        err = np.abs(out.astype(np.float64) - ref)
        bad = ~(err <= tol)
        ctx.count("kernel.elements-compared", int(ref.size))
        ctx.count(f"kernel.width.{width}")
        if bad.any():
            idx = tuple(int(i) for i in np.argwhere(bad)[0])
            ai = np.asarray(a)[idx[:-1]]
            bi = np.asarray(b)[idx[-1]]
            ctx.violation(f"kernel:values-differ-from-float64-numpy:{name}", case=case, n_bad=int(bad.sum()), of=int(ref.size), index=list(idx),
                          a_row=[float(x) for x in ai], b_row=[float(x) for x in bi], got=float(out[idx]), want=float(ref[idx]),
                          width=width, **desc)


# ----------------------------------------------------------------------------------------------------------------

NDIM_DRIVER = r"""
import sys, json, re, numpy as np, molli_xt
names = sorted(n for n in dir(molli_xt) if re.match(r'^cdist(22|32)[fd]?_eu2?$', n))
res = []
for name in names:
    f = getattr(molli_xt, name)
    good_a = 3 if name.startswith('cdist32') else 2
    for dt in ('f4', 'f8', 'i8'):
        for na in (0, 1, 2, 3, 4):
            for nb in (0, 1, 2, 3):
                if na == good_a and nb == 2:
                    continue
                a = np.ones((2,) * max(na - 1, 0) + ((3,) if na else ()), dt)
                b = np.ones((2,) * max(nb - 1, 0) + ((3,) if nb else ()), dt)
                sys.stderr.write('CALL %s %s a.ndim=%d b.ndim=%d\n' % (name, dt, na, nb)); sys.stderr.flush()
                try:
                    r = f(a, b)
                    res.append([name, dt, na, nb, 'returned', list(getattr(r, 'shape', ()))])
                except Exception as e:
                    res.append([name, dt, na, nb, 'raised', type(e).__name__])
print(json.dumps(res))
"""


def run_kndim(spec, ctx):
    case = ["ndim"]
    if not ctx.want(case):
        return
    binary_note(ctx, "part1_kernels_python")
    p = subprocess.run([sys.executable, "-X", "faulthandler", "-c", NDIM_DRIVER], capture_output=True, text=True, timeout=300)
    calls = re.findall(r"^CALL (.+)$", p.stderr, re.M)
    ctx.case(case, dkey="ndim", nontrivial=True, sample={"part": 1, "wrong_ndim_calls": len(calls), "exit": p.returncode})
    if p.returncode < 0:
        ctx.violation("kernel:wrong-ndim-crashes-interpreter", case=case, signal=-p.returncode, last_call=calls[-1] if calls else None,
                      stderr_tail=p.stderr[-800:])
        return
    if p.returncode != 0:
        raise RuntimeError(f"ndim driver failed rc={p.returncode}: {p.stderr[-800:]}")
    for name, dt, na, nb, what, info in json.loads(p.stdout.strip().splitlines()[-1]):
        if what == "raised":
            ctx.count("kernel.wrong-ndim.raised")
            ctx.count(f"kernel.wrong-ndim.raised.{info}")
        else:
            ctx.violation(f"kernel:wrong-ndim-accepted:{name}", case=case, dtype=dt, a_ndim=na, b_ndim=nb, returned_shape=info)


# ----------------------------------------------------------------------------------------------------------------

def run_kthreads(spec, ctx):
    import molli_xt

    case = ["threads", spec["threads"]]
    if not ctx.want(case):
        return
    binary_note(ctx, "part1_kernels_python")
    rng = ctx.nprng(*case)
    names = kernel_names()
    inputs = {}
    for w in ("f4", "f8"):
        a3 = rng.uniform(-10, 10, (3, 350, 3)).astype(w)
        a2 = rng.uniform(-10, 10, (1000, 3)).astype(w)
        b = rng.uniform(-10, 10, (500, 3)).astype(w)
        big = np.zeros((1000, 3), w)
        big[::2] = b
        inputs[w] = (a2, a3, b, big[::2])      # big[::2]: a shared NON-contiguous input (converted inside each call)
    jobs = []
    for name in names:
        three = name.startswith("cdist32")
        for w in ("f4", "f8"):
            a2, a3, b, bs = inputs[w]
            for bb in (b, bs):
                jobs.append((name, w, a3 if three else a2, bb))
    serial = [getattr(molli_xt, n)(a, b) for n, w, a, b in jobs]
    froz = {w: [x.tobytes() for x in inputs[w]] for w in inputs}
    nthreads, reps = spec["threads"], spec["reps"]
    barrier = threading.Barrier(nthreads)
    bad, errors, calls = [], [], [0] * nthreads

    def work(t):
        barrier.wait(timeout=120)
        for rep in range(reps):
            for k in range(len(jobs)):
                kk = (k + t * 3) % len(jobs)
                n, w, a, b = jobs[kk]
                try:
                    r = getattr(molli_xt, n)(a, b)
                except Exception as e:  # noqa
                    errors.append((n, w, repr(e)[:200]))
                    continue
                calls[t] += 1
                if r.dtype != serial[kk].dtype or r.shape != serial[kk].shape or r.tobytes() != serial[kk].tobytes():
                    bad.append((n, w, int((r != serial[kk]).sum()) if r.shape == serial[kk].shape else -1))

    ths = [threading.Thread(target=work, args=(t,), daemon=True) for t in range(nthreads)]
    old_switch = sys.getswitchinterval()
    sys.setswitchinterval(1e-4)     # threads coming back from a GIL-free kernel otherwise queue 5 ms each for the GIL
    try:
        for t in ths:
            t.start()
        for t in ths:
            t.join(timeout=600)
    finally:
        sys.setswitchinterval(old_switch)
    if any(t.is_alive() for t in ths):
        raise RuntimeError("concurrent kernel calls did not finish")
    ctx.case(case, dkey=("threads", nthreads, reps), nontrivial=True,
             sample={"part": 1, "threads": nthreads, "jobs": len(jobs), "calls": sum(calls)})
    ctx.count("kernel.concurrent.calls", sum(calls))
    ctx.count("kernel.concurrent.threads", nthreads)
    for n, w, nb in bad[:5]:
        ctx.violation(f"kernel:concurrent-result-differs-from-serial:{n}", case=case, width=w, differing_elements=nb, threads=nthreads)
    for n, w, e in errors[:5]:
        ctx.violation(f"kernel:concurrent-call-raises:{n}", case=case, width=w, err=e)
    for w in inputs:
        if [x.tobytes() for x in inputs[w]] != froz[w]:
            ctx.violation("kernel:concurrent-calls-modify-shared-input", case=case, width=w)
