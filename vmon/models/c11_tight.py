"""
c11_tight -- conditioning-aware contracts for the two rotation constructors (property C11), added after the gap review.

The shared contracts of vmon/contracts.py accept every error up to 1e-6 (vectors) / 1e-9 (axis).  That blanket bound is
what the Rodrigues arm of rotation_matrix_from_vectors can reach right at its branch switch; everywhere else it hides
errors nine orders of magnitude above what double precision delivers (e.g. an "already parallel" shortcut).  Here the
bound follows the condition of the input:

    rotation_matrix_from_vectors:  bound = min(1e-6, 64 * eps * (1 + 1 / (1 + cos(v1, v2))))
        (the Rodrigues form divides by 1 + cos; measured on the unchanged code: <= 7.2 * eps * (1 + 1/(1 + cos)) over 4e5
        inputs incl. rescaled vectors 1e-6..1e6; 1 + cos is computed as |u1 + u2|^2 / 2, which does not cancel)
    rotation_matrix_from_axis:     bound = 256 * eps  (closed formula of sin / cos; measured <= 11 * eps)

These clauses are installed *in addition to* the shared ones (same error keys: the key names the clause).
Top level: stdlib only.
"""
from __future__ import annotations

import math

EPS = 2.0 ** -52
K_RMFV = 64.0
RMFV_CAP = 1e-6
RMFA_BOUND = 256.0 * EPS

COUNTS: dict = {}
VACUOUS: dict = {}
WORST: dict = {}      # clause -> largest error / bound seen


def _count(name, err, bound):
    COUNTS[name] = COUNTS.get(name, 0) + 1
    if err == err and bound > 0:
        q = err / bound
        if q > WORST.get(name, 0.0):
            WORST[name] = float(q)


def _vacuous(name):
    VACUOUS[name] = VACUOUS.get(name, 0) + 1
    return True


def unit(v):
    """unit vector of a usable 3-vector, else None (same domain as the shared contracts)"""
    import numpy as np
    try:
        a = np.asarray(v, dtype=float)
    except (TypeError, ValueError):
        return None
    if a.shape != (3,) or not np.all(np.isfinite(a)):
        return None
    m = float(np.max(np.abs(a)))
    if not (1e-100 < m < 1e100):
        return None
    a = a / m
    return a / math.sqrt(float(a @ a))


def mat(result):
    import numpy as np
    try:
        r = np.asarray(result, dtype=float)
    except (TypeError, ValueError):
        return None
    if r.shape != (3, 3) or not np.all(np.isfinite(r)):
        return None
    return r


def one_plus_cos(u1, u2):
    w = u1 + u2
    return 0.5 * float(w @ w)


def rmfv_bound(u1, u2):
    """error bound for a rotation taking the unit vector u1 to u2, given what the documented (Rodrigues) form can do"""
    opc = one_plus_cos(u1, u2)
    if not opc > 1e-300:
        return RMFV_CAP
    return min(RMFV_CAP, K_RMFV * EPS * (1.0 + 1.0 / opc))


def rmfv_errors(u1, u2, r):
    import numpy as np
    return {
        "not-orthogonal": float(np.max(np.abs(r @ r.T - np.eye(3)))),
        "determinant-not-plus-one": abs(float(np.linalg.det(r)) - 1.0),
        "v1-not-taken-to-v2": float(np.max(np.abs(u1 @ r - u2))),
    }


def _rmfv_clause(name, which):
    def clause(_v1, _v2, result):
        r = mat(result)
        u1, u2 = unit(_v1), unit(_v2)
        if u1 is None or u2 is None or r is None:
            return _vacuous(name)
        b = rmfv_bound(u1, u2)
        e = rmfv_errors(u1, u2, r)[which]
        _count(name, e, b)
        return e <= b
    clause.__name__ = name.replace(".", "_").replace("-", "_")
    return clause


rmfv_tight_orthogonal = _rmfv_clause("rmfv.orthogonal-tight", "not-orthogonal")
rmfv_tight_proper = _rmfv_clause("rmfv.proper-tight", "determinant-not-plus-one")
rmfv_tight_image = _rmfv_clause("rmfv.image-tight", "v1-not-taken-to-v2")


def _angle(angle):
    try:
        a = float(angle)
    except (TypeError, ValueError):
        return None
    if not math.isfinite(a) or abs(a) > 1e6:
        return None
    return a


def perp(u):
    import numpy as np
    e = np.zeros(3)
    e[int(np.argmin(np.abs(u)))] = 1.0
    p = np.cross(u, e)
    return p / math.sqrt(float(p @ p))


def rmfa_errors(u, a, r, v=None):
    """errors of r as the rotation about the unit vector u by the angle a (either hand), probed with v perpendicular to u"""
    import numpy as np
    v = perp(u) if v is None else v
    w = r @ v
    c, s = float(v @ w), float(u @ np.cross(v, w))
    return {
        "not-orthogonal": float(np.max(np.abs(r @ r.T - np.eye(3)))),
        "determinant-not-plus-one": abs(float(np.linalg.det(r)) - 1.0),
        "axis-not-fixed": max(float(np.max(np.abs(r @ u - u))), float(np.max(np.abs(u @ r - u)))),
        "angle-wrong": max(abs(c - math.cos(a)), abs(abs(s) - abs(math.sin(a)))),
    }


def _rmfa_clause(name, which):
    def clause(_axis, angle, result):
        r = mat(result)
        u = unit(_axis)
        a = _angle(angle)
        if u is None or a is None or r is None:
            return _vacuous(name)
        e = rmfa_errors(u, a, r)[which]
        _count(name, e, RMFA_BOUND)
        return e <= RMFA_BOUND
    clause.__name__ = name.replace(".", "_").replace("-", "_")
    return clause


rmfa_tight_orthogonal = _rmfa_clause("rmfa.orthogonal-tight", "not-orthogonal")
rmfa_tight_proper = _rmfa_clause("rmfa.proper-tight", "determinant-not-plus-one")
rmfa_tight_axis = _rmfa_clause("rmfa.axis-tight", "axis-not-fixed")
rmfa_tight_angle = _rmfa_clause("rmfa.angle-tight", "angle-wrong")


def install():
    """the shared rotation contracts plus the tight clauses, wherever molli refers to the two constructors.
    Idempotent.  Returns what contracts.install_rotation_contracts() returns."""
    import molli  # noqa: F401
    import molli.math.rotation as rot
    from vmon import contracts

    inst = contracts.install_rotation_contracts()
    rmfv = [
        (rmfv_tight_orthogonal, "max|R R^T - I| <= min(1e-6, 64 eps (1 + 1/(1 + cos(v1, v2))))", contracts.RmfvNotOrthogonal),
        (rmfv_tight_proper, "|det R - 1| <= min(1e-6, 64 eps (1 + 1/(1 + cos(v1, v2))))", contracts.RmfvNotProper),
        (rmfv_tight_image, "max|v1/|v1| @ R - v2/|v2|| <= min(1e-6, 64 eps (1 + 1/(1 + cos(v1, v2))))",
         contracts.RmfvWrongImage),
    ]
    rmfa = [
        (rmfa_tight_orthogonal, "max|R R^T - I| <= 256 eps", contracts.RmfaNotOrthogonal),
        (rmfa_tight_proper, "|det R - 1| <= 256 eps", contracts.RmfaNotProper),
        (rmfa_tight_axis, "R axis = axis = axis R within 256 eps", contracts.RmfaAxisMoved),
        (rmfa_tight_angle, "a vector perpendicular to the axis is turned by the angle within 256 eps",
         contracts.RmfaWrongAngle),
    ]
    for name, clauses in (("rotation_matrix_from_vectors", rmfv), ("rotation_matrix_from_axis", rmfa)):
        current = getattr(rot, name)
        if getattr(current, "__c11_tight__", False):
            continue
        raw = getattr(current, "__vmon_original__", current)
        wrapped = contracts.with_postconditions(current, clauses)
        # icontract adds postconditions to an existing checker in place (wrapped is current); a new object is rebound
        try:
            wrapped.__vmon_original__ = raw
            wrapped.__c11_tight__ = True
        except AttributeError:
            pass
        if wrapped is not current:
            contracts.install_everywhere(current, wrapped)
    return inst
