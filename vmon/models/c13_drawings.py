"""
vmon.models.c13_drawings -- small hand-written CDXML drawings for property C13 (stdlib only, nothing from molli).

The bundled drawings hardly ever put a stereocentre into a part of the molecule that earlier wedges have already
turned out of the page, have two acyclic WedgeEnd bonds, no WedgedHashEnd bond and one perspective ring whose rear
atoms carry nothing.  The drawings below are plain zig-zag chains, a perspective (Haworth-like) ring and a bridged
ring, written with each of the six Display values, which `document()` places on a page under any rotation / reflection.

A template is (nodes, bonds): nodes {id: (x, y)} in page units (y down, bond length 30), bonds [(B, E, Display|None)].
"""
from __future__ import annotations

import math

BOND = 30.0
W, H, WE, HE = "WedgeBegin", "WedgedHashBegin", "WedgeEnd", "WedgedHashEnd"


def chain(n, branches=(), marks=None, extra=()):
    """zig-zag chain 100..100+n-1 along x; a branch atom 200+k on chain atom k pointing away from the zig-zag; `extra`
    gives chain atom k a fourth neighbour 300+k (both branch atoms then splay).  marks: {(narrow, wide): Display};
    for an ...End value the bond is written with B = wide end, E = narrow end."""
    marks = dict(marks or {})
    nodes = {100 + k: (26.0 * k, 15.0 * (k % 2)) for k in range(n)}
    pairs = [(100 + k, 101 + k) for k in range(n - 1)]
    for k in branches:
        x, y = nodes[100 + k]
        nodes[200 + k] = (x, y + (30.0 if k % 2 else -30.0))
        pairs.append((100 + k, 200 + k))
    for k in extra:
        x, y = nodes[100 + k]
        s = 29.0 if k % 2 else -29.0
        nodes[300 + k] = (x + 8.0, y + s)
        nodes[200 + k] = (x - 8.0, y + s)
        pairs.append((100 + k, 300 + k))
    bonds = []
    for a, b in pairs:
        if (a, b) in marks:
            d = marks.pop((a, b))
            bonds.append((b, a, d) if d.endswith("End") else (a, b, d))
        elif (b, a) in marks:
            d = marks.pop((b, a))
            bonds.append((a, b, d) if d.endswith("End") else (b, a, d))
        else:
            bonds.append((a, b, None))
    if marks:
        raise ValueError(f"marks on bonds that are not drawn: {marks}")
    return nodes, bonds


def perspective_ring(front="Bold", side=W, side2=None):
    """six-membered ring seen from the side: left and right atoms at mid height, the front edge (lower on the page)
    drawn thick: left -wedge-> front-left =bold= front-right <-wedge- right.  The two rear atoms carry two and one
    plain substituents (they are what the ring is compared with), the front-left atom one."""
    nodes = {1: (22.0, 0.0), 2: (0.0, 20.0), 3: (22.0, 40.0), 4: (58.0, 40.0), 5: (80.0, 20.0), 6: (58.0, 0.0),
             11: (22.0, -30.0), 12: (-4.0, -12.0), 16: (58.0, -30.0), 13: (22.0, 70.0)}
    side2 = side2 or side

    def mark(narrow, wide, d):
        return (wide, narrow, d) if d and d.endswith("End") else (narrow, wide, d)

    bonds = [(1, 2, None), mark(2, 3, side), (3, 4, front), mark(5, 4, side2), (5, 6, None), (6, 1, None),
             (1, 11, None), (1, 12, None), (6, 16, None), (3, 13, None)]
    return nodes, bonds


def bridged_ring(disp=W, quaternary=False):
    """regular six-membered ring 1..6 with a one-atom bridge 7 between atoms 1 and 4, drawn off-centre; the bridge
    bond 1 -> 7 carries the mark (a ring bond whose narrow end is a ring-fusion centre with three ring neighbours, as in
    bundled 'taxadiene'); `quaternary` gives that centre a fourth, plain substituent."""
    nodes = {}
    for k in range(6):
        a = math.radians(90.0 + 60.0 * k)
        nodes[k + 1] = (30.0 * math.cos(a), -30.0 * math.sin(a))
    nodes[7] = (9.0, 3.0)
    bonds = [(k + 1, (k + 1) % 6 + 1, None) for k in range(6)]
    bonds.append((7, 1, disp) if disp.endswith("End") else (1, 7, disp))
    bonds.append((4, 7, None))
    nodes[8] = (-26.0, 15.0 + 30.0)        # a plain substituent on atom 3: one more fixed point of the drawing
    bonds.append((3, 8, None))
    if quaternary:
        nodes[9] = (0.0, -60.0)
        bonds.append((1, 9, None))
    return nodes, bonds


def fused_rings(disp=W, quaternary=False):
    """two regular six-membered rings sharing the bond 1-2; the ring bond 1 -> 6 carries the mark: its narrow end is a
    ring-fusion centre whose three ring bonds point 120 degrees apart (the Y shape of bundled 'taxadiene')"""
    r3 = 30.0 * math.sqrt(3.0) / 2.0
    nodes = {1: (0.0, -15.0), 2: (0.0, 15.0), 3: (-r3, 30.0), 4: (-2 * r3, 15.0), 5: (-2 * r3, -15.0), 6: (-r3, -30.0),
             7: (r3, -30.0), 8: (2 * r3, -15.0), 9: (2 * r3, 15.0), 10: (r3, 30.0), 11: (-3 * r3, 30.0)}
    ring = [(1, 2), (2, 3), (3, 4), (4, 5), (5, 6), (1, 7), (7, 8), (8, 9), (9, 10), (10, 2), (4, 11)]
    bonds = [(a, b, None) for a, b in ring]
    bonds.append((6, 1, disp) if disp.endswith("End") else (1, 6, disp))
    if quaternary:
        nodes[12] = (12.0, -42.0)
        bonds.append((1, 12, None))
    return nodes, bonds


def templates():
    """label -> (nodes, bonds).  Labels say what the drawing exercises."""
    t = {}
    # a stereocentre inside a part that earlier bends have turned: two 60-degree bends, then a third centre
    t["double-bend"] = chain(7, (1, 3, 5), {(101, 102): W, (103, 104): W, (105, 205): W})
    t["double-bend-mixed"] = chain(7, (1, 3, 5), {(101, 102): H, (103, 104): W, (105, 205): H})
    t["double-bend-ends"] = chain(7, (1, 3, 5), {(101, 102): WE, (103, 104): HE, (105, 205): WE})
    t["triple-bend"] = chain(8, (1, 3, 5), {(101, 102): W, (103, 104): H, (105, 106): W})
    t["triple-bend-ends"] = chain(8, (1, 3, 5), {(101, 102): HE, (103, 104): HE, (105, 106): WE})
    # one 90-degree bend (centre with four neighbours), then a centre in the bent part
    t["right-angle-bend"] = chain(5, (1, 3), {(101, 102): W, (103, 203): W}, extra=(1,))
    t["right-angle-bend-hash"] = chain(5, (1, 3), {(101, 102): H, (103, 203): W}, extra=(1,))
    t["right-angle-bend-ends"] = chain(5, (1, 3), {(101, 102): WE, (103, 203): HE}, extra=(1,))
    # two 90-degree bends: the part behind them has been turned by 180 degrees.  In the first two drawings the second
    # bent bond is parallel to the first one, in the other two it is the next bond of the zig-zag.
    t["two-right-angles"] = chain(7, (1, 3, 5), {(101, 102): W, (103, 104): W, (105, 205): W}, extra=(1, 3))
    t["two-right-angles-mixed"] = chain(7, (1, 3, 5), {(101, 102): H, (103, 104): W, (105, 205): H}, extra=(1, 3))
    t["half-turn"] = chain(6, (1, 2, 4), {(101, 102): W, (102, 103): W, (104, 204): W}, extra=(1, 2))
    t["half-turn-mixed-ends"] = chain(6, (1, 2, 4), {(101, 102): HE, (102, 103): W, (104, 204): HE}, extra=(1, 2))
    # a single centre of each Display value
    for d, nm in ((W, "wedge-begin"), (H, "hash-begin"), (WE, "wedge-end"), (HE, "hash-end")):
        t["single-" + nm] = chain(3, (1,), {(101, 201): d})
        t["single-quaternary-" + nm] = chain(3, (1,), {(101, 102): d}, extra=(1,))
    # rings
    t["perspective-ring"] = perspective_ring("Bold", W)
    t["perspective-ring-rear"] = perspective_ring("Hash", H)          # the thick edge is the far one
    t["perspective-ring-ends"] = perspective_ring("Bold", WE, W)
    t["perspective-ring-rear-ends"] = perspective_ring("Hash", HE)
    t["bridged-ring"] = bridged_ring(W)
    t["bridged-ring-hash-end"] = bridged_ring(HE)
    t["bridged-ring-quaternary"] = bridged_ring(W, quaternary=True)
    t["fused-rings"] = fused_rings(W)
    t["fused-rings-hash-end"] = fused_rings(HE)
    t["fused-rings-quaternary"] = fused_rings(H, quaternary=True)
    # every bond order a drawing can state (an Order attribute of 1..6 and 1.5), no stereo marks
    nodes, bonds = chain(8)
    t["bond-orders"] = (nodes, [(a, b, d, o) for (a, b, d), o in zip(bonds, ("1", "2", "3", "4", "5", "6", "1.5"))])
    nodes, bonds = chain(4, (1, 2))
    t["bond-orders-metal-metal"] = (nodes, [(a, b, d, o) for (a, b, d), o in zip(bonds, ("1", "4", "1", "2", "5"))])
    return t


def _fmt(x):
    s = f"{x:.4f}".rstrip("0").rstrip(".")
    return s if s not in ("-0", "") else "0"


def document(angle_deg=0.0, reflect=False, origin=(200.0, 300.0), pitch=260.0, per_row=6, only=None, skip=()):
    """one page with every template (or those named in `only`) rotated by angle_deg about its own centre (after an
    optional left-right reflection), fragments on a grid, the bold label under each fragment"""
    a = math.radians(angle_deg)
    ca, sa = math.cos(a), math.sin(a)
    out = ['<?xml version="1.0" encoding="UTF-8" ?>', f'<CDXML BondLength="{_fmt(BOND)}"><page id="1">']
    nid = 1000
    for k, (label, (nodes, bonds)) in enumerate(templates().items()):
        if (only and label not in only) or label in skip:
            continue
        cx = sum(x for x, _ in nodes.values()) / len(nodes)
        cy = sum(y for _, y in nodes.values()) / len(nodes)
        ox, oy = origin[0] + pitch * (k % per_row), origin[1] + pitch * (k // per_row)
        xy = {}
        for i, (x, y) in nodes.items():
            x, y = x - cx, y - cy
            if reflect:
                x = -x
            xy[i] = (ox + ca * x - sa * y, oy + sa * x + ca * y)
        xs, ys = [p[0] for p in xy.values()], [p[1] for p in xy.values()]
        base = nid
        ids = {i: str(base + 1 + j) for j, i in enumerate(nodes)}
        nid = base + 1 + len(nodes)
        out.append(f'<fragment id="{base}" BoundingBox="{_fmt(min(xs))} {_fmt(min(ys))} {_fmt(max(xs))} {_fmt(max(ys))}">')
        for i in nodes:
            out.append(f'<n id="{ids[i]}" p="{_fmt(xy[i][0])} {_fmt(xy[i][1])}"/>')
        for (B, E, d, *order) in bonds:
            out.append(f'<b id="{nid}" B="{ids[B]}" E="{ids[E]}"' + (f' Order="{order[0]}"' if order and order[0] != "1" else "")
                       + (f' Display="{d}"' if d else "") + "/>")
            nid += 1
        out.append("</fragment>")
        ly = max(ys) + 25.0
        out.append(f'<t id="{nid}" p="{_fmt(ox - 20.0)} {_fmt(ly)}" BoundingBox="{_fmt(ox - 20.0)} {_fmt(ly - 8.0)} '
                   f'{_fmt(ox + 20.0)} {_fmt(ly + 4.0)}"><s face="1">{label}</s></t>')
        nid += 1
    out += ["</page></CDXML>"]
    return "\n".join(out) + "\n"
