"""
rigid_pytest_contracts -- pytest plugin used by the C11 check: runs the repository's own test-suite with the
rotation contracts of vmon.contracts attached (extra, realistic workload for the contracts).

    python -m pytest -p vmon.models.rigid_pytest_contracts <repo>/molli_test

Writes {"counts": ..., "raised": [[key, message, test id], ...], "tests": n} to $VMON_CONTRACTS_OUT at the end.
"""
from __future__ import annotations

import json
import os

_STATE = {"tests": 0, "current": None, "raised": []}


def pytest_configure(config):
    from vmon import contracts

    contracts.install_rotation_contracts()


def pytest_runtest_setup(item):
    _STATE["current"] = item.nodeid
    _STATE["tests"] += 1


def pytest_runtest_teardown(item, nextitem):
    from vmon import contracts

    # contract errors raised while this test ran (also those a test swallowed)
    while contracts.RAISED:
        key, msg = contracts.RAISED.pop(0)
        _STATE["raised"].append([key, msg, item.nodeid])


def pytest_sessionfinish(session, exitstatus):
    from vmon import contracts

    out = os.environ.get("VMON_CONTRACTS_OUT")
    if not out:
        return
    while contracts.RAISED:
        key, msg = contracts.RAISED.pop(0)
        _STATE["raised"].append([key, msg, _STATE["current"]])
    with open(out, "w") as f:
        json.dump({"counts": contracts.COUNTS, "vacuous": contracts.VACUOUS, "raised": _STATE["raised"],
                   "tests": _STATE["tests"], "exitstatus": int(exitstatus)}, f)
