"""
jobmapmodel -- reference model of `molli.pipeline.jobmap` over a history of runs (C18).

Pure stdlib; nothing here imports molli.  The model knows nothing about files or hashes: the *identity*
of a job input is the pair (job, arg) -- two prepared inputs have the same hash iff they belong to the
same job (item, or item.conformer) and were prepared with the same arguments.

State
    dests : destination-id -> {key: value}       (value = whatever the harness stores; opaque, compared by ==)
    cache : job -> CacheEntry                     (which input produced the cached output, and did that run succeed)
    attempts : job -> number of executions so far (the scripted commands key their behaviour on it)

A run over source S (key -> list of jobs; one job for a single item, one per conformer for a vectorised
item) with argument `arg` into destination `d`:

    * a key already in the destination is not executed and keeps its value;
    * a job whose cache entry was produced by this very input and succeeded is not executed, its cached
      output is what gets processed;
    * every other job is executed exactly once; what it does is plan[job][attempt];
    * the destination gains exactly the keys all of whose jobs succeeded (now or from a valid cache);
      the value records which output (job, arg, attempt) of *this* item was processed;
    * keys that are only in the destination, and other destinations, are untouched.

"success" of a run = its command exited 0 and the requested return file exists -- the same definition
`_molli_run` applies to its own exit status.
"""
from __future__ import annotations

MODES = ("ok", "fail_file", "fail_nofile", "omit", "crash")
#   ok           command exits 0 and writes the return file
#   fail_file    command writes the return file (partial result), then exits non-zero
#   fail_nofile  command exits non-zero without a return file
#   omit         command exits 0 but does not produce the return file
#   crash        the runner process is killed while the command runs: no output is recorded at all


def mode_at(plan, attempt):
    """what the scripted command does on its `attempt`-th execution (1-based); the last entry repeats"""
    return plan[min(attempt, len(plan)) - 1]


class CacheEntry:
    """what the cache holds for one job"""

    __slots__ = ("input", "exit_ok", "has_file", "readable", "attempt", "origin")

    def __init__(self, input, exit_ok, has_file, attempt, readable=True, origin="run"):
        self.input = input          # (job, arg) of the input that produced it; None = unknown / foreign
        self.exit_ok = exit_ok
        self.has_file = has_file
        self.readable = readable
        self.attempt = attempt
        self.origin = origin

    @property
    def success(self):
        return bool(self.readable and self.exit_ok and self.has_file)

    def copy(self, **kw):
        e = CacheEntry(self.input, self.exit_ok, self.has_file, self.attempt, self.readable, self.origin)
        for k, v in kw.items():
            setattr(e, k, v)
        return e

    def describe(self):
        if not self.readable:
            return {"readable": False}
        return {"input": list(self.input) if self.input else None, "exit_ok": self.exit_ok,
                "has_file": self.has_file, "attempt": self.attempt, "origin": self.origin}


def cache_state(entry, job, arg):
    """classification of a cache entry with respect to the input (job, arg) -- the reason a job runs or not"""
    if entry is None:
        return "no-cache"
    if not entry.readable:
        return "cache-unreadable"
    if entry.input != (job, arg):
        return "cache-other-input"
    if not entry.exit_ok:
        return "cache-failed-exit"
    if not entry.has_file:
        return "cache-missing-return-file"
    return "valid-cache"


def computed_value(key, outs, arg):
    """the value a correct jobmap stores for `key`: the item itself, processed with outs = [(job, arg, attempt)]"""
    return {"obj": key, "post_arg": arg,
            "outs": [{"job": j, "arg": a, "attempt": n, "status": "ok"} for j, a, n in outs]}


class Expect:
    """expectation for one run (pure data)"""

    def __init__(self):
        self.executions = {}    # job -> 0 | 1
        self.why = {}           # job -> in-destination | valid-cache | no-cache | cache-*
        self.mode = {}          # job -> scripted outcome of the expected execution
        self.item = {}          # key -> kept | gained-now | gained-from-cache | gained-mixed | absent
        self.new_entries = {}   # job -> CacheEntry | None (None: cache unchanged)
        self.dest_after = {}    # key -> value
        self.dest_before = {}
        self.dest_only = []     # keys in the destination that are not in the source
        self.d = None
        self.arg = None

    def n_exec(self):
        return sum(self.executions.values())

    def n_skip(self):
        return sum(1 for v in self.executions.values() if v == 0)


class JobMapModel:
    def __init__(self, plans):
        self.plans = {j: list(p) for j, p in plans.items()}
        self.attempts = {j: 0 for j in plans}
        self.cache = {}
        self.dests = {}

    # ---- state access -------------------------------------------------------------------
    def dest(self, d):
        return self.dests.setdefault(d, {})

    def prepopulate(self, d, key, value):
        self.dest(d)[key] = value

    def clone(self):
        m = JobMapModel(self.plans)
        m.attempts = dict(self.attempts)
        m.cache = {j: e.copy() for j, e in self.cache.items()}
        m.dests = {d: dict(v) for d, v in self.dests.items()}
        return m

    # ---- one run ---------------------------------------------------------------------------
    def step(self, source, d, arg) -> Expect:
        """expectation for jobmap(source -> destination d, arguments arg); does not change the model"""
        x = Expect()
        x.d, x.arg = d, arg
        before = self.dest(d)
        x.dest_before = dict(before)
        x.dest_after = dict(before)
        x.dest_only = sorted(k for k in before if k not in source)
        for key, jobs in source.items():
            if key in before:
                for j in jobs:
                    x.executions[j] = 0
                    x.why[j] = "in-destination"
                x.item[key] = "kept"
                continue
            outs, ok_all, n_now = [], True, 0
            for j in jobs:
                e = self.cache.get(j)
                st = cache_state(e, j, arg)
                x.why[j] = st
                if st == "valid-cache":
                    x.executions[j] = 0
                    outs.append((j, arg, e.attempt))
                    continue
                x.executions[j] = 1
                n = self.attempts[j] + 1
                mode = mode_at(self.plans[j], n)
                x.mode[j] = mode
                if mode == "ok":
                    x.new_entries[j] = CacheEntry((j, arg), True, True, n)
                    outs.append((j, arg, n))
                    n_now += 1
                else:
                    ok_all = False
                    if mode == "fail_file":
                        x.new_entries[j] = CacheEntry((j, arg), False, True, n)
                    elif mode == "fail_nofile":
                        x.new_entries[j] = CacheEntry((j, arg), False, False, n)
                    elif mode == "omit":
                        x.new_entries[j] = CacheEntry((j, arg), True, False, n)
                    else:  # crash: nothing recorded, whatever was cached stays
                        x.new_entries[j] = None
            if ok_all:
                x.dest_after[key] = computed_value(key, outs, arg)
                x.item[key] = ("gained-now" if n_now == len(jobs) else
                               "gained-from-cache" if n_now == 0 else "gained-mixed")
            else:
                x.item[key] = "absent"
        return x

    def commit(self, x: Expect):
        for j, n in x.executions.items():
            self.attempts[j] += n
        for j, e in x.new_entries.items():
            if e is not None:
                self.cache[j] = e
        self.dests[x.d] = dict(x.dest_after)

    # ---- tampering with the cache between runs ---------------------------------------
    def t_delete(self, job):
        self.cache.pop(job, None)

    def t_corrupt(self, job):
        e = self.cache.get(job)
        self.cache[job] = (e.copy(readable=False, origin="corrupted") if e is not None
                           else CacheEntry(None, False, False, 0, readable=False, origin="corrupted"))

    def t_copy(self, src_job, dst_job):
        """the cache file of src_job is stored under dst_job's name (an output of another input)"""
        e = self.cache.get(src_job)
        if e is None:
            return False
        self.cache[dst_job] = e.copy(origin=f"copy-of-{src_job}")
        return True

    def t_flip_exit(self, job):
        e = self.cache.get(job)
        if e is None or not e.readable:
            return False
        self.cache[job] = e.copy(exit_ok=False, origin="exitcode-flipped")
        return True

    def t_rehash(self, job):
        e = self.cache.get(job)
        if e is None or not e.readable:
            return False
        self.cache[job] = e.copy(input=None, origin="hash-replaced")
        return True


def simulate(plans, prepop, runs, sources):
    """run a whole history through the model alone -> list of Expect (used to cost / classify a history up front).

    prepop: {d: {key: value}};  runs: [{"arg","dest","tamper":[(op, job[, job2])], "source": index}];
    sources: list of {key: [jobs]}.
    """
    m = JobMapModel(plans)
    for d, kv in prepop.items():
        for k, v in kv.items():
            m.prepopulate(d, k, v)
    out = []
    for r in runs:
        for t in r.get("tamper", ()):
            apply_tamper(m, t)
        x = m.step(sources[r["source"]], r["dest"], r["arg"])
        m.commit(x)
        out.append(x)
    return out


def apply_tamper(m: JobMapModel, t):
    op = t[0]
    if op == "delete":
        m.t_delete(t[1])
        return True
    if op == "corrupt":
        m.t_corrupt(t[1])
        return True
    if op == "copy":
        return m.t_copy(t[1], t[2])
    if op == "flip_exit":
        return m.t_flip_exit(t[1])
    if op == "rehash":
        return m.t_rehash(t[1])
    raise ValueError(op)
