"""
jobmapmodel -- reference model of `molli.pipeline.jobmap` over a history of runs (C18).

Pure stdlib; nothing here imports molli.  The model knows nothing about files or hashes: the *identity*
of a job input is the triple (job, arg, version) -- two prepared inputs have the same hash iff they belong to
the same job (item, or item.conformer), were prepared with the same arguments and from the same content of the
item (the version counts the edits of the item in the source library).

State
    dests : destination-id -> {key: value}       (value = whatever the harness stores; opaque, compared by ==)
    cache : job -> CacheEntry                     (which input produced the cached output, and did that run succeed)
    attempts : job -> number of executions so far (the scripted commands key their behaviour on it)
    version : key -> number of edits of the item in the source

A run over source S (key -> list of jobs; one job for a single item, one per conformer for a vectorised
item) with argument `arg` into destination `d`:

    * a key already in the destination is not executed and keeps its value;
    * a job whose cache entry was produced by this very input and succeeded is not executed, its cached
      output is what gets processed;
    * every other job is executed exactly once; what it does is plan[job][attempt];
    * the destination gains exactly the keys all of whose jobs succeeded (now or from a valid cache) and whose
      post-processing does not raise; the value records which output (job, arg, version, attempt) of *this* item
      was processed;
    * keys that are only in the destination, and other destinations, are untouched.

"success" of a run = all its commands exited 0 and every requested return file exists -- the same definition
`_molli_run` applies to its own exit status.  A job that requests no files succeeds iff its commands exited 0.

strict=False (jobmap(strict_hash=False)): the identity of the input is not compared, everything else as before.
"""
from __future__ import annotations

MODES = ("ok", "fail_file", "fail_nofile", "omit", "crash", "aux_fail", "unparsable")
#   ok           every command exits 0, the main command writes the return file(s) / prints the result
#   fail_file    the main command writes the return file (partial result), then exits non-zero
#                (commands that follow it in the job would exit 0)
#   fail_nofile  the main command exits non-zero without a return file
#   omit         every command exits 0 but the return file is not produced
#   crash        the runner process is killed while the command runs: no output is recorded at all
#   aux_fail     an auxiliary (non-main) command of a multi-command job exits non-zero; the main command, where
#                it runs, writes a complete result
#   unparsable   every command exits 0, every requested file comes back, but the driver's post step raises on it


def mode_at(plan, attempt):
    """what the scripted command does on its `attempt`-th execution (1-based); the last entry repeats"""
    return plan[min(attempt, len(plan)) - 1]


class CacheEntry:
    """what the cache holds for one job"""

    __slots__ = ("input", "exit_ok", "has_file", "readable", "attempt", "origin", "parsable", "made_by")

    def __init__(self, input, exit_ok, has_file, attempt, readable=True, origin="run", parsable=True, made_by=None):
        self.input = input          # (job, arg, version) of the input that produced it; None = unknown / foreign
        self.exit_ok = exit_ok
        self.has_file = has_file
        self.readable = readable
        self.attempt = attempt
        self.origin = origin
        self.parsable = parsable    # False: the driver's post step raises on this output
        self.made_by = made_by if made_by is not None else input   # what the producing command wrote into it

    @property
    def success(self):
        return bool(self.readable and self.exit_ok and self.has_file)

    def copy(self, **kw):
        e = CacheEntry(self.input, self.exit_ok, self.has_file, self.attempt, self.readable, self.origin,
                       self.parsable, self.made_by)
        for k, v in kw.items():
            setattr(e, k, v)
        return e

    def describe(self):
        if not self.readable:
            return {"readable": False}
        d = {"input": list(self.input) if self.input else None, "exit_ok": self.exit_ok,
             "has_file": self.has_file, "attempt": self.attempt, "origin": self.origin}
        if not self.parsable:
            d["parsable"] = False
        return d


def cache_state(entry, input_id, strict=True):
    """classification of a cache entry with respect to the input -- the reason a job runs or not"""
    if entry is None:
        return "no-cache"
    if not entry.readable:
        return "cache-unreadable"
    if strict and entry.input != input_id:
        if entry.input is not None and tuple(entry.input[:2]) == tuple(input_id[:2]):
            return "cache-other-input-files-only"      # same job, same arguments: only the item's content differs
        return "cache-other-input"
    if not entry.exit_ok:
        return "cache-failed-exit"
    if not entry.has_file:
        return "cache-missing-return-file"
    if not entry.parsable:
        return "valid-cache-unparsable"
    return "valid-cache"


def computed_value(key, outs, arg):
    """the value a correct jobmap stores for `key`: the item itself, processed with outs = [(job, arg, ver, attempt)]"""
    return {"obj": key, "post_arg": arg,
            "outs": [{"job": j, "arg": a, "ver": v, "attempt": n, "status": "ok"} for j, a, v, n in outs]}


class Expect:
    """expectation for one run (pure data)"""

    def __init__(self):
        self.executions = {}    # job -> 0 | 1
        self.why = {}           # job -> in-destination | valid-cache | no-cache | cache-*
        self.mode = {}          # job -> scripted outcome of the expected execution
        self.item = {}          # key -> kept | gained-now | gained-from-cache | gained-mixed | absent | absent-post-raises
        self.new_entries = {}   # job -> CacheEntry | None (None: cache unchanged)
        self.input_id = {}      # job -> identity of the input prepared in this run
        self.dest_after = {}    # key -> value
        self.dest_before = {}
        self.dest_only = []     # keys in the destination that are not in the source
        self.d = None
        self.arg = None
        self.strict = True

    def n_exec(self):
        return sum(self.executions.values())

    def n_skip(self):
        return sum(1 for v in self.executions.values() if v == 0)


class JobMapModel:
    def __init__(self, plans, needs_files=True, aux_after_main=None):
        self.plans = {j: list(p) for j, p in plans.items()}
        self.attempts = {j: 0 for j in plans}
        self.cache = {}
        self.dests = {}
        self.version = {}
        self.needs_files = needs_files                  # False: the job requests no return files
        self.aux_after_main = dict(aux_after_main or {})  # job -> the auxiliary command comes after the main one

    # ---- state access -------------------------------------------------------------------
    def dest(self, d):
        return self.dests.setdefault(d, {})

    def prepopulate(self, d, key, value):
        self.dest(d)[key] = value

    def edit(self, key):
        """the item is replaced in the source by an object of the same key and name with other content"""
        self.version[key] = self.version.get(key, 0) + 1

    def outcome(self, job, mode):
        """(exit_ok, has_file, parsable) recorded for an execution in this mode; None = nothing recorded"""
        nf = not self.needs_files
        if mode == "ok":
            return (True, True, True)
        if mode == "fail_file":
            return (False, True, True)
        if mode == "fail_nofile":
            return (False, nf, True)
        if mode == "omit":               # a job without return files that prints nothing: post cannot parse it
            return (True, True, False) if nf else (True, False, True)
        if mode == "aux_fail":
            return (False, bool(nf or self.aux_after_main.get(job)), True)
        if mode == "unparsable":
            return (True, True, False)
        if mode == "crash":
            return None
        raise ValueError(mode)

    # ---- one run ---------------------------------------------------------------------------
    def step(self, source, d, arg, strict=True) -> Expect:
        """expectation for jobmap(source -> destination d, arguments arg); does not change the model"""
        x = Expect()
        x.d, x.arg, x.strict = d, arg, strict
        before = self.dest(d)
        x.dest_before = dict(before)
        x.dest_after = dict(before)
        x.dest_only = sorted(k for k in before if k not in source)
        for key, jobs in source.items():
            ver = self.version.get(key, 0)
            if key in before:
                for j in jobs:
                    x.executions[j] = 0
                    x.why[j] = "in-destination"
                x.item[key] = "kept"
                continue
            outs, ok_all, n_now, post_raises = [], True, 0, False
            for j in jobs:
                e = self.cache.get(j)
                iid = (j, arg, ver)
                x.input_id[j] = iid
                st = cache_state(e, iid, strict)
                x.why[j] = st
                if st in ("valid-cache", "valid-cache-unparsable"):
                    x.executions[j] = 0
                    outs.append(tuple(e.made_by) + (e.attempt,))
                    if st == "valid-cache-unparsable":
                        post_raises = True
                    continue
                x.executions[j] = 1
                n = self.attempts[j] + 1
                mode = mode_at(self.plans[j], n)
                x.mode[j] = mode
                oc = self.outcome(j, mode)
                if oc is None:          # crash: nothing recorded, whatever was cached stays
                    x.new_entries[j] = None
                    ok_all = False
                    continue
                exit_ok, has_file, parsable = oc
                x.new_entries[j] = CacheEntry(iid, exit_ok, has_file, n, parsable=parsable)
                if exit_ok and has_file:
                    outs.append(iid + (n,))
                    n_now += 1
                    if not parsable:
                        post_raises = True
                else:
                    ok_all = False
            if ok_all and not post_raises:
                x.dest_after[key] = computed_value(key, outs, arg)
                x.item[key] = ("gained-now" if n_now == len(jobs) else
                               "gained-from-cache" if n_now == 0 else "gained-mixed")
            elif ok_all:
                x.item[key] = "absent-post-raises"
            else:
                x.item[key] = "absent"
        return x

    def commit(self, x: Expect):
        for j, n in x.executions.items():
            self.attempts[j] += n
        for j, e in x.new_entries.items():
            if e is not None:
                self.cache[j] = e
        self.dests[x.d] = dict(x.dest_after)

    # ---- tampering with the cache between runs ---------------------------------------
    def t_delete(self, job):
        self.cache.pop(job, None)

    def t_corrupt(self, job):
        e = self.cache.get(job)
        self.cache[job] = (e.copy(readable=False, origin="corrupted") if e is not None
                           else CacheEntry(None, False, False, 0, readable=False, origin="corrupted"))

    def t_copy(self, src_job, dst_job):
        """the cache file of src_job is stored under dst_job's name (an output of another input)"""
        e = self.cache.get(src_job)
        if e is None:
            return False
        self.cache[dst_job] = e.copy(origin=f"copy-of-{src_job}")
        return True

    def _t_field(self, job, origin, **kw):
        e = self.cache.get(job)
        if e is None or not e.readable:
            return False
        self.cache[job] = e.copy(origin=origin, **kw)
        return True

    def t_flip_exit(self, job):
        return self._t_field(job, "exitcode-flipped", exit_ok=False)

    def t_rehash(self, job):
        return self._t_field(job, "hash-replaced", input=None)

    def t_nohash(self, job):
        """the stored output carries no input hash at all"""
        return self._t_field(job, "hash-removed", input=None)

    def t_noexit(self, job):
        """the stored output carries no exit code"""
        return self._t_field(job, "exitcode-removed", exit_ok=False)

    def t_nofiles(self, job):
        """the stored output carries no files; that only matters to a job that requests files"""
        e = self.cache.get(job)
        if e is None or not e.readable:
            return False
        return self._t_field(job, "files-removed", has_file=e.has_file and not self.needs_files)


def apply_tamper(m: JobMapModel, t):
    op = t[0]
    if op == "delete":
        m.t_delete(t[1])
        return True
    if op == "corrupt":
        m.t_corrupt(t[1])
        return True
    if op == "copy":
        return m.t_copy(t[1], t[2])
    if op in ("flip_exit", "rehash", "nohash", "noexit", "nofiles"):
        return getattr(m, "t_" + op)(t[1])
    raise ValueError(op)
