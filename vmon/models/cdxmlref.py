"""
vmon.models.cdxmlref -- an independent reading of a CDXML drawing (reference model of property C13).

Nothing here imports molli (or numpy): the drawing is walked with xml.etree.ElementTree and the
metamorphic variants are produced by *text-level* rewrites of the file (DOCTYPE, attribute order and
everything the rewrite does not concern stay byte-identical).

What the walk extracts per labelled top-level fragment (`Drawing.resolve(label)` -> `Frag`):

  atoms   one entry per drawn node, nodes of nested fragments included, minus what a drawing program
          means by them: a MultiAttachment node is a bracket, not an atom; a node that carries a nested
          <fragment> (an expanded nickname / abbreviation) stands for the nodes of that fragment, and the
          nested fragment's external connection point together with the node itself disappear (one
          connection point and one bond are consumed per nested fragment).
          entry: id, z (atomic number, 0 for attachment points), iso, chg, rad (Doublet 1, Singlet 2),
          ap (attachment point: True/False), apnum/apname, xy (page position)
  bonds   (id_u, id_v, order, tag):  order in {"1","2","3","1.5",...}; tag "" | "dash" (drawn dashed:
          a dative/ligand bond in molli) | "any" (junction bond of a nested fragment whose two halves were
          not both drawn single) | "hapto" (bond bracket -> centre expanded to one bond per attached atom;
          not judged, the property excludes them)
  marks   stereo marks: (narrow_id, wide_id, kind, Display) with kind "wedge" | "hash" | "bold" | "bhash"
  order   predicted order of the atoms in the parsed molecule (document order of the core, nested nodes
          appended at the end in document order of their carriers) -- only ever used after it has been
          verified to be an isomorphism.

Label resolution (the statement's "labelled fragment"): a bold-face one-run text box directly on the
page or in a top-level group names the fragment that shares its group when that group holds exactly one
fragment, otherwise the nearest fragment (L1 distance between box centres) whose centre lies above it.
"""
from __future__ import annotations

import random
import re
import xml.etree.ElementTree as ET
from collections import Counter

RADICAL = {"Doublet": 1, "Singlet": 2, "Triplet": 2}
AP_TYPES = ("ExternalConnectionPoint", "Fragment", "Nickname", "GenericNickname", "Unspecified")
MIRROR = {"WedgeBegin": "WedgedHashBegin", "WedgedHashBegin": "WedgeBegin",
          "WedgeEnd": "WedgedHashEnd", "WedgedHashEnd": "WedgeEnd",
          "Bold": "Hash", "Hash": "Bold"}


class Unsupported(Exception):
    """the drawing uses something whose chemical meaning this reference does not claim to know"""


def position(e):
    if "BoundingBox" in e.attrib:
        l, t, r, b = map(float, e.get("BoundingBox").split())
        return ((l + r) / 2, (t + b) / 2)
    x, y = map(float, e.get("p").split())
    return (x, y)


class Frag:
    def __init__(self, fid):
        self.fid = fid
        self.atoms = {}          # node id -> dict
        self.order = []          # predicted atom order (node ids)
        self.bonds = []          # (u, v, order, tag)
        self.marks = []          # (narrow, wide, kind, Display)
        self.mark_ids = []       # id of the drawn <b> element of each mark (parallel to marks)
        self.hapto_centres = set()
        self.hapto_atoms = set()
        self.nested = 0
        self.ring_marks = 0
        self.acyclic_marks = 0

    # ---- derived quantities -----------------------------------------------------------------------
    def atom_key(self, nid):
        a = self.atoms[nid]
        return (a["z"], a["iso"], a["chg"], a["rad"], a["ap"])

    def atom_multiset(self):
        return Counter(self.atom_key(n) for n in self.order)

    def bond_tokens(self):
        return [(o, tag) for (_, _, o, tag) in self.bonds]

    def charge(self):
        return sum(a["chg"] for a in self.atoms.values())

    def mult(self):
        return sum(a["rad"] for a in self.atoms.values()) + 1

    def attachment_points(self):
        return [self.atoms[n] for n in self.order if self.atoms[n]["ap"]]

    def adjacency(self, skip_hapto=False):
        adj = {n: set() for n in self.order}
        for u, v, _, tag in self.bonds:
            if skip_hapto and tag == "hapto":
                continue
            adj[u].add(v)
            adj[v].add(u)
        return adj

    def bends_inside_bends(self):
        """pairs of acyclic wedge/hash marks where the centre of one lies in the part that the other one bends
        out of the page (the second bend then happens in a plane that is no longer the page)"""
        adj = self.adjacency()
        acyc = [(u, v) for (u, v, k, _d) in self.marks if k in ("wedge", "hash") and not _in_ring(adj, u, v)]
        out = []
        for (u2, v2) in acyc:
            moved, todo = {v2}, [v2]
            while todo:
                w = todo.pop()
                for x in adj[w]:
                    if x not in moved and not (w == v2 and x == u2):
                        moved.add(x)
                        todo.append(x)
            for (u, v) in acyc:
                if (u, v) != (u2, v2) and u in moved:
                    out.append(((u2, v2), (u, v)))
        return out

    def summary(self):
        return {"fragment": self.fid, "atoms": len(self.order), "bonds": len(self.bonds),
                "marks": len(self.marks), "nested": self.nested, "charge": self.charge(), "mult": self.mult(),
                "aps": len(self.attachment_points()), "hapto": len(self.hapto_centres)}


def _in_ring(adj, u, v):
    """is the edge u-v on a cycle?  (v reachable from u without using the edge)"""
    seen = {u}
    todo = [w for w in adj[u] if w != v]
    while todo:
        w = todo.pop()
        if w == v:
            return True
        if w in seen:
            continue
        seen.add(w)
        todo.extend(x for x in adj[w] if x not in seen)
    return False


def _walk(frag_elt) -> Frag:
    f = Frag(frag_elt.get("id"))
    brackets = {}
    carriers = []
    for n in frag_elt.findall("n"):
        nid, nt = n.get("id"), n.get("NodeType")
        if nt == "MultiAttachment":
            brackets[nid] = n.get("Attachments").split()
            continue
        ap = nt in AP_TYPES
        if nt is not None and not ap and nt not in ("Element", "Unspecified"):
            raise Unsupported(f"node type {nt}")
        z = 0 if ap else int(n.get("Element") or 6)
        iso = n.get("Isotope")
        rad = n.get("Radical")
        if rad is not None and rad not in RADICAL and rad != "None":
            raise Unsupported(f"radical {rad}")
        f.atoms[nid] = {"id": nid, "z": z, "iso": None if iso is None else int(iso),
                        "chg": int(n.get("Charge", 0)), "rad": RADICAL.get(rad, 0), "ap": ap,
                        "nodetype": nt, "apnum": n.get("ExternalConnectionNum"), "apname": n.get("AtomNumber"),
                        "xy": position(n), "nh": n.get("NumHydrogens"), "frame": f.fid, "carrier": None}
        f.order.append(nid)
        if n.find("fragment") is not None:
            carriers.append((nid, n.find("fragment")))

    for b in frag_elt.findall("b"):
        B, E = b.get("B"), b.get("E")
        if B in brackets or E in brackets:
            centre, attached = (E, brackets[B]) if B in brackets else (B, brackets[E])
            if centre in brackets:
                raise Unsupported("bracket bonded to bracket")
            f.hapto_centres.add(centre)
            for t in attached:
                f.hapto_atoms.add(t)
                f.bonds.append((centre, t, "1", "hapto"))
            continue
        if B not in f.atoms or E not in f.atoms:
            raise Unsupported("bond to a node outside the fragment")
        disp = b.get("Display")
        f.bonds.append((B, E, b.get("Order") or "1", "dash" if disp == "Dash" else ""))
        if disp in ("WedgeBegin", "WedgedHashBegin"):
            f.marks.append((B, E, "wedge" if disp == "WedgeBegin" else "hash", disp))
            f.mark_ids.append(b.get("id"))
        elif disp in ("WedgeEnd", "WedgedHashEnd"):
            f.marks.append((E, B, "wedge" if disp == "WedgeEnd" else "hash", disp))
            f.mark_ids.append(b.get("id"))
        elif disp in ("Bold", "Hash"):
            f.marks.append((B, E, "bold" if disp == "Bold" else "bhash", disp))
            f.mark_ids.append(b.get("id"))

    adj = f.adjacency()
    for u, v, _k, _d in f.marks:
        if _in_ring(adj, u, v):
            f.ring_marks += 1
        else:
            f.acyclic_marks += 1

    # nested fragments: the carrier node and the inner connection point vanish, their two bonds fuse
    for nid, sub_elt in carriers:
        sub = _walk(sub_elt)
        inner_aps = [a["id"] for a in sub.attachment_points()]
        mine = [i for i, (u, v, _, _) in enumerate(f.bonds) if nid in (u, v)]
        if len(inner_aps) != 1 or len(mine) != 1:
            raise Unsupported(f"nested fragment with {len(inner_aps)} connection points on a node with "
                              f"{len(mine)} bonds")
        ap = inner_aps[0]
        theirs = [i for i, (u, v, _, _) in enumerate(sub.bonds) if ap in (u, v)]
        if len(theirs) != 1:
            raise Unsupported("inner connection point without exactly one bond")
        u, v, o1, t1 = f.bonds.pop(mine[0])
        x = v if u == nid else u
        u, v, o2, t2 = sub.bonds.pop(theirs[0])
        y = v if u == ap else u
        # a stereo mark drawn on either half of the junction bond now spans x-y
        f.marks = [tuple(y if e == nid else e for e in m[:2]) + m[2:] for m in f.marks]
        sub.marks = [tuple(x if e == ap else e for e in m[:2]) + m[2:] for m in sub.marks]
        # seen from the outer fragment, the inner atom sits where the carrier node was drawn
        sub.atoms[y]["carrier"] = (f.atoms[nid]["frame"], f.atoms[nid]["xy"])
        del f.atoms[nid]
        f.order.remove(nid)
        del sub.atoms[ap]
        sub.order.remove(ap)
        f.atoms.update(sub.atoms)
        f.order.extend(sub.order)
        f.bonds.extend(sub.bonds)
        f.bonds.append((x, y, "1", "" if (o1, t1, o2, t2) == ("1", "", "1", "") else "any"))
        f.marks.extend(sub.marks)
        f.mark_ids.extend(sub.mark_ids)
        f.hapto_centres |= sub.hapto_centres
        f.hapto_atoms |= sub.hapto_atoms
        f.nested += 1 + sub.nested
        f.ring_marks += sub.ring_marks
        f.acyclic_marks += sub.acyclic_marks
    return f


class Drawing:
    def __init__(self, text: str):
        self.root = ET.fromstring(text.encode("utf-8") if isinstance(text, str) else text)
        self.bond_length = float(self.root.get("BondLength"))
        self.labels = {}       # label text -> (t element, group element or None)
        self.fragments = []    # (fragment element, group element or None)
        self.duplicates = []
        for page in self.root.findall("page"):
            for holder, grp in [(page, None)] + [(g, g) for g in page.findall("group")]:
                for t in holder.findall("t"):
                    runs = t.findall("s")
                    if len(runs) == 1 and runs[0].get("face", "0") == "1":
                        if runs[0].text in self.labels:
                            self.duplicates.append(runs[0].text)
                        else:
                            self.labels[runs[0].text] = (t, grp)
                for fr in holder.findall("fragment"):
                    if fr.find("b") is not None:
                        self.fragments.append((fr, grp))
        self._walked = {}

    def fragment_id_for(self, label):
        t, grp = self.labels[label]
        if grp is not None:
            own = [fr for fr, g in self.fragments if g is grp]
            if len(own) == 1:
                return own[0].get("id")
        lx, ly = position(t)
        best = None
        for fr, _ in self.fragments:
            fx, fy = position(fr)
            if fy < ly:
                d = abs(fx - lx) + abs(fy - ly)
                if best is None or d < best[0]:
                    best = (d, fr.get("id"))
        if best is None:
            raise Unsupported(f"no fragment above label {label!r}")
        return best[1]

    def fragment(self, fid) -> Frag:
        if fid not in self._walked:
            for fr, _ in self.fragments:
                if fr.get("id") == fid:
                    self._walked[fid] = _walk(fr)
                    break
            else:
                raise KeyError(fid)
        return self._walked[fid]

    def resolve(self, label) -> Frag:
        return self.fragment(self.fragment_id_for(label))


# =====================================================================================================
# text-level rewrites
# =====================================================================================================

_TAG = re.compile(r"<(/?)([A-Za-z_][\w.\-]*)((?:\"[^\"]*\"|'[^']*'|[^>\"'])*?)(/?)>", re.S)


def mirror_marks(text: str) -> tuple[str, int]:
    """wedge <-> hash, bold <-> hash: the drawing seen from behind the page, atoms left where they are"""
    n = 0

    def sub(m):
        nonlocal n
        n += 1
        return f'Display="{MIRROR[m.group(1)]}"'

    out = re.sub(r'Display="(' + "|".join(MIRROR) + r')"', sub, text)
    return out, n


FLIP = {"WedgeBegin": "WedgeEnd", "WedgeEnd": "WedgeBegin",
        "WedgedHashBegin": "WedgedHashEnd", "WedgedHashEnd": "WedgedHashBegin"}


def flip_ends(text: str) -> tuple[str, int]:
    """the same drawing written the other way round: every wedge / hashed wedge bond gets its B and E atoms exchanged
    and Begin <-> End in its Display attribute (the narrow end stays at the same atom)"""
    n = 0

    def one(m):
        nonlocal n
        tag = m.group(0)
        md = re.search(r'\sDisplay="(' + "|".join(FLIP) + r')"', tag)
        mb, me = re.search(r'\sB="(\d+)"', tag), re.search(r'\sE="(\d+)"', tag)
        if not (md and mb and me):
            return tag
        n += 1
        parts = sorted([(mb.start(1), mb.end(1), me.group(1)), (me.start(1), me.end(1), mb.group(1)),
                        (md.start(1), md.end(1), FLIP[md.group(1)])], reverse=True)
        for a, b, new in parts:
            tag = tag[:a] + new + tag[b:]
        return tag

    return re.sub(r"<b\s(?:\"[^\"]*\"|[^>\"])*>", one, text), n


def strip_mark(text: str, bond_id: str) -> tuple[str, int]:
    """the same drawing without the stereo mark of ONE bond (its Display attribute is removed)"""
    n = 0

    def one(m):
        nonlocal n
        tag = m.group(0)
        if not re.search(r'\sid="' + re.escape(bond_id) + '"', tag):
            return tag
        new = re.sub(r'\sDisplay="(?:' + "|".join(MIRROR) + r')"', "", tag)
        if new != tag:
            n += 1
        return new

    return re.sub(r"<b\s(?:\"[^\"]*\"|[^>\"])*>", one, text), n


def _page_children(text: str):
    """spans (start, end, tag) of the direct children of the first <page>, plus the span of its content"""
    depth, page_depth, start, spans, content = 0, None, None, [], None
    for m in _TAG.finditer(text):
        close, tag, _attrs, selfclose = m.group(1), m.group(2), m.group(3), m.group(4)
        if not close:
            if page_depth is not None and depth == page_depth + 1 and start is None:
                start = (m.start(), tag)
                if selfclose:
                    spans.append((start[0], m.end(), tag))
                    start = None
            if tag == "page" and page_depth is None and not selfclose:
                page_depth = depth
                content = [m.end(), None]
            if not selfclose:
                depth += 1
        else:
            depth -= 1
            if page_depth is not None:
                if depth == page_depth + 1 and start is not None:
                    spans.append((start[0], m.end(), start[1]))
                    start = None
                elif depth == page_depth and tag == "page":
                    content[1] = m.start()
                    break
    return spans, content


def permute_page(text: str, rng: random.Random) -> str:
    """shuffle the document order of everything that sits directly on the page (fragments, labels, groups...)"""
    spans, content = _page_children(text)
    if len(spans) < 2:
        return text
    pieces = [text[a:b] for a, b, _ in spans]
    gaps = [text[spans[i][1]:spans[i + 1][0]] for i in range(len(spans) - 1)]
    head = text[content[0]:spans[0][0]]
    tail = text[spans[-1][1]:content[1]]
    order = list(range(len(pieces)))
    rng.shuffle(order)
    body = head
    for k, i in enumerate(order):
        body += pieces[i]
        if k < len(gaps):
            body += gaps[k]
    body += tail
    return text[:content[0]] + body + text[content[1]:]


def group_several(text: str, rng: random.Random) -> str:
    """put several top-level drawings AND labels of the page into ONE <group> (what "Group" does to a selection in the
    editor): which label belongs to which fragment is still what their positions say"""
    spans, content = _page_children(text)
    cand = [i for i, (_, _, tag) in enumerate(spans) if tag in ("fragment", "t")]
    frs = [i for i in cand if spans[i][2] == "fragment"]
    if len(frs) < 2:
        return text
    chosen = set(rng.sample(frs, rng.randrange(2, min(len(frs), 5) + 1)))
    chosen |= {i for i in cand if spans[i][2] == "t" and rng.random() < 0.7}
    order = sorted(chosen)
    rng.shuffle(order)
    top = max([int(x) for x in collect_ids(text) if x.isdigit()] + [0]) + 5000
    group = f'<group id="{top}">' + "".join(text[spans[i][0]:spans[i][1]] for i in order) + "</group>"
    out, first = text, min(chosen)
    for i in sorted(chosen, reverse=True):
        a, b, _ = spans[i]
        out = out[:a] + (group if i == first else "") + out[b:]
    return out


def insert_lone_atoms(text: str, rng: random.Random) -> str:
    """put fragments WITHOUT bonds (a counter-ion, a single atom) on the page: one in front of the first child of the
    page, one behind the last, possibly one in between.  They stand far away from everything, so no label is theirs and
    every label keeps its fragment."""
    spans, content = _page_children(text)
    if not spans:
        return text
    top = max([int(x) for x in collect_ids(text) if x.isdigit()] + [0]) + 1000

    def lone(k, x, y):
        el = rng.choice([17, 35, 11, 8])
        return (f'<fragment id="{top + 2 * k}" BoundingBox="{x - 3} {y - 3} {x + 3} {y + 3}" Z="{9000 + k}">'
                f'<n id="{top + 2 * k + 1}" p="{x} {y}" Z="{9100 + k}" Element="{el}" NumHydrogens="0" '
                f'Charge="{-1 if el in (17, 35) else 0}" AS="N" /></fragment>')

    places = [spans[0][0], spans[-1][1]]
    if len(spans) > 2 and rng.random() < 0.5:
        places.append(spans[rng.randrange(1, len(spans))][0])
    out = text
    for k, pos in sorted(enumerate(places), key=lambda t: -t[1]):
        out = out[:pos] + lone(k, -20000.0 - 50 * k, -20000.0 - 50 * k) + out[pos:]
    return out


def reorder_nodes(text: str, rng: random.Random) -> str:
    """shuffle the document order of the <n> children of every top-level fragment (bonds stay where they are, a
    node keeps everything nested in it): the same drawing with its atoms numbered differently"""
    stack, jobs, cur = [], [], None      # cur: [fragment depth, list of node spans]
    depth = 0
    for m in _TAG.finditer(text):
        close, tag, selfclose = m.group(1), m.group(2), m.group(4)
        if not close:
            if tag == "fragment" and cur is None and not selfclose:
                cur = [depth, []]
            elif tag == "n" and cur is not None and depth == cur[0] + 1:
                if selfclose:
                    cur[1].append((m.start(), m.end()))
                else:
                    stack.append(m.start())
            if not selfclose:
                depth += 1
        else:
            depth -= 1
            if cur is not None:
                if tag == "n" and depth == cur[0] + 1 and stack:
                    cur[1].append((stack.pop(), m.end()))
                elif tag == "fragment" and depth == cur[0]:
                    jobs.append(cur[1])
                    cur = None
    for spans in reversed(jobs):
        if len(spans) < 2:
            continue
        pieces = [text[a:b] for a, b in spans]
        order = list(range(len(pieces)))
        rng.shuffle(order)
        out, last = [], spans[0][0]
        for k, (a, b) in enumerate(spans):
            out.append(text[last:a])
            out.append(pieces[order[k]])
            last = b
        text = text[:spans[0][0]] + "".join(out) + text[spans[-1][1]:]
    return text


def _fmt(x: float) -> str:
    s = f"{x:.4f}".rstrip("0").rstrip(".")
    return s if s not in ("-0", "") else "0"


def translate_page(text: str, dx: float, dy: float) -> str:
    """move everything drawn on the page by (dx, dy): p="x y" and BoundingBox="l t r b" of every object"""
    m = re.search(r"<page\b", text)
    head, body = text[:m.start()], text[m.start():]

    def p(mm):
        x, y = map(float, mm.group(2).split())
        return f'{mm.group(1)}"{_fmt(x + dx)} {_fmt(y + dy)}"'

    def bb(mm):
        l, t, r, b = map(float, mm.group(2).split())
        return f'{mm.group(1)}"{_fmt(l + dx)} {_fmt(t + dy)} {_fmt(r + dx)} {_fmt(b + dy)}"'

    num = r"-?\d+(?:\.\d+)?"
    body = re.sub(r'(\sp=)"(' + num + r"\s+" + num + r')"', p, body)
    body = re.sub(r'(\sBoundingBox=)"(' + r"\s+".join([num] * 4) + r')"', bb, body)
    return head + body


ID_ATTRS = ("id", "B", "E", "Attachments", "BondOrdering", "BondCircularOrdering", "CrossingBonds",
            "SupersededBy", "object")


def collect_ids(text: str) -> list[str]:
    return re.findall(r'\sid="(\d+)"', text)


def renumber_ids(text: str, mapping: dict[str, str]) -> str:
    """apply an injective renaming of object ids to every attribute that holds ids"""
    def one(mm):
        vals = mm.group(3).split()
        return f'{mm.group(1)}{mm.group(2)}="' + " ".join(mapping.get(v, v) for v in vals) + '"'

    return re.sub(r"(\s)(" + "|".join(ID_ATTRS) + r')="([\d ]*)"', one, text)


def make_renumbering(text: str, style: str, rng: random.Random) -> dict[str, str]:
    ids = collect_ids(text)
    uniq = list(dict.fromkeys(ids))
    if style == "offset":
        k = rng.randrange(1000, 900000)
        return {i: str(int(i) + k) for i in uniq}
    if style == "shuffle":
        vals = uniq[:]
        rng.shuffle(vals)
        return dict(zip(uniq, vals))
    if style == "compact":          # 1..N in document order, the numbering of a freshly drawn small document
        return {i: str(k + 1) for k, i in enumerate(uniq)}
    if style == "compact-high":     # dense numbering that avoids short numbers (which may be drawn atom numbers)
        return {i: str(k + 100001) for k, i in enumerate(uniq)}
    if style == "atom-number":
        # ids are arbitrary: give every node that carries a nested fragment the id that equals a number *drawn* as
        # atom number on another atom of the same fragment (small documents do have such small ids)
        root = ET.fromstring(text.encode("utf-8"))
        mp = {}
        taken = set()
        for fr in root.iter("fragment"):
            nums = [n.get("AtomNumber") for n in fr.findall("n")
                    if (n.get("AtomNumber") or "").isdigit() and n.find("fragment") is None]
            carriers = [n.get("id") for n in fr.findall("n") if n.find("fragment") is not None]
            for c, k in zip(carriers, [k for k in nums if k not in taken]):
                mp[c] = k
                taken.add(k)
        # keep the renaming injective: whoever owned such an id gets a fresh one
        fresh = max(int(i) for i in uniq) + 1
        for i in uniq:
            if i in taken and i not in mp:
                mp[i] = str(fresh)
                fresh += 1
        return mp
    raise ValueError(style)


# =====================================================================================================
# small labelled-graph isomorphism (identity first, then refinement + backtracking)
# =====================================================================================================

def isomorphism(n, colour_a, edges_a, colour_b, edges_b, edge_ok, budget=200000):
    """
    a bijection m (list: vertex of A -> vertex of B) that preserves colours and maps every edge of A onto an
    edge of B with edge_ok(label_a, label_b), |E_A| == |E_B|; or None.  edges_*: dict {(i,j) i<j: label}.
    Returns ("id", m) when the identity works, ("found", m), ("none", None) or ("budget", None).
    """
    if len(colour_a) != n or len(colour_b) != n or len(edges_a) != len(edges_b):
        return "none", None

    def ok(m):
        for (i, j), la in edges_a.items():
            a, b = m[i], m[j]
            lb = edges_b.get((a, b) if a < b else (b, a))
            if lb is None or not edge_ok(la, lb):
                return False
        return True

    ident = list(range(n))
    if all(colour_a[i] == colour_b[i] for i in range(n)) and ok(ident):
        return "id", ident

    def adjlist(edges):
        adj = [[] for _ in range(n)]
        for (i, j) in edges:
            adj[i].append(j)
            adj[j].append(i)
        return adj

    adj_a, adj_b = adjlist(edges_a), adjlist(edges_b)

    def refine(col, adj):
        col = [hash(c) for c in col]
        for _ in range(n):
            new = [hash((col[i], tuple(sorted(col[j] for j in adj[i])))) for i in range(n)]
            if len(set(new)) == len(set(col)):
                return new
            col = new
        return col

    ca = refine([repr(c) + str(len(adj_a[i])) for i, c in enumerate(colour_a)], adj_a)
    cb = refine([repr(c) + str(len(adj_b[i])) for i, c in enumerate(colour_b)], adj_b)
    if Counter(ca) != Counter(cb):
        return "none", None
    cand = {}
    for i in range(n):
        cand[i] = [j for j in range(n) if cb[j] == ca[i]]
    # order: BFS from the most constrained vertex so that each new vertex has a mapped neighbour
    order, seen = [], set()
    for s in sorted(range(n), key=lambda i: len(cand[i])):
        if s in seen:
            continue
        q = [s]
        seen.add(s)
        while q:
            i = q.pop(0)
            order.append(i)
            for j in sorted(adj_a[i], key=lambda k: len(cand[k])):
                if j not in seen:
                    seen.add(j)
                    q.append(j)
    m, used, steps = [None] * n, set(), [0]

    def place(k):
        if k == n:
            return True
        i = order[k]
        for j in cand[i]:
            if j in used:
                continue
            steps[0] += 1
            if steps[0] > budget:
                raise TimeoutError
            good = True
            for w in adj_a[i]:
                if m[w] is not None:
                    a, b = (j, m[w]) if j < m[w] else (m[w], j)
                    lb = edges_b.get((a, b))
                    la = edges_a.get((i, w) if i < w else (w, i))
                    if lb is None or not edge_ok(la, lb):
                        good = False
                        break
            if not good:
                continue
            m[i] = j
            used.add(j)
            if place(k + 1):
                return True
            m[i] = None
            used.discard(j)
        return False

    try:
        import sys
        if sys.getrecursionlimit() < n + 200:
            sys.setrecursionlimit(n + 500)
        return ("found", m) if place(0) else ("none", None)
    except TimeoutError:
        return "budget", None
