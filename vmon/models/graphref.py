"""
vmon.models.graphref -- independent graph-theory reference for property C15.

Pure standard library: nothing here imports molli, numpy or networkx (the functions whose
names start with ``nx_`` are the *second opinion*: they import networkx lazily, work on the
same plain (n, edges, labels) data and are only ever compared with the first reference --
a disagreement between the two references is a harness bug, never a finding about molli).

A graph is (n, edges): vertices 0..n-1, edges a list of pairs (i, j), i != j, no repetitions.
"""
from __future__ import annotations

import itertools
from collections import deque


class ReferenceDisagreement(RuntimeError):
    """the two references (own code / networkx) disagree: harness bug"""


class TooMany(Exception):
    """enumeration cap reached (the caller skips the case; nothing is decided on it)"""


# ------------------------------------------------------------------------------------------
# enumeration of labelled simple graphs

def pair_list(n):
    return [(i, j) for i in range(n) for j in range(i + 1, n)]


def edges_of_mask(n, mask, pairs=None):
    pairs = pairs or pair_list(n)
    return [p for k, p in enumerate(pairs) if (mask >> k) & 1]


def n_graphs(n):
    return 1 << (n * (n - 1) // 2)


def adjacency(n, edges):
    adj = [set() for _ in range(n)]
    for i, j in edges:
        if i == j or j in adj[i]:
            raise ValueError(f"not a simple graph: {(i, j)}")
        adj[i].add(j)
        adj[j].add(i)
    return adj


# ------------------------------------------------------------------------------------------
# distances, components, directed reach

def bfs_dist(adj, s, banned=()):
    """shortest-path distances from s in G minus the vertices in `banned`"""
    dist = {s: 0}
    q = deque([s])
    while q:
        u = q.popleft()
        for v in adj[u]:
            if v not in dist and v not in banned:
                dist[v] = dist[u] + 1
                q.append(v)
    return dist


def dist_by_relaxation(n, edges, s):
    """Bellman-Ford style: a deliberately different algorithm, used to cross-check bfs_dist"""
    inf = n + 5
    d = [inf] * n
    d[s] = 0
    for _ in range(n):
        changed = False
        for i, j in edges:
            if d[i] + 1 < d[j]:
                d[j] = d[i] + 1
                changed = True
            if d[j] + 1 < d[i]:
                d[i] = d[j] + 1
                changed = True
        if not changed:
            break
    return {v: d[v] for v in range(n) if d[v] < inf}


def through(adj, s, d):
    """vertices reachable from s through its neighbour d without passing s again:
    the component of d in G - s, with dist = 1 + distance from d inside G - s"""
    if d not in adj[s]:
        raise ValueError("direction is not a neighbour of the start")
    inner = bfs_dist(adj, d, banned=(s,))
    return {v: k + 1 for v, k in inner.items()}


def components(n, adj):
    seen, out = set(), []
    for s in range(n):
        if s not in seen:
            c = set(bfs_dist(adj, s))
            seen |= c
            out.append(c)
    return out


def n_cycles(n, edges, adj=None):
    """cyclomatic number m - n + c"""
    adj = adj if adj is not None else adjacency(n, edges)
    return len(edges) - n + len(components(n, adj))


# ------------------------------------------------------------------------------------------
# bridges, by definition: removing the edge disconnects its end points

def is_bridge(n, edges, e):
    i, j = e
    rest = [x for x in edges if x != e and x != (j, i)]
    adj = adjacency(n, rest)
    return j not in bfs_dist(adj, i)


def bridges(n, edges):
    return {tuple(sorted(e)) for e in edges if is_bridge(n, edges, e)}


# ------------------------------------------------------------------------------------------
# induced embeddings of a pattern

def _label_ok(pl, tl, wild):
    return pl == wild or pl == tl


def embedding_defect(img, padj, plab, tadj, tlab, wild):
    """None if img (pattern vertex i -> target vertex img[i]) is an induced embedding, else the reason"""
    pn = len(padj)
    if len(img) != pn:
        return "wrong-length"
    if any((not isinstance(t, int)) or t < 0 or t >= len(tadj) for t in img):
        return "index-out-of-range"
    if len(set(img)) != pn:
        return "not-injective"
    for i in range(pn):
        if not _label_ok(plab[i], tlab[img[i]], wild):
            return "element-mismatch"
    for i in range(pn):
        for j in range(i + 1, pn):
            pb = j in padj[i]
            tb = img[j] in tadj[img[i]]
            if pb and not tb:
                return "bonded-to-nonbonded"
            if tb and not pb:
                return "nonbonded-to-bonded"
    return None


def embeddings_brute(padj, plab, tadj, tlab, wild):
    """every injective map, tested against the definition (small sizes only)"""
    pn, tn = len(padj), len(tadj)
    out = []
    for img in itertools.permutations(range(tn), pn):
        if embedding_defect(img, padj, plab, tadj, tlab, wild) is None:
            out.append(img)
    return out


def embeddings_bt(padj, plab, tadj, tlab, wild, cap=None):
    """backtracking enumeration (same definition, prunes partial maps); exact.  Raises TooMany past cap."""
    pn, tn = len(padj), len(tadj)
    out = []
    img = [None] * pn
    used = [False] * tn

    def rec(i):
        if i == pn:
            out.append(tuple(img))
            if cap is not None and len(out) > cap:
                raise TooMany()
            return
        earlier_nb = [j for j in range(i) if j in padj[i]]
        cands = tadj[img[earlier_nb[0]]] if earlier_nb else range(tn)
        for t in sorted(cands):
            if used[t] or not _label_ok(plab[i], tlab[t], wild):
                continue
            ok = True
            for j in range(i):
                if (j in padj[i]) != (img[j] in tadj[t]):
                    ok = False
                    break
            if ok:
                img[i] = t
                used[t] = True
                rec(i + 1)
                used[t] = False
                img[i] = None

    rec(0)
    return out


def embeddings_pred(padj, tadj, node_ok, edge_ok, cap=None):
    """induced embeddings under caller-supplied predicates (the definition with the element rule replaced):
    injective, bonded pattern pairs go to bonded target pairs and non-bonded to non-bonded,
    node_ok(i, t) for every pattern vertex i -> target vertex t, and
    edge_ok(frozenset((i, j)), frozenset((t, u))) for every bonded pattern pair (i, j) -> (t, u).  Exact; TooMany past cap."""
    pn, tn = len(padj), len(tadj)
    out = []
    img = [None] * pn
    used = [False] * tn

    def rec(i):
        if i == pn:
            out.append(tuple(img))
            if cap is not None and len(out) > cap:
                raise TooMany()
            return
        for t in range(tn):
            if used[t] or not node_ok(i, t):
                continue
            ok = True
            for j in range(i):
                pb = j in padj[i]
                if pb != (img[j] in tadj[t]) or (pb and not edge_ok(frozenset((i, j)), frozenset((t, img[j])))):
                    ok = False
                    break
            if ok:
                img[i] = t
                used[t] = True
                rec(i + 1)
                used[t] = False
                img[i] = None

    rec(0)
    return out


# ------------------------------------------------------------------------------------------
# second opinion (networkx on plain integer graphs with plain labels)

def _nx_graph(n, edges, labels=None):
    import networkx as nx

    g = nx.Graph()
    for i in range(n):
        g.add_node(i, lab=None if labels is None else labels[i])
    g.add_edges_from(edges)
    return g


def nx_bridges(n, edges):
    import networkx as nx

    return {tuple(sorted(e)) for e in nx.bridges(_nx_graph(n, edges))}


def nx_dist(n, edges, s):
    import networkx as nx

    return dict(nx.single_source_shortest_path_length(_nx_graph(n, edges), s))


def nx_embeddings(pn, pedges, plab, tn, tedges, tlab, wild):
    import networkx as nx

    gp = _nx_graph(pn, pedges, plab)
    gt = _nx_graph(tn, tedges, tlab)
    gm = nx.isomorphism.GraphMatcher(
        gt, gp, node_match=lambda t, p: p["lab"] == wild or p["lab"] == t["lab"])
    out = []
    for iso in gm.subgraph_isomorphisms_iter():  # target vertex -> pattern vertex, induced semantics
        inv = {p: t for t, p in iso.items()}
        out.append(tuple(inv[i] for i in range(pn)))
    return out


def nx_embeddings_pred(pn, pedges, tn, tedges, node_ok, edge_ok):
    import networkx as nx

    gp, gt = nx.Graph(), nx.Graph()
    for i in range(pn):
        gp.add_node(i, v=i)
    for i in range(tn):
        gt.add_node(i, v=i)
    for i, j in pedges:
        gp.add_edge(i, j, key=frozenset((i, j)))
    for i, j in tedges:
        gt.add_edge(i, j, key=frozenset((i, j)))
    gm = nx.isomorphism.GraphMatcher(gt, gp, node_match=lambda t, p: node_ok(p["v"], t["v"]),
                                     edge_match=lambda t, p: edge_ok(p["key"], t["key"]))
    out = []
    for iso in gm.subgraph_isomorphisms_iter():
        inv = {p: t for t, p in iso.items()}
        out.append(tuple(inv[i] for i in range(pn)))
    return out


def cross_check_embeddings_pred(pn, pedges, tn, tedges, node_ok, edge_ok, mine):
    other = nx_embeddings_pred(pn, pedges, tn, tedges, node_ok, edge_ok)
    if len(other) != len(set(other)) or set(other) != set(mine) or len(mine) != len(set(mine)):
        raise ReferenceDisagreement(
            f"embeddings under predicates: own={sorted(mine)[:8]} networkx={sorted(other)[:8]} "
            f"pattern=({pn},{pedges}) target=({tn},{tedges})")


def cross_check_bridges(n, edges, mine):
    other = nx_bridges(n, edges)
    if other != mine:
        raise ReferenceDisagreement(f"bridges: own={sorted(mine)} networkx={sorted(other)} n={n} edges={edges}")


def cross_check_embeddings(pn, pedges, plab, tn, tedges, tlab, wild, mine):
    other = nx_embeddings(pn, pedges, plab, tn, tedges, tlab, wild)
    if len(other) != len(set(other)) or set(other) != set(mine) or len(mine) != len(set(mine)):
        raise ReferenceDisagreement(
            f"embeddings: own={sorted(mine)[:8]} networkx={sorted(other)[:8]} "
            f"pattern=({pn},{pedges},{plab}) target=({tn},{tedges},{tlab})")


# ------------------------------------------------------------------------------------------
# workload helpers (seeded; `rng` is a random.Random)

def is_connected(n, edges):
    if n == 0:
        return False
    return len(bfs_dist(adjacency(n, edges), 0)) == n


def connected_masks(n):
    pairs = pair_list(n)
    return [m for m in range(n_graphs(n)) if is_connected(n, edges_of_mask(n, m, pairs))]


def disconnected_masks(n):
    pairs = pair_list(n)
    return [m for m in range(n_graphs(n)) if n >= 2 and not is_connected(n, edges_of_mask(n, m, pairs))]


def random_tree(rng, n, max_deg=4):
    edges, deg = [], [0] * n
    for v in range(1, n):
        for _ in range(50):
            u = rng.randrange(v)
            if deg[u] < max_deg:
                break
        edges.append((u, v))
        deg[u] += 1
        deg[v] += 1
    return edges


def random_graph(rng, n, style=None):
    """(style, edges) of a random simple graph on n vertices: trees, ring systems, disconnected, dense"""
    style = style or rng.choice(["tree", "rings", "rings", "fused", "disconnected", "cycle", "gnp", "forest+rings"])
    have = set()

    def add(i, j):
        if i != j and (i, j) not in have and (j, i) not in have:
            have.add((i, j))
            return True
        return False

    if style == "tree":
        for e in random_tree(rng, n):
            add(*e)
    elif style == "cycle":
        for i in range(n):
            add(i, (i + 1) % n)
        for _ in range(rng.randrange(0, 3)):
            add(*rng.sample(range(n), 2))
    elif style == "rings":
        for e in random_tree(rng, n):
            add(*e)
        for _ in range(rng.randrange(1, 2 + n // 5)):
            add(*rng.sample(range(n), 2))
    elif style == "fused":
        # chain of rings of size 3..7 sharing an edge or an atom or linked by a bridge, then pendant atoms
        v = 0
        last = None
        while v < n:
            k = min(rng.randrange(3, 8), n - v)
            ring = list(range(v, v + k))
            if k >= 3:
                for a, b in zip(ring, ring[1:] + ring[:1]):
                    add(a, b)
            else:
                for a, b in zip(ring, ring[1:]):
                    add(a, b)
            if last is not None:
                how = rng.randrange(3)
                add(rng.choice(last), ring[0])
                if how == 0 and len(last) >= 2 and k >= 2:
                    add(rng.choice(last), ring[1])
            last = ring
            v += k
    elif style == "disconnected":
        # 2..4 pieces, each a tree or a ring system, plus possibly isolated atoms
        cuts = sorted(rng.sample(range(1, n), min(n - 1, rng.randrange(1, 4))))
        bounds = [0] + cuts + [n]
        for lo, hi in zip(bounds, bounds[1:]):
            m = hi - lo
            if m == 1 or rng.random() < 0.15:
                continue  # isolated atoms
            for (a, b) in random_tree(rng, m):
                add(lo + a, lo + b)
            if m >= 3 and rng.random() < 0.6:
                for _ in range(rng.randrange(1, 3)):
                    a, b = rng.sample(range(m), 2)
                    add(lo + a, lo + b)
    elif style == "gnp":
        p = rng.choice([0.1, 0.2, 0.35, 0.6]) if n <= 14 else rng.choice([0.04, 0.08, 0.12])
        for i in range(n):
            for j in range(i + 1, n):
                if rng.random() < p:
                    add(i, j)
    else:  # forest + rings
        for (a, b) in random_tree(rng, n):
            if rng.random() < 0.85:
                add(a, b)
        for _ in range(rng.randrange(0, 4)):
            add(*rng.sample(range(n), 2))
    edges = sorted(have)
    # random relabelling so that vertex numbers carry no structure
    perm = list(range(n))
    rng.shuffle(perm)
    edges = [(perm[i], perm[j]) if rng.random() < 0.5 else (perm[j], perm[i]) for i, j in edges]
    rng.shuffle(edges)
    return style, edges


def random_connected_subset(rng, adj, k):
    """vertex list (random order) of a random connected induced subgraph with at most k vertices"""
    n = len(adj)
    start = rng.randrange(n)
    chosen = [start]
    inside = {start}
    frontier = set(adj[start])
    while len(chosen) < k and frontier:
        v = rng.choice(sorted(frontier))
        chosen.append(v)
        inside.add(v)
        frontier |= adj[v]
        frontier -= inside
    rng.shuffle(chosen)
    return chosen


def induced(vertices, adj):
    """edges (in pattern numbering: position in `vertices`) of the subgraph induced on `vertices`"""
    pos = {v: i for i, v in enumerate(vertices)}
    out = []
    for v in vertices:
        for w in adj[v]:
            if w in pos and pos[v] < pos[w]:
                out.append((pos[v], pos[w]))
    return sorted(out)
