"""
vmon.models.damagedinput -- reference side of property C10 (damaged mol2 / xyz text).

Standard library only (no numpy, no molli).  Three things live here:

* ``mol2_records`` / ``xyz_records``: a *literal reading* of a (possibly damaged) text: which
  records it contains, what each record's own header declares, which data lines it has and whether
  the record is structurally complete.  It never guesses: a record is ``ok`` only if every declared
  atom / bond line is present and every numeric token converts with Python's ``int`` / ``float``.
  It is deliberately lenient about everything that does not affect completeness or content
  (blank and comment lines anywhere, unknown sections, junk before the first record).
* ``make_variant``: the damage classes of the property (truncation at every line boundary, at every
  byte offset of the last record, line deletion, line duplication, token corruption incl. numbers of
  index columns and UNITY attribute lines, a single byte that is not UTF-8) together with
  the provenance of every line of the damaged text (index of the pristine line it is, or None).
* ``ELEMENT_Z`` / ``MOL2_BOND_TYPE_NAMES``: frozen vocabularies, so that the expectation for a damaged
  element / bond type token never comes from the code under test.
* ``line_classes``: the role of every pristine line (used for the distinctness key).
"""
from __future__ import annotations

import re

RE_TAG = re.compile(r"@<TRIPOS>([A-Z_]+)")

# ------------------------------------------------------------------------------------------------
# frozen vocabularies of the two formats (the oracle's own; never derived from the code under test)

ELEMENT_SYMBOLS = (
    "H He Li Be B C N O F Ne Na Mg Al Si P S Cl Ar K Ca Sc Ti V Cr Mn Fe Co Ni Cu Zn Ga Ge As Se Br Kr "
    "Rb Sr Y Zr Nb Mo Tc Ru Rh Pd Ag Cd In Sn Sb Te I Xe Cs Ba La Ce Pr Nd Pm Sm Eu Gd Tb Dy Ho Er Tm Yb Lu "
    "Hf Ta W Re Os Ir Pt Au Hg Tl Pb Bi Po At Rn Fr Ra Ac Th Pa U Np Pu Am Cm Bk Cf Es Fm Md No Lr "
    "Rf Db Sg Bh Hs Mt Ds Rg Cn Nh Fl Mc Lv Ts Og").split()
assert len(ELEMENT_SYMBOLS) == 118
#: symbol -> atomic number; "Unknown" (atomic number 0) is the library's documented placeholder name
ELEMENT_Z = {sym: z + 1 for z, sym in enumerate(ELEMENT_SYMBOLS)}
ELEMENT_Z["Unknown"] = 0

#: the legal bond type tokens of a mol2 BOND line (TRIPOS definition + the orders 4-6 molli adds) -> name of the bond type
MOL2_BOND_TYPE_NAMES = {"1": "Single", "2": "Double", "3": "Triple", "4": "Quadruple", "5": "Quintuple", "6": "Sextuple",
                        "ar": "Aromatic", "am": "Amide", "du": "Dummy", "un": "Unknown", "nc": "NotConnected"}


def element_number(symbol: str):
    """atomic number named by an element column token (case-insensitive, as chemists write it), None if it names none"""
    return ELEMENT_Z.get(symbol.capitalize())


def mol2_atom_type_element(m2t: str):
    """(atomic number, is_dummy) stated by a mol2 atom type token 'El' / 'El.suffix' / 'Du' / 'Du.El'; None if the
    element part names no element"""
    elt, _, suffix = m2t.partition(".")
    if elt == "Du":
        return ELEMENT_Z.get(suffix, 0) if suffix else 0, True
    z = element_number(elt)
    if z is None:
        return None
    return z, False


def split_lines(text: str) -> list[str]:
    return text.splitlines(keepends=True)


def _is_comment(s: str) -> bool:
    return s.startswith("#")


# ------------------------------------------------------------------------------------------------
# literal reading: mol2

def mol2_records(lines: list[str]) -> list[dict]:
    """one dict per '@<TRIPOS>MOLECULE' tag line, in order of appearance"""
    stripped = [ln.strip() for ln in lines]
    starts = []
    for i, s in enumerate(stripped):
        m = RE_TAG.match(s)
        if m and m[1] == "MOLECULE":
            starts.append(i)
    recs = []
    for n, st in enumerate(starts):
        end = starts[n + 1] if n + 1 < len(starts) else len(lines)
        recs.append(_mol2_record(stripped, st, end))
    return recs


def _ints(tokens):
    out = []
    for t in tokens:
        out.append(int(t))  # ValueError propagates
    return out


def _mol2_record(stripped, st, end):
    rec = {"fmt": "mol2", "start": st, "end": end, "ok": False, "why": None, "name": None, "na": None, "nb": None,
           "chrg": None, "atoms": [], "bonds": [], "atom_attr": {}, "bond_attr": {}, "absent": [],
           "sig": [s for s in stripped[st:end] if s and not _is_comment(s)]}
    # ---- header: positional (name, counts, molecule type, charge type), as in the TRIPOS definition
    if end - st < 5:
        rec["why"] = "header-lines-missing"
        if end - st >= 3:
            _counts(rec, stripped[st + 2])
        return rec
    rec["name"] = stripped[st + 1]
    if not _counts(rec, stripped[st + 2]):
        rec["why"] = "header-counts-unreadable"
        return rec
    rec["chrg"] = stripped[st + 4]
    # ---- sections
    sections: dict[str, list[str]] = {}
    cur = None
    for s in stripped[st + 5:end]:
        m = RE_TAG.match(s)
        if m:
            cur = m[1]
            sections.setdefault(cur, [])
        elif not s or _is_comment(s):
            continue
        elif cur is not None:
            sections[cur].append(s)
    rec["absent"] = [x for x in ("ATOM", "BOND") if x not in sections]
    rec["sections"] = sorted(sections)
    atom_lines = sections.get("ATOM", [])
    bond_lines = sections.get("BOND", [])
    rec["n_atom_lines"] = len(atom_lines)
    rec["n_bond_lines"] = len(bond_lines)
    na, nb = rec["na"], rec["nb"] or 0
    if na < 0 or nb < 0:
        rec["why"] = "header-counts-negative"
        return rec
    if len(atom_lines) != na:
        rec["why"] = "atom-lines-fewer-than-declared" if len(atom_lines) < na else "atom-lines-more-than-declared"
        return rec
    if len(bond_lines) != nb:
        rec["why"] = "bond-lines-fewer-than-declared" if len(bond_lines) < nb else "bond-lines-more-than-declared"
        return rec
    for s in atom_lines:
        t = s.split(maxsplit=10)
        if len(t) < 6:
            rec["why"] = "atom-line-too-few-fields"
            return rec
        try:
            xyz = (float(t[2]), float(t[3]), float(t[4]))
        except ValueError:
            rec["why"] = "atom-line-coordinate-not-numeric"
            return rec
        rec["atoms"].append({"label": t[1], "xyz": xyz, "type": t[5], "charge_tok": t[8] if len(t) > 8 else None})
    for s in bond_lines:
        t = s.split(maxsplit=5)
        if len(t) < 4:
            rec["why"] = "bond-line-too-few-fields"
            return rec
        try:
            a1, a2 = int(t[1]), int(t[2])
        except ValueError:
            rec["why"] = "bond-line-endpoint-not-integer"
            return rec
        if a1 < 1 or a2 < 1:
            rec["why"] = "bond-endpoint-below-one"
            return rec
        if a1 > na or a2 > na:
            rec["why"] = "bond-endpoint-above-atom-count"
            return rec
        rec["bonds"].append({"a1": a1 - 1, "a2": a2 - 1, "type": t[3]})
    for sec, key, limit in (("UNITY_ATOM_ATTR", "atom_attr", na), ("UNITY_BOND_ATTR", "bond_attr", nb)):
        body = sections.get(sec, [])
        i = 0
        while i < len(body):
            t = body[i].split()
            i += 1
            try:
                idx, n_attr = _ints(t)
            except ValueError:
                rec["why"] = f"{sec.lower()}-malformed"
                return rec
            if idx < 1:
                rec["why"] = f"{sec.lower()}-index-below-one"
                return rec
            if idx > limit:
                rec["why"] = f"{sec.lower()}-index-above-count"
                return rec
            if n_attr < 0 or i + n_attr > len(body):
                rec["why"] = f"{sec.lower()}-entry-lines-fewer-than-declared" if n_attr >= 0 else f"{sec.lower()}-malformed"
                return rec
            for _ in range(n_attr):
                kv = body[i].split()
                i += 1
                if len(kv) != 2:
                    rec["why"] = f"{sec.lower()}-malformed"
                    return rec
                rec[key].setdefault(idx - 1, {})[kv[0]] = kv[1]
    rec["ok"] = True
    return rec


def _counts(rec, s) -> bool:
    try:
        c = _ints(s.split())
    except ValueError:
        return False
    if not c:
        return False
    rec["na"] = c[0]
    rec["nb"] = c[1] if len(c) > 1 else None
    return True


# ------------------------------------------------------------------------------------------------
# literal reading: xyz

def xyz_records(lines: list[str]) -> list[dict]:
    """count-driven reading; stops after the first record that is not complete"""
    recs = []
    i = 0
    while i < len(lines):
        rec = {"fmt": "xyz", "start": i, "end": len(lines), "ok": False, "why": None, "na": None, "nb": None,
               "atoms": [], "absent": []}
        recs.append(rec)
        try:
            na = int(lines[i])
        except ValueError:
            rec["why"] = "count-line-unreadable"
            break
        rec["na"] = na
        if na < 0:
            rec["why"] = "count-negative"
            break
        if i + 1 >= len(lines):
            rec["why"] = "comment-line-missing"
            break
        body = lines[i + 2:i + 2 + na]
        rec["n_atom_lines"] = len(body)
        if len(body) < na:
            rec["why"] = "atom-lines-fewer-than-declared"
            break
        bad = None
        for s in body:
            t = s.split()
            if len(t) != 4:
                bad = "atom-line-field-count"
                break
            try:
                xyz = (float(t[1]), float(t[2]), float(t[3]))
            except ValueError:
                bad = "atom-line-coordinate-not-numeric"
                break
            rec["atoms"].append({"sym": t[0], "xyz": xyz})
        if bad:
            rec["why"] = bad
            break
        rec["ok"] = True
        rec["end"] = i + 2 + na
        rec["sig"] = [s.strip() for s in lines[i:rec["end"]]]
        i = rec["end"]
    for r in recs:
        r.setdefault("sig", [s.strip() for s in lines[r["start"]:r["end"]]])
    return recs


def records(fmt, lines):
    return mol2_records(lines) if fmt == "mol2" else xyz_records(lines)


# ------------------------------------------------------------------------------------------------
# roles of pristine lines

def line_classes(fmt, lines) -> list[str]:
    n = len(lines)
    cls = ["other"] * n
    if fmt == "xyz":
        for r in xyz_records(lines):
            if not r["ok"]:
                break
            cls[r["start"]] = "count"
            cls[r["start"] + 1] = "comment"
            for i in range(r["start"] + 2, r["end"]):
                cls[i] = "atom"
        return cls
    stripped = [ln.strip() for ln in lines]
    cur = None
    hdr = 0
    for i, s in enumerate(stripped):
        m = RE_TAG.match(s)
        if hdr:
            cls[i] = {4: "hdr-name", 3: "hdr-counts", 2: "hdr-moltype", 1: "hdr-chargetype"}[hdr]
            hdr -= 1
            continue
        if m:
            cur = m[1]
            cls[i] = "tag-" + cur
            if cur == "MOLECULE":
                hdr = 4
                cur = None
        elif not s:
            cls[i] = "blank"
        elif _is_comment(s):
            cls[i] = "comment"
        elif cur == "ATOM":
            cls[i] = "atom"
        elif cur == "BOND":
            cls[i] = "bond"
        elif cur:
            cls[i] = "sect-" + cur
    return cls


# ------------------------------------------------------------------------------------------------
# damage

ADD_TOKENS = ["1", "7", "12", "X", "1.5", "C.3", "zz"]
FOREIGN_CHARS = ["\x00", "\ufeff", "\u200b", "\x7f", "\x01", "\u00ad"]
BAD_SYMBOLS = ["@@", "?", "C7", "Xq", "0", "Zz", "Jj", "C@", "--", "Qq.3"]
BAD_NUMBERS = ["abc", "1.2.3", "--1", "1,5", "", "0x1p", "1e", "?", "1.0.0e5", "12a"]


def _join(tokens, nl):
    return " ".join(tokens) + nl


UNITY_CLASSES = ("sect-UNITY_ATOM_ATTR", "sect-UNITY_BOND_ATTR")
#: bytes that can never occur in UTF-8 text, as the lone surrogates Python's 'surrogateescape' handler maps them to
BAD_BYTES = [0xFF, 0xFE, 0xC0, 0x80, 0xF8]


def _is_int(t):
    try:
        int(t)
        return True
    except ValueError:
        return False


def _unity_role(line):
    """'entry' for an 'index n_attr' line of a UNITY block, 'attr' for a 'name value' line"""
    t = line.split()
    return "entry" if len(t) == 2 and _is_int(t[0]) and _is_int(t[1]) else "attr"


def _corrupt_index(lines, classes, rng, i, tok, info):
    """a number in an *index* column (atom id, bond id, bond endpoint, UNITY entry index / attribute count) is changed
    into another number: still numeric, so nothing but a range / consistency check can notice.  -> True if applied"""
    c = classes[i]
    if c == "atom":
        k, col = 0, "atom-id"
    elif c == "bond":
        k = rng.choice([0, 1, 1, 2, 2])
        col = "bond-id" if k == 0 else "bond-endpoint"
    else:
        if _unity_role(lines[i]) != "entry":
            return False
        k = rng.choice([0, 0, 0, 1])
        col = ("unity-atom" if c == "sect-UNITY_ATOM_ATTR" else "unity-bond") + ("-index" if k == 0 else "-attr-count")
    if len(tok) <= k or not _is_int(tok[k]):
        return False
    how = rng.choice(["digit", "digit", "zero", "negative", "neighbour", "neighbour", "larger"])
    old = tok[k]
    if how == "digit":
        digits = [p for p, ch in enumerate(old) if ch.isdigit()]
        p = rng.choice(digits)
        new = old[:p] + rng.choice([d for d in "0123456789" if d != old[p]]) + old[p + 1:]
    elif how == "zero":
        new = "0"
    elif how == "negative":
        new = "-" + str(rng.randint(1, 3))
    elif how == "larger":
        new = old + rng.choice("0123456789")
    else:
        # the number of the same column a few lines up / down: a wrong value that is certainly within range
        new = old
        for d in rng.sample([-3, -2, -1, 1, 2, 3], 6):
            j = i + d
            if 0 <= j < len(lines) and classes[j] == c and (c in ("atom", "bond") or _unity_role(lines[j]) == "entry"):
                tj = lines[j].split()
                if len(tj) > k and _is_int(tj[k]) and int(tj[k]) != int(old):
                    new = tj[k]
                    break
    if int(new) == int(old):
        return False
    tok[k] = new
    info.update(field=k, column=col, how=how)
    return True


def _corrupt_unity_value(lines, classes, rng, i, tok, info):
    """the value (or, less often, the name) of one 'name value' line of a UNITY attribute block is garbled"""
    if _unity_role(lines[i]) != "attr" or len(tok) != 2:
        return False
    k = 1 if rng.random() < 0.8 else 0
    old = tok[k]
    how = rng.choice(["letter", "bad-number", "foreign-char", "cut", "extend", "other-number-form", "other-number-form"])
    if how == "other-number-form":
        # a number written the way another column would hold it (a real where an integer stood, ...)
        new = rng.choice(["1.0", "1.", "1e0", "-1.0", "2.5", ".5", "1e1", "0x1", "+2.0", "1,0"])
    elif how == "letter":
        p = rng.randrange(len(old))
        new = old[:p] + rng.choice("lOxqZ") + old[p + 1:]
    elif how == "bad-number":
        new = rng.choice([b for b in BAD_NUMBERS if b])
    elif how == "foreign-char":
        p = rng.randrange(len(old) + 1)
        new = old[:p] + rng.choice(FOREIGN_CHARS) + old[p + (1 if rng.random() < 0.5 else 0):]
    elif how == "cut":
        if len(old) < 2:
            return False
        new = old[:rng.randrange(1, len(old))]
    else:
        new = old + rng.choice(["0", ".", "e", "-"])
    if new == old or not new.strip():
        return False
    tok[k] = new
    info.update(field=k, column=("unity-atom" if classes[i] == "sect-UNITY_ATOM_ATTR" else "unity-bond")
                + ("-value" if k == 1 else "-name"), how=how)
    return True


def corrupt_byte(fmt, lines, classes, rng):
    """one byte of a data line is overwritten by (or one is slipped in as) a byte that no UTF-8 text contains.  The damaged
    text is returned as the str that decoding with errors='surrogateescape' gives (lone surrogate U+DC80..U+DCFF); written
    back with the same handler it is the damaged file, byte for byte.  -> (new_lines, prov, info) or None"""
    want = ("count", "atom") if fmt == "xyz" else ("hdr-counts", "atom", "atom", "bond") + UNITY_CLASSES
    cand = [i for i, c in enumerate(classes) if c in want]
    if not cand:
        return None
    i = rng.choice(cand)
    line = lines[i]
    spans = [m.span() for m in re.finditer(r"\S+", line)]
    if not spans:
        return None
    numeric = [sp for sp in spans if line[sp[0]:sp[1]].lstrip("+-")[:1].isdigit()]
    sp = rng.choice(numeric) if numeric and rng.random() < 0.8 else rng.choice(spans)
    b = rng.choice(BAD_BYTES)
    ch = chr(0xDC00 + b)
    mode = "overwrite" if rng.random() < 0.7 else "insert"
    if mode == "overwrite":
        p = rng.randrange(sp[0], sp[1])
        new_line = line[:p] + ch + line[p + 1:]
    else:
        p = rng.randrange(sp[0], sp[1] + 1)
        new_line = line[:p] + ch + line[p:]
    out = list(lines)
    out[i] = new_line
    prov = list(range(len(lines)))
    prov[i] = None
    info = {"kind": "byte:" + mode, "line": i, "class": classes[i], "old": line.rstrip("\n"), "new": new_line.rstrip("\n"),
            "byte": "0x%02X" % b, "token": "numeric" if sp in numeric else "other"}
    return out, prov, info


def corrupt_token(fmt, lines, classes, rng):
    """one seeded token corruption -> (new_lines, prov, info) or None if the draw is not applicable"""
    op = rng.choice(["count-digit", "count-digit", "remove-field", "add-field", "bad-coordinate", "coord-digit",
                     "foreign-char", "foreign-char", "bad-symbol", "index-digit", "index-digit", "index-digit",
                     "unity-value"]
                    # a text with UNITY blocks: their few lines get a fair share of the draws
                    + (["unity-value", "unity-value", "unity-value", "index-digit"]
                       if any(c in classes for c in UNITY_CLASSES) else []))
    if fmt == "xyz" and op in ("index-digit", "unity-value"):
        return None
    if op == "index-digit":
        want = ("atom", "bond", "bond") + UNITY_CLASSES + UNITY_CLASSES
        # the classes are drawn first, then the line: a handful of UNITY lines is not drowned by hundreds of atom lines
        present = [c for c in want if c in classes]
        if not present:
            return None
        want = (rng.choice(present),)
    elif op == "unity-value":
        want = UNITY_CLASSES
    elif op == "count-digit":
        want = ("count",) if fmt == "xyz" else ("hdr-counts",)
    elif op in ("bad-coordinate", "coord-digit"):
        want = ("atom",)
    elif op == "foreign-char":
        want = ("count", "atom") if fmt == "xyz" else ("hdr-counts", "atom", "bond")
    elif op == "bad-symbol":
        want = ("atom",)
    else:
        want = ("count", "atom") if fmt == "xyz" else ("hdr-counts", "atom", "bond") + UNITY_CLASSES
    cand = [i for i, c in enumerate(classes) if c in want]
    if not cand:
        return None
    i = rng.choice(cand)
    line = lines[i]
    nl = "\n" if line.endswith("\n") else ""
    tok = line.split()
    if not tok:
        return None
    info = {"op": op, "line": i, "class": classes[i], "old": line.rstrip("\n")}
    if op == "index-digit":
        if not _corrupt_index(lines, classes, rng, i, tok, info):
            return None
    elif op == "unity-value":
        if not _corrupt_unity_value(lines, classes, rng, i, tok, info):
            return None
    elif op == "count-digit":
        # change one digit of one count token (the value the header declares changes)
        k = rng.randrange(len(tok)) if rng.random() < 0.3 else rng.randrange(min(2, len(tok)))
        digits = [p for p, ch in enumerate(tok[k]) if ch.isdigit()]
        if not digits:
            return None
        p = rng.choice(digits)
        new = rng.choice([d for d in "0123456789" if d != tok[k][p]])
        tok[k] = tok[k][:p] + new + tok[k][p + 1:]
        info["field"] = k
    elif op == "foreign-char":
        # one character of a numeric token is overwritten by (or one is slipped in as) a character that is neither
        # data nor white space: a NUL of a damaged block, a byte-order mark, a zero-width space, a control character
        numeric = [k for k, t in enumerate(tok) if any(ch.isdigit() for ch in t) and t.lstrip("+-")[:1].isdigit()]
        if not numeric:
            return None
        k = rng.choice(numeric)
        ch = rng.choice(FOREIGN_CHARS)
        p = rng.randrange(len(tok[k]) + 1)
        tok[k] = tok[k][:p] + ch + (tok[k][p + 1:] if rng.random() < 0.6 and p < len(tok[k]) else tok[k][p:])
        info["field"] = k
        info["char"] = "U+%04X" % ord(ch)
    elif op == "bad-symbol":
        # the element column (xyz) / atom type column (mol2) is garbled into something that names no element
        k = 0 if fmt == "xyz" else 5
        if len(tok) <= k:
            return None
        tok[k] = rng.choice(BAD_SYMBOLS)
        info["field"] = k
    elif op == "remove-field":
        k = rng.randrange(len(tok))
        info["field"] = k
        del tok[k]
    elif op == "add-field":
        k = rng.randrange(len(tok) + 1)
        info["field"] = k
        tok.insert(k, rng.choice(ADD_TOKENS))
    elif op == "bad-coordinate":
        first = 1 if fmt == "xyz" else 2
        if len(tok) < first + 3:
            return None
        k = first + rng.randrange(3)
        info["field"] = k
        bad = rng.choice(BAD_NUMBERS)
        if bad == "":
            bad = "-"
        tok[k] = bad
    else:  # coord-digit: damage *inside* a numeric token that leaves a syntactically complete record
        first = 1 if fmt == "xyz" else 2
        if len(tok) < first + 3:
            return None
        k = first + rng.randrange(3)
        info["field"] = k
        how = rng.choice(["digit", "cut", "cut"])
        if how == "digit":
            digits = [p for p, ch in enumerate(tok[k]) if ch.isdigit()]
            if not digits:
                return None
            p = rng.choice(digits)
            tok[k] = tok[k][:p] + rng.choice([d for d in "0123456789" if d != tok[k][p]]) + tok[k][p + 1:]
        else:
            if len(tok[k]) < 2:
                return None
            tok[k] = tok[k][:rng.randrange(1, len(tok[k]))]
    new_line = _join(tok, nl)
    if new_line.strip() == line.strip() or " ".join(line.split()) == " ".join(tok):
        return None
    info["new"] = new_line.rstrip("\n")
    out = list(lines)
    out[i] = new_line
    prov = list(range(len(lines)))
    prov[i] = None
    return out, prov, info


def last_record_start(fmt, lines) -> int:
    recs = records(fmt, lines)
    return recs[-1]["start"] if recs else 0


def enumerate_cases(fmt, lines, n_tok, n_byte=0):
    """all case ids of one text, in a fixed order"""
    n = len(lines)
    cases = [("none",)]
    cases += [("lt", i) for i in range(n)]
    off0 = sum(len(x) for x in lines[:last_record_start(fmt, lines)])
    total = sum(len(x) for x in lines)
    cases += [("bt", o) for o in range(off0 + 1, total)]
    cases += [("del", i) for i in range(n)]
    cases += [("dup", i) for i in range(n)]
    cases += [("tok", k) for k in range(n_tok)]
    cases += [("byte", k) for k in range(n_byte)]
    return cases


def make_variant(fmt, lines, classes, case, rng_for):
    """-> (text', lines', prov, info) or None.  prov[i] = index of the pristine line that line i of the
    damaged text is (same content up to surrounding whitespace), or None if it was altered."""
    kind = case[0]
    n = len(lines)
    if kind == "none":
        return "".join(lines), list(lines), list(range(n)), {"kind": "none", "class": "-"}
    if kind == "lt":
        i = case[1]
        out = lines[:i]
        return "".join(out), out, list(range(i)), {"kind": "lt", "line": i, "class": classes[i] if i < n else "-"}
    if kind == "bt":
        o = case[1]
        text = "".join(lines)[:o]
        out = split_lines(text)
        prov = []
        for i, ln in enumerate(out):
            prov.append(i if ln.strip() == lines[i].strip() else None)
        li = len(out) - 1
        return text, out, prov, {"kind": "bt", "offset": o, "line": li, "class": classes[li] if 0 <= li < n else "-",
                                 "last_line": out[-1] if out else ""}
    if kind == "del":
        i = case[1]
        out = lines[:i] + lines[i + 1:]
        prov = list(range(i)) + list(range(i + 1, n))
        return "".join(out), out, prov, {"kind": "del", "line": i, "class": classes[i], "old": lines[i].rstrip("\n")}
    if kind == "dup":
        i = case[1]
        dup = lines[i] if lines[i].endswith("\n") else lines[i] + "\n"
        out = lines[:i] + [dup] + lines[i:]
        prov = list(range(i)) + [i] + list(range(i, n))
        return "".join(out), out, prov, {"kind": "dup", "line": i, "class": classes[i], "old": lines[i].rstrip("\n")}
    if kind == "tok":
        rng = rng_for(case)
        for _ in range(8):
            r = corrupt_token(fmt, lines, classes, rng)
            if r is not None:
                out, prov, info = r
                info["kind"] = "tok:" + info.pop("op")
                return "".join(out), out, prov, info
        return None
    if kind == "byte":
        rng = rng_for(case)
        for _ in range(8):
            r = corrupt_byte(fmt, lines, classes, rng)
            if r is not None:
                out, prov, info = r
                return "".join(out), out, prov, info
        return None
    raise ValueError(case)
