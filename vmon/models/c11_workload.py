"""
c11_workload -- input classes added to the C11 check after the gap review:

* placeholders(rng, mol): 0-3 dummy atoms / attachment points (Element.Unknown, AtomType.Dummy / AttachmentPoint) bonded as
  leaves to random atoms of a molecule (molli's fragments for combinatorial joins carry them);
* spectators(rng, mol): further connected components -- a small second tree, isolated atoms (counter-ion, solvent);
* near_linear(rng): small molecules whose bond angle at one or both ends of the bond to be turned is within
  1e-6 .. 5e-2 rad of 180 degrees (alkynes, nitriles, allenes), with substituents on both sides.

Top level: stdlib only.
"""
from __future__ import annotations

import math


def _gvec(rng):
    import numpy as np
    return np.array([rng.gauss(0, 1) for _ in range(3)])


def _unit(v):
    import numpy as np
    v = np.asarray(v, dtype=float)
    return v / math.sqrt(float(v @ v))


def _free_position(rng, x, anchor, lo=1.0, hi=1.6, min_sep=0.8):
    """a point at bond distance from x[anchor] that keeps `min_sep` from every row of x (None if none is found)"""
    import numpy as np
    for _ in range(200):
        q = x[anchor] + _unit(_gvec(rng)) * rng.uniform(lo, hi)
        if float(np.min(np.sqrt(np.sum((x - q) ** 2, axis=1)))) >= min_sep:
            return q
    return None


def placeholders(rng, mol, n=None, kinds=("ap", "ap", "dummy")):
    """add n (default 0-3) placeholder leaves; returns the list of their kinds (may be shorter than asked)"""
    import numpy as np
    from molli.chem import Atom, AtomType, Element

    n = rng.choice([0, 1, 1, 2, 3]) if n is None else n
    added = []
    for t in range(n):
        if mol.n_atoms < 1:
            break
        x = np.array(mol.coords, dtype=float)
        anchor = rng.randrange(mol.n_atoms)
        q = _free_position(rng, x, anchor)
        if q is None:
            continue
        kind = rng.choice(kinds)
        at = Atom(Element.Unknown, atype=AtomType.AttachmentPoint if kind == "ap" else AtomType.Dummy,
                  label=f"{'AP' if kind == 'ap' else 'DU'}{t}")
        mol.add_atom(at, [float(c) for c in q])
        mol.connect(mol.atoms[anchor], at)
        added.append(kind)
    return added


def spectators(rng, mol, n_components=None):
    """add 1-2 further components (a tree of 1-5 atoms each; one atom = an isolated atom) 3-8 A away; returns how many
    atoms were added"""
    import numpy as np
    from molli.chem import Atom

    n_components = rng.choice([1, 1, 2]) if n_components is None else n_components
    total = 0
    for _c in range(n_components):
        x = np.array(mol.coords, dtype=float)
        size = rng.choice([1, 1, 2, 3, 5])
        # the first atom of the component: next to the molecule, not inside it
        start = None
        for _ in range(200):
            q = x[rng.randrange(len(x))] + _unit(_gvec(rng)) * rng.uniform(3.0, 8.0) if len(x) else _gvec(rng)
            if not len(x) or float(np.min(np.sqrt(np.sum((x - q) ** 2, axis=1)))) >= 2.0:
                start = q
                break
        if start is None:
            continue
        first = Atom(rng.choice(["Na", "Cl", "O", "C", "N"]), label=f"S{total}")
        mol.add_atom(first, [float(c) for c in start])
        members = [first]
        total += 1
        for _k in range(size - 1):
            x = np.array(mol.coords, dtype=float)
            anchor_atom = rng.choice(members)
            q = _free_position(rng, x, mol.atoms.index(anchor_atom))
            if q is None:
                continue
            a = Atom(rng.choice(["C", "O", "H", "F"]), label=f"S{total}")
            mol.add_atom(a, [float(c) for c in q])
            mol.connect(anchor_atom, a)
            members.append(a)
            total += 1
    return total


def near_linear(rng, deltas=None):
    """(molecule, (k, i, j, l), (delta_i, delta_j)): chain k-i-j-l with angle(k,i,j) = pi - delta_i and
    angle(i,j,l) = pi - delta_j (delta None = an ordinary angle), plus 1-4 further atoms grown on k, l (and on i, j when
    their angle is ordinary), arbitrary pose"""
    import numpy as np
    from molli.chem import Atom, Molecule

    def delta():
        return 10.0 ** rng.uniform(-6.0, math.log10(0.05))

    if deltas is None:
        t = rng.randrange(4)
        if t == 2:
            # both ends nearly linear: the product of the two sines stays above 2e-8 (below that the torsion has no digits)
            d1 = delta()
            d2 = 10.0 ** rng.uniform(math.log10(min(0.05, max(1e-6, 2e-8 / d1))), math.log10(0.05))
            deltas = (d1, d2) if rng.random() < 0.5 else (d2, d1)
        else:
            deltas = (delta(), None) if t == 0 else (None, delta()) if t == 1 \
                else (delta(), 10.0 ** rng.uniform(-2.0, math.log10(0.05)))
    di, dj = deltas
    ordinary = lambda: rng.uniform(math.radians(95), math.radians(130))  # noqa: E731
    ai = math.pi - di if di is not None else ordinary()
    aj = math.pi - dj if dj is not None else ordinary()
    b = [rng.uniform(1.05, 1.6) for _ in range(3)]
    phi = rng.uniform(-math.pi, math.pi)
    # i at the origin, j on +x; k in the xy plane; l turned by phi about x
    xi = np.zeros(3)
    xj = np.array([b[1], 0.0, 0.0])
    xk = b[0] * np.array([math.cos(ai), math.sin(ai), 0.0])          # angle(k - i, j - i) = ai
    xl = xj + b[2] * np.array([-math.cos(aj), math.sin(aj) * math.cos(phi), math.sin(aj) * math.sin(phi)])
    pts = [xk, xi, xj, xl]
    parents = [1, -1, 1, 2]
    grow_on = [0, 3] + ([1] if di is None else []) + ([2] if dj is None else [])
    for _ in range(rng.randrange(1, 5)):
        x = np.array(pts)
        anchor = rng.choice(grow_on)
        q = _free_position(rng, x, anchor, min_sep=0.9)
        if q is None:
            continue
        pts.append(q)
        parents.append(anchor)
        grow_on.append(len(pts) - 1)
    x = np.array(pts)
    # arbitrary pose
    a = np.array([[rng.gauss(0, 1) for _ in range(3)] for _ in range(3)])
    qm, r = np.linalg.qr(a)
    qm = qm @ np.diag(np.sign(np.diag(r)))
    if np.linalg.det(qm) < 0:
        qm[:, 0] = -qm[:, 0]
    x = x @ qm + _gvec(rng) * rng.choice([0.0, 1.0, 5.0])
    mol = Molecule([Atom(rng.choice(["C", "C", "N", "O", "Si"]), label=f"L{t}") for t in range(len(pts))],
                   name="nearlinear", coords=x)
    for t, p in enumerate(parents):
        if p >= 0:
            mol.connect(p, t)
    return mol, (0, 1, 2, 3), (di, dj)
