"""
Identity-keyed reference model of a molecule under structure edits (C05).

State: ordered list of atom objects (identity), per atom the coordinate row and partial charge it was given,
the set of bonds (identity) with their endpoint atoms.  The model never calls molli edit methods; it only reads
`element`, `label` of atoms to resolve label / element arguments the way the documentation states
("first instance found").
"""
from __future__ import annotations

import math


class EditModel:
    def __init__(self, atoms, rows, charges, bonds, has_charges=True):
        self.atoms = list(atoms)
        self.row = {id(a): tuple(map(float, r)) for a, r in zip(atoms, rows)}
        self.has_charges = has_charges
        self.charge = {id(a): float(q) for a, q in zip(atoms, charges)} if has_charges else {}
        self.bonds = [(b, b.a1, b.a2) for b in bonds]
        self._keep = list(atoms)  # keep objects alive so ids stay unique

    # ---- resolution of AtomLike arguments, as documented
    def resolve(self, x):
        from molli.chem import Atom, Element

        if isinstance(x, Atom):
            return x if any(a is x for a in self.atoms) else None
        if isinstance(x, Element):
            return next((a for a in self.atoms if a.element == x), None)
        if isinstance(x, bool):
            return None
        if isinstance(x, int):
            if -len(self.atoms) <= x < len(self.atoms):
                return self.atoms[x]
            return None
        if isinstance(x, str):
            return next((a for a in self.atoms if a.label == x), None)
        return None

    def index(self, a):
        for i, x in enumerate(self.atoms):
            if x is a:
                return i
        return -1

    # ---- expected effects
    def add(self, a, row, charge=0.0):
        self.atoms.append(a)
        self._keep.append(a)
        self.row[id(a)] = tuple(map(float, row))
        if self.has_charges:
            self.charge[id(a)] = float(charge)

    def delete(self, a):
        self.atoms = [x for x in self.atoms if x is not a]
        self.bonds = [(b, p, q) for b, p, q in self.bonds if p is not a and q is not a]

    def add_bond(self, b):
        self.bonds.append((b, b.a1, b.a2))

    def del_bond(self, b):
        self.bonds = [(x, p, q) for x, p, q in self.bonds if x is not b]

    def neighbours(self, a):
        out = []
        for b, p, q in self.bonds:
            if p is a:
                out.append(q)
            elif q is a:
                out.append(p)
        return out

    def reach(self, start, direction):
        """atoms reachable from `direction` without passing `start` (incl. direction)"""
        seen = {id(start), id(direction)}
        out = [direction]
        queue = [direction]
        while queue:
            x = queue.pop(0)
            for n in self.neighbours(x):
                if id(n) not in seen:
                    seen.add(id(n))
                    out.append(n)
                    queue.append(n)
        return out


def same_float(a, b):
    a, b = float(a), float(b)
    return (math.isnan(a) and math.isnan(b)) or a == b
