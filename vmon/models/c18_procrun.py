"""
c18_procrun -- one jobmap run of a C18 history in an interpreter of its own.

    python -m vmon.models.c18_procrun <cfg.json> <report.json>

The configuration is plain data (see vmon.props.C18.call_run); the report is {"exc": null | description of the
exception that left the call}.  Nothing is shared with the process that issued the previous run of the history except
the files: a resumed calculation is always a new interpreter with another string-hash seed.
"""
import json
import os
import sys


def main():
    cfg_file, out_file = sys.argv[1:3]
    with open(cfg_file) as f:
        cfg = json.load(f)
    from vmon.props import C18

    res = {"exc": C18.call_run(cfg), "hashseed": os.environ.get("PYTHONHASHSEED")}
    tmp = out_file + ".tmp"
    with open(tmp, "w") as f:
        json.dump(res, f)
    os.replace(tmp, out_file)


if __name__ == "__main__":
    main()
