"""
c17_kits -- "kits" that drive molli's own driver classes (XTBDriver of the anchored molli/pipeline/xtb.py; CrestDriver,
ORCADriver, NWChemDriver outside the anchored files) through the binding histories of vmon/props/C17.py.

A kit knows, for one driver class: how to obtain a pristine class (module reloaded => pristine class-level Job objects),
which jobs it has, how to call each job with NON-DEFAULT values of every keyword ("the caller's arguments"), and where
the resulting JobInput must show the driver's executable / processor count and each argument.

Only imported inside functions of the property module (molli / numpy needed).
"""
from __future__ import annotations

import importlib
import re

CLS_EXE = "c17-class-level-exe"
CLS_NPROCS = 7


def _mol(pos, i, rng, charge=None):
    """a 4-atom molecule (H2O2) whose coordinates, name and charge differ from use to use"""
    import molli as ml

    d = 0.01 * (pos + 1) + 0.001 * i
    xyz = (f"4\nh2o2\nO 0.0 {0.7 + d:.4f} 0.0\nO 0.0 {-0.7 - d:.4f} 0.0\n"
           f"H {0.9 + d:.4f} 0.9 0.3\nH {-0.9 - d:.4f} -0.9 {0.3 + d:.4f}\n")
    mol = ml.Molecule.loads_xyz(xyz)
    mol.name = f"mol{pos}{'ABC'[i]}"
    mol.charge = rng.choice([0, 0, 1, -1, 2]) if charge is None else charge
    return mol


def _ens(mol, rng):
    import molli as ml

    n = rng.choice([2, 3])
    ens = ml.ConformerEnsemble(mol, n_conformers=n)
    for c in range(n):
        ens.coords[c] = mol.coords + 0.05 * c
    return ens


def _geom(m):
    return [a.element.symbol for a in m.atoms], [[float(v) for v in row] for row in m.coords]


class _ShippedKit:
    kind = "shipped"
    module = None
    clsname = None
    drop_key = "xtb-driver-input-drops-envars"
    jobs = []
    anchored = False

    def __init__(self):
        self._mod = importlib.import_module(self.module)

    def fresh(self, clsdef):
        mod = importlib.reload(self._mod)
        base = getattr(mod, self.clsname)
        if not clsdef:
            return base, {}
        sub = type("C17Sub" + self.clsname, (base,), {"executable": CLS_EXE, "nprocs": CLS_NPROCS})
        return sub, {"executable": CLS_EXE, "nprocs": CLS_NPROCS}

    def seq(self):
        return list(self.jobs)

    def construct(self, Drv, s, found):
        if found:
            return Drv(s["exe"], nprocs=s["nprocs"], memory=s["memory"], envars=s["envars"])
        return Drv(s["bare"], nprocs=s["nprocs"], memory=s["memory"], envars=s["envars"], check_exe=False, find=False)

    def discovered_jobs(self, Drv):
        """every Job attribute found on the driver class (a job this kit has no oracle for is reported as a note)"""
        from molli.pipeline.job import Job

        byid = {}
        for klass in Drv.__mro__:
            for k, v in vars(klass).items():
                if isinstance(v, Job):
                    byid.setdefault(id(v), set()).add(k)      # `@job.post def other_name` makes an alias of the same job
        # one name per job: the one this kit drives if there is one
        return sorted(min(names, key=lambda n: (n not in self.jobs, n)) for names in byid.values())


# ---------------------------------------------------------------------------------------------------------------------
class XTBKit(_ShippedKit):
    name = "xtb"
    module = "molli.pipeline.xtb"
    clsname = "XTBDriver"
    jobs = ["optimize_m", "energy_m", "atom_properties_m", "optimize_ens", "scan_dihedral"]
    anchored = True
    loc = "P"

    def take(self, ctx, drv, jn, pos, i, rng):
        job = getattr(drv, jn)                      # the attribute access is the binding event
        mol = _mol(pos, i, rng)
        charge = rng.choice([None, 1, -1, 2, 0, 0])
        mult = rng.choice([None, 1, 2, 3])
        method = rng.choice(["gfn2", "gfn1", "gff", "gfn0"])
        e_charge = mol.charge if charge is None else charge
        e_mult = mol.mult if mult is None else mult
        zero = charge == 0 and mol.charge != 0
        if zero:
            ctx.count("bind.xtb.arg.charge-zero-on-charged-molecule")
        pairs = [("--charge", str(e_charge), "str", ("zero-charge", str(mol.charge)) if zero else None),
                 ("--uhf", str(e_mult - 1), "str", None)]
        ctx.count("bind.xtb.arg.charge" if charge is not None else "bind.xtb.arg.charge-from-molecule")
        ctx.count("bind.xtb.arg.mult" if mult is not None else "bind.xtb.arg.mult-from-molecule")
        want = {"loc": "P", "tokens": [f"--{method}"], "pairs": pairs, "joblevel": {}}
        ctx.count(f"bind.xtb.job.{jn}")
        if jn == "scan_dihedral":
            acc = rng.choice([0.25, 1.5, 0.05, 2.0])
            nst = rng.choice([12, 36, 7])
            mxs = rng.choice([8, 33])
            fc = rng.choice([0.25, 1.0, 0.75])
            rdeg = rng.choice([(0.0, 180.0), (10.0, 90.0)])
            atoms = rng.choice([(2, 0, 1, 3), (3, 1, 0, 2)])
            pairs.append(("--acc", acc, "float", None))
            want["tokens"] += ["--opt", "--input", "scan.inp"]
            want["xyz"] = ("mol.xyz",) + _geom(mol)
            idx = ",".join(str(a + 1) for a in atoms)
            want["filetext"] = [("scan.inp", [
                ("n_steps", r"\$scan\s*\n[^$]*,\s*%d\s*\n" % nst),
                ("maxiter_per_step", r"maxcycle\s*=\s*%d\b" % mxs),
                ("force_const", r"force constant\s*=\s*%s\b" % re.escape(str(fc))),
                ("dihedral_atoms", r"dihedral:\s*%s\s*," % re.escape(idx)),
            ])]
            want["need_return"] = ["xtbscan.log"]
            for a in ("accuracy", "n_steps", "maxiter_per_step", "force_const", "range_deg", "dihedral_atoms"):
                ctx.count(f"bind.xtb.arg.{a}")
            kw = dict(method=method, accuracy=acc, range_deg=rdeg, n_steps=nst, maxiter_per_step=mxs, force_const=fc,
                      charge=charge, mult=mult)
            return (lambda: [job.prepare(mol, atoms, **kw)]), [want]
        maxiter = rng.choice([17, 250, 999])
        misc = rng.choice(["--c17misc", "--alpb water", None])
        xtbinp = rng.choice(["", "", "$fix\n  atoms: 1\n$end\n"])
        pairs.append(("--iterations", str(maxiter), "str", None))
        ctx.count("bind.xtb.arg.maxiter")
        if misc:
            want["tokens"] += misc.split()
            ctx.count("bind.xtb.arg.misc")
        kw = dict(charge=charge, mult=mult, method=method, maxiter=maxiter, misc=misc)
        if xtbinp:
            kw["xtbinp"] = xtbinp
            want["param"] = ("param.inp", xtbinp)
            ctx.count("bind.xtb.arg.xtbinp")
        if jn in ("optimize_m", "optimize_ens"):
            crit = rng.choice(["tight", "vtight", "crude", "normal"])
            kw["crit"] = crit
            pairs.append(("--opt", crit, "str", None))
            want["need_return"] = ["xtbopt.xyz"]
            ctx.count("bind.xtb.arg.crit")
        else:
            acc = rng.choice([0.25, 1.5, 0.05, 2.0])
            kw["accuracy"] = acc
            pairs.append(("--acc", acc, "float", None))
            ctx.count("bind.xtb.arg.accuracy")
            if jn == "atom_properties_m":
                want["tokens"].append("--vfukui")
        if jn == "optimize_ens":
            ens = _ens(mol, rng)
            gen = job.prepare(ens, **kw)            # a generator: consumed when the history says so
            wants = []
            for c in range(ens.n_conformers):
                sym, _ = _geom(mol)
                wants.append(dict(want, xyz=("input.xyz", sym, [[float(v) for v in row] for row in ens.coords[c]])))
            return (lambda: list(gen)), wants
        want["xyz"] = ("input.xyz",) + _geom(mol)
        return (lambda: [job.prepare(mol, **kw)]), [want]


# ---------------------------------------------------------------------------------------------------------------------
class CrestKit(_ShippedKit):
    name = "crest"
    module = "molli.pipeline.crest"
    clsname = "CrestDriver"
    jobs = ["conformer_search", "conformer_screen"]

    def take(self, ctx, drv, jn, pos, i, rng):
        job = getattr(drv, jn)
        mol = _mol(pos, i, rng)
        charge = rng.choice([None, 1, -1, 0])
        mult = rng.choice([None, 1, 3])
        method = rng.choice(["gfn2", "gfnff", None])
        ewin = rng.choice([6.0, 12.5, None])
        mdlen = rng.choice([None, 20.0])
        temp = rng.choice([None, 298.15])
        chk = rng.choice([None, True, False])
        misc = rng.choice([None, "--c17misc", "--alpb water"])
        pairs = [("-chrg", str(mol.charge if charge is None else charge), "str", None),
                 ("-uhf", str((mol.mult if mult is None else mult) - 1), "str", None)]
        for flag, val in (("-ewin", ewin), ("-mdlen", mdlen), ("-temp", temp)):
            if val is not None:
                pairs.append((flag, val, "float", None))
        tokens = ["input.xyz"] + ([f"-{method}"] if method else []) + (misc.split() if misc else [])
        if not chk:
            tokens.append("--noreftopo")
        kw = dict(charge=charge, mult=mult, method=method, temp=temp, ewin=ewin, mdlen=mdlen, chk_topo=chk, misc=misc)
        want = {"loc": "T", "tokens": tokens, "pairs": pairs, "joblevel": {}}
        if jn == "conformer_search":
            want["xyz"] = ("input.xyz",) + _geom(mol)
            want["need_return"] = ["crest_conformers.xyz"]
            return (lambda: [job.prepare(mol, **kw)]), [want]
        ens = _ens(mol, rng)
        want["tokens"] = tokens + ["-screen"]
        want["need_return"] = ["crest_ensemble.xyz"]
        want["need_files"] = ["input.xyz"]
        return (lambda: [job.prepare(ens, **kw)]), [want]


class OrcaKit(_ShippedKit):
    name = "orca"
    module = "molli.pipeline.orca"
    clsname = "ORCADriver"
    jobs = ["basic_calc_m"]

    def take(self, ctx, drv, jn, pos, i, rng):
        job = getattr(drv, jn)
        mol = _mol(pos, i, rng)
        charge = rng.choice([None, 1, -1])           # (the `charge or M.charge` idiom is judged for the anchored xtb.py only)
        e_charge = mol.charge if charge is None else charge
        mult = rng.choice([None, 2, 3])
        kwd = rng.choice(["rks b97-3c opt", "uks pbe0 def2-svp energy", "hf-3c c17keyword"])
        want = {"loc": "orca", "tokens": ["m_orca.inp"], "pairs": [], "joblevel": {},
                "filetext": [("m_orca.inp", [
                    ("keywords", r"^!\s*%s\s*$" % re.escape(kwd)),
                    ("charge/mult", r"^\*\s*xyz\s+%s\s+%d\s*$" % (re.escape(str(e_charge)), mol.mult if mult is None else mult)),
                ])]}
        return (lambda: [job.prepare(mol, keywords=kwd, charge=charge, mult=mult)]), [want]


class NWChemKit(_ShippedKit):
    name = "nwchem"
    module = "molli.pipeline.nwchem"
    clsname = "NWChemDriver"
    jobs = ["optimize_atomic_esp_charges_m"]

    def take(self, ctx, drv, jn, pos, i, rng):
        job = getattr(drv, jn)
        mol = _mol(pos, i, rng)
        fn = rng.choice(["pbe0", "b3lyp", "m06-2x"])
        mx = rng.choice([33, 77, 150])
        want = {"loc": "nwchem", "tokens": ["esp.inp"], "pairs": [], "joblevel": {},
                "filetext": [("esp.inp", [("functional", r"^\s*xc\s+%s\s*$" % re.escape(fn)),
                                          ("maxiter", r"^\s*maxiter\s+%d\s*$" % mx)])],
                "need_return": ["esp.esp"]}
        return (lambda: [job.prepare(mol, functional=fn, maxiter=mx)]), [want]


KITS = {"xtb": XTBKit, "crest": CrestKit, "orca": OrcaKit, "nwchem": NWChemKit}
