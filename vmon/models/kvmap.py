"""
Reference model of a UKV file as an insert-only map + an independent raw-file scanner.

Nothing here imports molli.  The on-disk layout is taken from the format's documentation in
molli/storage/ukvfile.py (file header ">16sHI10x", then h2, then b0, then records ">BI" + key + value).
"""
from __future__ import annotations

import struct

FILE_HEADER = struct.Struct(">16sHI10x")
BLOCK_HEADER = struct.Struct(">BI")


class ScanError(Exception):
    pass


def scan(data: bytes):
    """-> (h1, h2, b0, [(key, value, pos)], end).  Raises ScanError on orphan / torn bytes."""
    if len(data) < FILE_HEADER.size:
        raise ScanError(f"file shorter than its header: {len(data)}")
    h1, h2len, b0len = FILE_HEADER.unpack_from(data, 0)
    pos = FILE_HEADER.size
    if len(data) < pos + h2len + b0len:
        raise ScanError("header blocks cut")
    h2 = data[pos:pos + h2len]
    pos += h2len
    b0 = data[pos:pos + b0len]
    pos += b0len
    recs = []
    while pos < len(data):
        if pos + BLOCK_HEADER.size > len(data):
            raise ScanError(f"torn record header at {pos} (file length {len(data)})")
        klen, vlen = BLOCK_HEADER.unpack_from(data, pos)
        end = pos + BLOCK_HEADER.size + klen + vlen
        if end > len(data):
            raise ScanError(f"record at {pos} declares end {end} beyond file length {len(data)}")
        k = data[pos + BLOCK_HEADER.size: pos + BLOCK_HEADER.size + klen]
        v = data[pos + BLOCK_HEADER.size + klen: end]
        recs.append((k, v, pos))
        pos = end
    return h1, h2, b0, recs, pos


def scan_lenient(data: bytes):
    """like scan but stops at the first torn record: -> (records, clean_end, torn: bool)"""
    h1, h2len, b0len = FILE_HEADER.unpack_from(data, 0)
    pos = FILE_HEADER.size + h2len + b0len
    recs = []
    while pos < len(data):
        if pos + BLOCK_HEADER.size > len(data):
            return recs, pos, True
        klen, vlen = BLOCK_HEADER.unpack_from(data, pos)
        end = pos + BLOCK_HEADER.size + klen + vlen
        if end > len(data):
            return recs, pos, True
        recs.append((data[pos + 5: pos + 5 + klen], data[pos + 5 + klen: end], pos))
        pos = end
    return recs, pos, False


class Handle:
    __slots__ = ("open", "mode", "view")

    def __init__(self):
        self.open = False
        self.mode = None
        self.view = set()


class KVModel:
    """insert-only map with per-handle views (what a handle may legitimately know)"""

    def __init__(self, h1=b"", h2=b"", b0=b""):
        self.h1, self.h2, self.b0 = h1, h2, b0
        self.committed: dict[bytes, bytes] = {}
        self.handles: dict[int, Handle] = {}

    def handle(self, h) -> Handle:
        return self.handles.setdefault(h, Handle())

    # -- which operations the session discipline allows next
    def may_open(self, h, mode) -> bool:
        hd = self.handle(h)
        if hd.open:
            return False
        others = [x for i, x in self.handles.items() if i != h and x.open]
        if mode == "a":
            return not others
        return all(x.mode == "r" for x in others)

    # -- expected effects
    def do_open(self, h, mode):
        hd = self.handle(h)
        hd.open, hd.mode = True, mode
        hd.view = set(self.committed)

    def do_close(self, h):
        self.handle(h).open = False

    def expect_put(self, h, k, v):
        """-> ('ok',) or ('raise', reason)"""
        hd = self.handle(h)
        if not hd.open:
            return ("raise", "closed")
        if hd.mode == "r":
            return ("raise", "readonly")
        if k in hd.view or k in self.committed:
            return ("raise", "duplicate")
        if len(k) > 255:
            return ("raise", "oversize-key")
        return ("ok",)

    def do_put(self, h, k, v):
        self.committed[k] = v
        self.handle(h).view.add(k)

    def expect_get(self, h, k):
        hd = self.handle(h)
        if not hd.open:
            return ("raise", "closed")
        if k in hd.view:
            return ("value", self.committed[k])
        return ("raise", "unknown-key")

    def expect_keys(self, h):
        return set(self.handle(h).view)
