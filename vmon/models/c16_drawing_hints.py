"""
C16 helper -- the hydrogen hints of a ChemDraw drawing, read from the CDXML text itself.

The library's CDXML reader is not used: the file is walked with xml.etree and every drawn fragment is reduced to the
multiset of (atomic number, drawn charge, NumHydrogens or None) of its real atoms.  Nodes that stand for something else
(external connection points, nicknames / contracted fragments, generic or unspecified labels, multi-attachment points)
are not atoms; the atoms of a contracted fragment drawn inside such a node belong to the enclosing fragment.

Which drawn fragment a parsed molecule came from is NOT decided here (that is the reader's label-to-fragment rule);
`judge` only asks whether SOME fragment of the file with the molecule's heavy-atom composition carries exactly the
molecule's hints.  Stdlib only.
"""
from __future__ import annotations

from collections import Counter
from xml.etree import ElementTree as ET

NOT_ATOMS = {"ExternalConnectionPoint", "Fragment", "Nickname", "GenericNickname", "Unspecified", "MultiAttachment"}


def _collect(frag, out):
    for n in frag.findall("./n"):
        for inner in n.findall("./fragment"):
            _collect(inner, out)
        if n.get("NodeType") in NOT_ATOMS:
            continue
        z = n.get("Element")
        h = n.get("NumHydrogens")
        out.append((int(z) if z else 6, int(n.get("Charge", 0)), None if h is None else int(h)))
    return out


def drawn_fragments(path):
    """list of Counter((z, charge, hint)) -- one per outermost <fragment> of the file"""
    root = ET.parse(path).getroot()
    parent = {c: p for p in root.iter() for c in p}
    frags = []
    for frag in root.iter("fragment"):
        p = parent.get(frag)
        if p is not None and p.tag == "n":
            continue
        frags.append(Counter(_collect(frag, [])))
    return frags


def composition(full):
    c = Counter()
    for (z, q, _h), n in full.items():
        c[(z, q)] += n
    return c


def judge(fragments, mol_atoms):
    """mol_atoms: iterable of (z, formal charge, hint or None) of the parsed molecule's real atoms (z > 0).

    returns (verdict, detail): verdict is "match", "no-candidate" (no drawn fragment has this composition: not judged)
    or a direction: "hint-dropped", "hint-invented", "hint-value-changed" (candidates exist, none carries these hints)"""
    mine = Counter(mol_atoms)
    comp = composition(mine)
    cands = [f for f in fragments if composition(f) == comp]
    if not cands:
        return "no-candidate", {}
    for f in cands:
        if f == mine:
            return "match", {"hints": sum(n for (_z, _q, h), n in f.items() if h is not None),
                             "zero_hints": sum(n for (_z, _q, h), n in f.items() if h == 0),
                             "nonzero_hints": sum(n for (_z, _q, h), n in f.items() if h)}
    best = min(cands, key=lambda f: sum(((f - mine) + (mine - f)).values()))
    n_text = sum(n for (_z, _q, h), n in best.items() if h is not None)
    n_mol = sum(n for (_z, _q, h), n in mine.items() if h is not None)
    verdict = "hint-dropped" if n_mol < n_text else "hint-invented" if n_mol > n_text else "hint-value-changed"
    return verdict, {"only_in_text(z,charge,hint)": sorted((best - mine).elements(), key=repr)[:8],
                     "only_in_molecule(z,charge,hint)": sorted((mine - best).elements(), key=repr)[:8],
                     "candidate_fragments": len(cands)}
